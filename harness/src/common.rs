//! Shared pieces: PRNG, wire encoding, charinfo.
use std::collections::BTreeSet;
use std::fmt::Write as _;

/// splitmix64 — every random choice in the harness derives from one of these.
#[derive(Clone)]
pub struct Rng(pub u64);
impl Rng {
    pub fn new(seed: u64) -> Self {
        Rng(seed.wrapping_mul(0x9E3779B97F4A7C15) ^ 0xD1B54A32D192ED03)
    }
    pub fn next(&mut self) -> u64 {
        self.0 = self.0.wrapping_add(0x9E3779B97F4A7C15);
        let mut z = self.0;
        z = (z ^ (z >> 30)).wrapping_mul(0xBF58476D1CE4E5B9);
        z = (z ^ (z >> 27)).wrapping_mul(0x94D049BB133111EB);
        z ^ (z >> 31)
    }
    pub fn below(&mut self, n: usize) -> usize {
        if n == 0 {
            0
        } else {
            (self.next() % n as u64) as usize
        }
    }
    pub fn chance(&mut self, num: usize, den: usize) -> bool {
        self.below(den) < num
    }
    pub fn pick<'a, T>(&mut self, xs: &'a [T]) -> &'a T {
        &xs[self.below(xs.len())]
    }
}

pub fn enc_text(s: &str) -> String {
    if s.is_empty() {
        return "-".to_string();
    }
    let mut out = String::new();
    for (i, c) in s.chars().enumerate() {
        if i > 0 {
            out.push(',');
        }
        let _ = write!(out, "{}", c as u32);
    }
    out
}

pub fn dec_text(s: &str) -> Option<String> {
    if s == "-" {
        return Some(String::new());
    }
    let mut out = String::new();
    for p in s.split(',') {
        out.push(char::from_u32(p.parse::<u32>().ok()?)?);
    }
    Some(out)
}

pub fn enc_texts<S: AsRef<str>>(ts: &[S]) -> String {
    if ts.is_empty() {
        return "~".to_string();
    }
    ts.iter().map(|t| enc_text(t.as_ref())).collect::<Vec<_>>().join(";")
}

pub fn dec_texts(s: &str) -> Option<Vec<String>> {
    if s == "~" {
        return Some(vec![]);
    }
    s.split(';').map(dec_text).collect()
}

pub fn dec_bool(s: &str) -> Option<bool> {
    match s {
        "1" => Some(true),
        "0" => Some(false),
        _ => None,
    }
}

pub fn enc_bool(b: bool) -> &'static str {
    if b {
        "1"
    } else {
        "0"
    }
}

/// Grapheme_Cluster_Break class of the characters the generators use (UAX #29 data is not
/// exposed by `unicode-segmentation`; the agreement of the model's segmenter built on this
/// column with the crate is itself a correspondence target).
pub fn gcb_class(c: char) -> &'static str {
    match c {
        '\r' => "CR",
        '\n' => "LF",
        '\u{200D}' => "ZWJ",
        '\u{0300}'..='\u{036F}' | '\u{FE00}'..='\u{FE0F}' | '\u{200C}' => "Extend",
        '\u{1F3FB}'..='\u{1F3FF}' => "Extend",
        '\u{1F1E6}'..='\u{1F1FF}' => "RI",
        '\u{1F300}'..='\u{1F3FA}' | '\u{1F400}'..='\u{1FAFF}' | '\u{2600}'..='\u{27BF}' => "ExtPict",
        c if c.is_control() => "Control",
        '\u{0903}' => "SpacingMark",
        '\u{0600}'..='\u{0605}' => "Prepend",
        _ => "Other",
    }
}

pub fn charinfo_line(c: char) -> String {
    use unicode_width::UnicodeWidthChar;
    let up: String = c.to_uppercase().collect();
    let lo: String = c.to_lowercase().collect();
    // `width`: UnicodeWidthChar (layout::cwidh); `swidth`: UnicodeWidthStr of the one-char string
    // (layout::uwidth — differs for control characters)
    format!(
        "charinfo {} {} {} {} {} {} {} {} {}",
        c as u32,
        enc_bool(c.is_alphanumeric()),
        enc_bool(c.is_whitespace()),
        enc_bool(c.is_control()),
        gcb_class(c),
        c.width().unwrap_or(0),
        enc_text(&up),
        enc_text(&lo),
        unicode_width::UnicodeWidthStr::width(c.to_string().as_str())
    )
}

/// Emits `charinfo` lines for every code point that occurs as a decimal number in a request
/// (over-approximation: a few non-text numbers get a line too, which is harmless).
#[derive(Default)]
pub struct CharInfoEmitter {
    seen: BTreeSet<u32>,
}
impl CharInfoEmitter {
    /// the character and everything its case mappings can produce
    fn emit_closure(&mut self, c: char, out: &mut Vec<String>) {
        let mut todo = vec![c];
        while let Some(c) = todo.pop() {
            if self.seen.insert(c as u32) {
                out.push(charinfo_line(c));
                todo.extend(c.to_uppercase());
                todo.extend(c.to_lowercase());
            }
        }
    }
    pub fn lines_for(&mut self, req: &str) -> Vec<String> {
        let mut out = vec![];
        // key tokens are hex byte strings: the characters they encode need a line too
        for tok in req.split(' ') {
            if tok.len() >= 2 && tok.len() % 2 == 0 && tok.bytes().all(|b| b.is_ascii_hexdigit()) {
                let bytes: Vec<u8> =
                    (0..tok.len()).step_by(2).filter_map(|i| u8::from_str_radix(&tok[i..i + 2], 16).ok()).collect();
                for c in String::from_utf8_lossy(&bytes).chars() {
                    self.emit_closure(c, &mut out);
                }
            }
        }
        let mut cur: Option<u64> = None;
        for ch in req.chars().chain(std::iter::once(' ')) {
            if let Some(d) = ch.to_digit(10) {
                cur = Some(cur.unwrap_or(0).saturating_mul(10).saturating_add(d as u64));
            } else if let Some(v) = cur.take() {
                if v <= 0x10FFFF {
                    if let Some(c) = char::from_u32(v as u32) {
                        self.emit_closure(c, &mut out);
                    }
                }
            }
        }
        out
    }
}

/// The default alphabet of DESIGN 2.2.
pub const ALPHABET: &[char] = &[
    'a', 'b', 'Z', '0', '_', ',', '.', '(', ')', '[', '"', '\'', '\\', ' ', '\t', '\n', '\r', 'é', 'ß', '漢',
    '😀', '\u{0301}', '\u{200D}',
];
