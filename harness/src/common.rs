//! Shared pieces: PRNG, wire encoding, charinfo.
use std::collections::BTreeSet;
use std::fmt::Write as _;

/// splitmix64 — every random choice in the harness derives from one of these.
#[derive(Clone)]
pub struct Rng(pub u64);
impl Rng {
    pub fn new(seed: u64) -> Self {
        Rng(seed.wrapping_mul(0x9E3779B97F4A7C15) ^ 0xD1B54A32D192ED03)
    }
    pub fn next(&mut self) -> u64 {
        self.0 = self.0.wrapping_add(0x9E3779B97F4A7C15);
        let mut z = self.0;
        z = (z ^ (z >> 30)).wrapping_mul(0xBF58476D1CE4E5B9);
        z = (z ^ (z >> 27)).wrapping_mul(0x94D049BB133111EB);
        z ^ (z >> 31)
    }
    pub fn below(&mut self, n: usize) -> usize {
        if n == 0 {
            0
        } else {
            (self.next() % n as u64) as usize
        }
    }
    pub fn chance(&mut self, num: usize, den: usize) -> bool {
        self.below(den) < num
    }
    pub fn pick<'a, T>(&mut self, xs: &'a [T]) -> &'a T {
        &xs[self.below(xs.len())]
    }
}

pub fn enc_text(s: &str) -> String {
    if s.is_empty() {
        return "-".to_string();
    }
    let mut out = String::new();
    for (i, c) in s.chars().enumerate() {
        if i > 0 {
            out.push(',');
        }
        let _ = write!(out, "{}", c as u32);
    }
    out
}

pub fn dec_text(s: &str) -> Option<String> {
    if s == "-" {
        return Some(String::new());
    }
    let mut out = String::new();
    for p in s.split(',') {
        out.push(char::from_u32(p.parse::<u32>().ok()?)?);
    }
    Some(out)
}

pub fn enc_texts<S: AsRef<str>>(ts: &[S]) -> String {
    if ts.is_empty() {
        return "~".to_string();
    }
    ts.iter().map(|t| enc_text(t.as_ref())).collect::<Vec<_>>().join(";")
}

pub fn dec_texts(s: &str) -> Option<Vec<String>> {
    if s == "~" {
        return Some(vec![]);
    }
    s.split(';').map(dec_text).collect()
}

pub fn dec_bool(s: &str) -> Option<bool> {
    match s {
        "1" => Some(true),
        "0" => Some(false),
        _ => None,
    }
}

pub fn enc_bool(b: bool) -> &'static str {
    if b {
        "1"
    } else {
        "0"
    }
}

/// Grapheme_Cluster_Break class (and Indic_Conjunct_Break as a `/C`, `/L`, `/E` suffix) of ANY
/// character, read off `unicode-segmentation` itself by probing: the crate does not expose its
/// tables, but each class is characterised by how the character clusters next to a few fixed
/// witnesses (UAX #29 rules GB3-GB13).  The model's segmenter is built on this column; that it then
/// agrees with the crate on whole strings is itself a correspondence target (`seg`).
pub fn gcb_class(c: char) -> String {
    use unicode_segmentation::UnicodeSegmentation;
    fn ng(parts: &[&str]) -> usize {
        parts.concat().graphemes(true).count()
    }
    let cs = c.to_string();
    let c = cs.as_str();
    const KA: &str = "\u{0915}"; // InCB=Consonant
    const VIRAMA: &str = "\u{094D}"; // InCB=Linker (gcb Extend)
    const ZWJ: &str = "\u{200D}";
    const PICT: &str = "\u{1F600}";
    const HL: &str = "\u{1100}";
    const HV: &str = "\u{1161}";
    const HT: &str = "\u{11A8}";
    const HLV: &str = "\u{AC00}";
    let gb9c = ng(&[KA, VIRAMA, KA]) == 1; // does this version of the crate implement GB9c?
    let incb_ext = |base: &str| -> String {
        // Extend / ZWJ characters: linker, conjunct extender, or neither
        if gb9c && ng(&[KA, c, KA]) == 1 {
            format!("{base}/L")
        } else if gb9c && ng(&[KA, c, VIRAMA, KA]) == 1 && ng(&[KA, VIRAMA, c, KA]) == 1 {
            format!("{base}/E")
        } else {
            base.to_string()
        }
    };
    if c == "\r" {
        return "CR".into();
    }
    if c == "\n" {
        return "LF".into();
    }
    if c == ZWJ {
        return incb_ext("ZWJ");
    }
    // GB4/GB5: a control character is alone even next to an extender
    if ng(&["a", c, "\u{0300}"]) == 3 {
        return "Control".into();
    }
    // GB9/GB9a: no break before Extend / SpacingMark; GB11 lets only Extend sit inside an emoji sequence
    if ng(&["a", c]) == 1 {
        return if ng(&[PICT, c, ZWJ, PICT]) == 1 { incb_ext("Extend") } else { "SpacingMark".into() };
    }
    // GB9b
    if ng(&[c, "a"]) == 1 {
        return "Prepend".into();
    }
    // GB12/13: pairs
    if ng(&[c, c]) == 1 && ng(&[c, c, c]) == 2 {
        return "RI".into();
    }
    // GB6-GB8: Hangul syllable parts
    if ng(&[c, HLV]) == 1 {
        return "L".into();
    }
    if ng(&[HL, c]) == 1 && ng(&[c, HV]) == 1 {
        return if ng(&[HV, c]) == 1 { "V".into() } else { "LV".into() };
    }
    if ng(&[HL, c]) == 1 && ng(&[c, HT]) == 1 {
        return "LVT".into();
    }
    if ng(&[HV, c]) == 1 {
        return "T".into();
    }
    // GB11
    let base = if ng(&[c, ZWJ, c]) == 1 { "ExtPict" } else { "Other" };
    // GB9c
    if gb9c && ng(&[c, VIRAMA, KA]) == 1 {
        return format!("{base}/C");
    }
    base.into()
}

pub fn charinfo_line(c: char) -> String {
    use unicode_width::UnicodeWidthChar;
    let up: String = c.to_uppercase().collect();
    let lo: String = c.to_lowercase().collect();
    // `width`: UnicodeWidthChar (layout::cwidh); `swidth`: UnicodeWidthStr of the one-char string
    // (layout::uwidth — differs for control characters)
    format!(
        "charinfo {} {} {} {} {} {} {} {} {}",
        c as u32,
        enc_bool(c.is_alphanumeric()),
        enc_bool(c.is_whitespace()),
        enc_bool(c.is_control()),
        gcb_class(c),
        c.width().unwrap_or(0),
        enc_text(&up),
        enc_text(&lo),
        unicode_width::UnicodeWidthStr::width(c.to_string().as_str())
    )
}

/// Emits `charinfo` lines for every code point that occurs as a decimal number in a request
/// (over-approximation: a few non-text numbers get a line too, which is harmless).
#[derive(Default)]
pub struct CharInfoEmitter {
    seen: BTreeSet<u32>,
}
impl CharInfoEmitter {
    /// the character and everything its case mappings can produce
    fn emit_closure(&mut self, c: char, out: &mut Vec<String>) {
        let mut todo = vec![c];
        while let Some(c) = todo.pop() {
            if self.seen.insert(c as u32) {
                out.push(charinfo_line(c));
                todo.extend(c.to_uppercase());
                todo.extend(c.to_lowercase());
            }
        }
    }
    pub fn lines_for(&mut self, req: &str) -> Vec<String> {
        let mut out = vec![];
        // key tokens are hex byte strings: the characters they encode need a line too — also the
        // ones whose bytes are split over consecutive tokens (the decoder joins them)
        let mut joined: Vec<u8> = vec![];
        for tok in req.split(' ') {
            if tok.len() >= 2 && tok.len() % 2 == 0 && tok.bytes().all(|b| b.is_ascii_hexdigit()) {
                joined.extend((0..tok.len()).step_by(2).filter_map(|i| u8::from_str_radix(&tok[i..i + 2], 16).ok()));
            } else {
                joined.push(b' ');
            }
        }
        for start in 0..4usize.min(joined.len()) {
            // every alignment: an invalid byte may swallow the lead byte of the next character
            for c in String::from_utf8_lossy(&joined[start..]).chars() {
                self.emit_closure(c, &mut out);
            }
        }
        for tok in req.split(' ') {
            if tok.len() >= 2 && tok.len() % 2 == 0 && tok.bytes().all(|b| b.is_ascii_hexdigit()) {
                let bytes: Vec<u8> =
                    (0..tok.len()).step_by(2).filter_map(|i| u8::from_str_radix(&tok[i..i + 2], 16).ok()).collect();
                for c in String::from_utf8_lossy(&bytes).chars() {
                    self.emit_closure(c, &mut out);
                }
            }
        }
        let mut cur: Option<u64> = None;
        for ch in req.chars().chain(std::iter::once(' ')) {
            if let Some(d) = ch.to_digit(10) {
                cur = Some(cur.unwrap_or(0).saturating_mul(10).saturating_add(d as u64));
            } else if let Some(v) = cur.take() {
                if v <= 0x10FFFF {
                    if let Some(c) = char::from_u32(v as u32) {
                        self.emit_closure(c, &mut out);
                    }
                }
            }
        }
        out
    }
}

/// The default alphabet of DESIGN 2.2.
pub const ALPHABET: &[char] = &[
    'a', 'b', 'Z', '0', '_', ',', '.', '(', ')', '[', '"', '\'', '\\', ' ', '\t', '\n', '\r', 'é', 'ß', '漢',
    '😀', '\u{0301}', '\u{200D}',
];
