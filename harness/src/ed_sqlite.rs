//! Generator of target `ed07s` (feature `sqlite`): property C07 over the SQLite history back end.
//!
//! Request: `ed07s <mode e|v> <cols> <flags> [<n>!]<adds> <left> <right> <helper> <binds> key…`
//! — exactly the request of `ed07`, except for the history field: `<adds>` is the list of texts
//! handed to `SQLiteHistory::add` in order (in-memory database, the crate's default history
//! configuration: `INSERT OR REPLACE` under the unique index, `ignore_space` off), and the optional
//! prefix `<n>!` asks for `set_max_len(n)` after the adds.  Executed by `ed::exec_sqlite`; the
//! observation is that of `ed07` (`H=` = the stored entries in row order after the read).
//!
//! What the add sequences cover: re-adding an OLDER entry (its row is deleted: a hole inside the
//! row ids), re-adding the newest entry (consecutive duplicate: the newest row is replaced, the
//! index of the newest entry moves up by one), empty lines (refused), blank-led entries (stored),
//! multi-line entries, and trimming to the newest 0..3 rows (holes at the front; `0!` empties the
//! table while `len()` stays positive).  The key scripts are three quarters history navigation
//! (C-p C-n Up Down M-< M-> / vi k j + - with counts) mixed with text, edits, quoted line breaks
//! and cursor motions.  Incremental search (C-r / C-s) is NOT generated: the SQLite back end
//! searches through FTS (property C20), which the editor model does not reproduce.
use crate::common::*;
use crate::ed::{tok_char, TEXT};
use crate::GenCtx;

fn text(rng: &mut Rng, max: usize) -> String {
    let k = 1 + rng.below(max);
    (0..k).map(|_| if rng.chance(1, 8) { '\n' } else { *rng.pick(TEXT) }).collect()
}

fn nav_key(rng: &mut Rng, vi: bool, insert_mode: &mut bool, out: &mut Vec<String>) {
    if !vi {
        match rng.below(100) {
            0..=21 => out.push("10".to_string()),  // C-p
            22..=35 => out.push("0e".to_string()), // C-n
            36..=47 => out.push(rng.pick(&["1b5b41", "1b4f41"]).to_string()), // Up
            48..=57 => out.push(rng.pick(&["1b5b42", "1b4f42"]).to_string()), // Down
            58..=63 => out.push("1b3c".to_string()), // M-<
            64..=69 => out.push("1b3e".to_string()), // M->
            70..=83 => out.push(tok_char(*rng.pick(TEXT))),
            84..=91 => out.push(rng.pick(&["01", "05", "02", "06", "7f", "04", "0b", "15", "17", "1f"]).to_string()),
            92..=95 => {
                out.push("16".to_string());
                out.push("0a".to_string());
            }
            _ => out.push(rng.pick(&["1b62", "1b66", "1b5b48", "1b5b46"]).to_string()),
        }
    } else if *insert_mode {
        match rng.below(100) {
            0..=29 => out.push(tok_char(*rng.pick(TEXT))),
            30..=44 => out.push(rng.pick(&["1b5b41", "1b5b42"]).to_string()),
            45..=54 => {
                out.push("16".to_string());
                out.push("0a".to_string());
            }
            _ => {
                // ESC glued to a command key (Alt-key = fast command mode)
                let c = *rng.pick(b"kjkj-+hl0$");
                out.push(format!("1b{:02x}", c));
                *insert_mode = false;
            }
        }
    } else {
        match rng.below(100) {
            0..=27 => out.push("6b".to_string()),
            28..=47 => out.push("6a".to_string()),
            48..=55 => out.push(rng.pick(&["2d", "2b", "10", "0e", "1b5b41", "1b5b42"]).to_string()),
            56..=63 => {
                out.push(format!("{:02x}", b'1' + rng.below(3) as u8));
                out.push(rng.pick(&["6b", "6a"]).to_string());
            }
            64..=75 => out.push(format!("{:02x}", *rng.pick(b"hl0$wbxX"))),
            76..=87 => {
                out.push(format!("{:02x}", *rng.pick(b"iaAI")));
                *insert_mode = true;
            }
            _ => out.push(rng.pick(&["64 64", "75", "70"]).to_string()),
        }
    }
}

pub fn gen(ctx: &GenCtx, sink: &mut dyn FnMut(String)) {
    let mut rng = Rng::new(ctx.seed ^ 0x5_0107);
    let n = if ctx.thorough { 40_000 } else { 2_000 };
    for _ in 0..n {
        let vi = rng.chance(2, 5);
        let mut flags = String::new();
        if rng.chance(1, 8) {
            flags.push('t');
        }
        if rng.chance(1, 10) {
            flags.push('p');
        }
        let cols = *rng.pick(&[80u16, 80, 20, 10]);
        // the add sequence
        let pool: Vec<String> = vec![text(&mut rng, 3), text(&mut rng, 3), format!(" {}", text(&mut rng, 2)), "a\nb".to_string()];
        let na = 1 + rng.below(7);
        let mut adds: Vec<String> = vec![];
        for _ in 0..na {
            let t = match rng.below(100) {
                0..=44 => rng.pick(&pool).clone(),
                45..=59 => adds.last().cloned().unwrap_or_else(|| pool[0].clone()),
                60..=64 => String::new(),
                _ => text(&mut rng, 4),
            };
            adds.push(t);
        }
        let hist = if rng.chance(1, 4) {
            format!("{}!{}", rng.below(4), enc_texts(&adds))
        } else {
            enc_texts(&adds)
        };
        let (left, right) = if rng.chance(1, 4) {
            (text(&mut rng, 3), if rng.chance(1, 2) { text(&mut rng, 3) } else { String::new() })
        } else {
            (String::new(), String::new())
        };
        let mut req = format!(
            "ed07s {} {} {} {} {} {} - -",
            if vi { "v" } else { "e" },
            cols,
            if flags.is_empty() { "-" } else { &flags },
            hist,
            enc_text(&left),
            enc_text(&right),
        );
        let k = 1 + rng.below(if ctx.thorough { 30 } else { 14 });
        let mut toks: Vec<String> = vec![];
        let mut insert_mode = true;
        for _ in 0..k {
            nav_key(&mut rng, vi, &mut insert_mode, &mut toks);
        }
        if rng.chance(3, 4) {
            toks.push("0d".to_string());
        }
        for t in toks {
            req.push(' ');
            req.push_str(&t);
        }
        sink(req);
    }
}
