//! Targets `lb` / `lb4`: the public `rustyline::line_buffer::LineBuffer` API with a recording
//! `ChangeListener` + `DeleteListener`.
//!
//! request: `lb <cap> <text> <pos> <i|s> op…` — state built with `with_capacity(cap)`,
//! `insert_str(0, text)`, `set_pos(pos)`; mode `i` applies every op to a fresh copy of that state,
//! mode `s` applies them in sequence (stopping at the first panic).
//! observation per op: `buf/pos/ret/notifications` or `panic`.
use crate::common::*;
use crate::GenCtx;
use rustyline::line_buffer::{ChangeListener, DeleteListener, Direction, LineBuffer, WordAction};
use rustyline::{At, CharSearch, Movement, Word};
use std::panic::{catch_unwind, AssertUnwindSafe};

#[derive(Default)]
struct Rec {
    ns: Vec<String>,
}
impl DeleteListener for Rec {
    fn start_killing(&mut self) {
        self.ns.push("sk".into());
    }
    fn delete(&mut self, idx: usize, string: &str, dir: Direction) {
        let d = match dir {
            Direction::Forward => "F",
            Direction::Backward => "B",
        };
        self.ns.push(format!("d.{}.{}.{}", idx, enc_text(string), d));
    }
    fn delete_around(&mut self, idx: usize, before: &str, after: &str) {
        let whole = format!("{}{}", before, after);
        self.ns.push(format!("d.{}.{}.A{}", idx, enc_text(&whole), before.len()));
    }
    fn stop_killing(&mut self) {
        self.ns.push("ek".into());
    }
}
impl ChangeListener for Rec {
    fn insert_char(&mut self, idx: usize, c: char) {
        self.ns.push(format!("ic.{}.{}", idx, c as u32));
    }
    fn insert_str(&mut self, idx: usize, string: &str) {
        self.ns.push(format!("is.{}.{}", idx, enc_text(string)));
    }
    fn replace(&mut self, idx: usize, old: &str, new: &str) {
        self.ns.push(format!("r.{}.{}.{}", idx, enc_text(old), enc_text(new)));
    }
}

/// A listener that implements only the REQUIRED methods (like the undo `Changeset`): whatever the
/// provided methods of the traits turn a call into must still replay the old text to the new one.
#[derive(Default)]
struct Plain {
    dels: Vec<(usize, String)>,
    other: bool,
}
impl DeleteListener for Plain {
    fn delete(&mut self, idx: usize, string: &str, _: Direction) {
        self.dels.push((idx, string.to_owned()));
    }
}
impl ChangeListener for Plain {
    fn insert_char(&mut self, _: usize, _: char) {
        self.other = true;
    }
    fn insert_str(&mut self, _: usize, _: &str) {
        self.other = true;
    }
    fn replace(&mut self, _: usize, _: &str, _: &str) {
        self.other = true;
    }
}

/// Does replaying the deletions `Plain` saw turn `old` into `new`?
fn plain_replays(old: &str, new: &str, p: &Plain) -> bool {
    if p.other {
        return true;
    }
    let mut t = old.to_owned();
    for (idx, s) in &p.dels {
        if *idx > t.len() || !t.is_char_boundary(*idx) || !t[*idx..].starts_with(s.as_str()) {
            return false;
        }
        t.replace_range(*idx..*idx + s.len(), "");
    }
    t == new
}

enum Op {
    Update(String, usize),
    Insert(char, u16),
    Yank(String, u16),
    YankPop(usize, String),
    MoveBackward(u16),
    MoveForward(u16),
    BufferStart,
    BufferEnd,
    Home,
    FirstPrint,
    End,
    IsEndOfInput,
    Delete(u16),
    Backspace(u16),
    KillLine,
    KillBuffer,
    DiscardLine,
    DiscardBuffer,
    TransposeChars,
    PrevWord(Word, u16),
    DeletePrevWord(Word, u16),
    NextWord(At, Word, u16),
    DeleteWord(At, Word, u16),
    LineUp(u16, u16),
    LineDown(u16, u16),
    MoveTo(CharSearch, u16),
    DeleteTo(CharSearch, u16),
    EditWord(WordAction),
    TransposeWords(u16),
    Replace(usize, usize, String),
    InsertStr(usize, String),
    DeleteRange(usize, usize),
    Copy(Movement),
    Kill(Movement),
    Indent(Movement, u8, bool),
    SetPos(usize),
    NextPos(u16),
}

fn p_char(s: &str) -> Option<char> {
    char::from_u32(s.parse::<u32>().ok()?)
}
fn p_word(s: &str) -> Option<Word> {
    match s {
        "B" => Some(Word::Big),
        "E" => Some(Word::Emacs),
        "V" => Some(Word::Vi),
        _ => None,
    }
}
fn p_at(s: &str) -> Option<At> {
    match s {
        "S" => Some(At::Start),
        "B" => Some(At::BeforeEnd),
        "A" => Some(At::AfterEnd),
        _ => None,
    }
}
fn p_cs(k: &str, c: &str) -> Option<CharSearch> {
    let c = p_char(c)?;
    match k {
        "f" => Some(CharSearch::Forward(c)),
        "t" => Some(CharSearch::ForwardBefore(c)),
        "F" => Some(CharSearch::Backward(c)),
        "T" => Some(CharSearch::BackwardAfter(c)),
        _ => None,
    }
}
fn p_n(s: &str) -> Option<u16> {
    if s.starts_with('+') {
        return None;
    }
    s.parse().ok()
}
fn p_us(s: &str) -> Option<usize> {
    if s.starts_with('+') {
        return None;
    }
    s.parse().ok()
}
fn p_mvt(p: &[&str]) -> Option<Movement> {
    Some(match p {
        ["WL"] => Movement::WholeLine,
        ["BOL"] => Movement::BeginningOfLine,
        ["EOL"] => Movement::EndOfLine,
        ["BW", n, w] => Movement::BackwardWord(p_n(n)?, p_word(w)?),
        ["FW", n, a, w] => Movement::ForwardWord(p_n(n)?, p_at(a)?, p_word(w)?),
        ["CS", n, k, c] => Movement::ViCharSearch(p_n(n)?, p_cs(k, c)?),
        ["VFP"] => Movement::ViFirstPrint,
        ["BC", n] => Movement::BackwardChar(p_n(n)?),
        ["FC", n] => Movement::ForwardChar(p_n(n)?),
        ["LU", n] => Movement::LineUp(p_n(n)?),
        ["LD", n] => Movement::LineDown(p_n(n)?),
        ["WB"] => Movement::WholeBuffer,
        ["BOB"] => Movement::BeginningOfBuffer,
        ["EOB"] => Movement::EndOfBuffer,
        _ => return None,
    })
}

fn parse_op(tok: &str) -> Option<Op> {
    let p: Vec<&str> = tok.split(':').collect();
    Some(match p.as_slice() {
        ["up", t, q] => Op::Update(dec_text(t)?, p_us(q)?),
        ["ins", c, n] => Op::Insert(p_char(c)?, p_n(n)?),
        ["yk", t, n] => Op::Yank(dec_text(t)?, p_n(n)?),
        ["yp", k, t] => Op::YankPop(p_us(k)?, dec_text(t)?),
        ["mb", n] => Op::MoveBackward(p_n(n)?),
        ["mf", n] => Op::MoveForward(p_n(n)?),
        ["bs"] => Op::BufferStart,
        ["be"] => Op::BufferEnd,
        ["mh"] => Op::Home,
        ["mfp"] => Op::FirstPrint,
        ["me"] => Op::End,
        ["eoi"] => Op::IsEndOfInput,
        ["del", n] => Op::Delete(p_n(n)?),
        ["bsp", n] => Op::Backspace(p_n(n)?),
        ["kl"] => Op::KillLine,
        ["kb"] => Op::KillBuffer,
        ["dl"] => Op::DiscardLine,
        ["db"] => Op::DiscardBuffer,
        ["tc"] => Op::TransposeChars,
        ["pw", w, n] => Op::PrevWord(p_word(w)?, p_n(n)?),
        ["dpw", w, n] => Op::DeletePrevWord(p_word(w)?, p_n(n)?),
        ["nw", a, w, n] => Op::NextWord(p_at(a)?, p_word(w)?, p_n(n)?),
        ["dw", a, w, n] => Op::DeleteWord(p_at(a)?, p_word(w)?, p_n(n)?),
        ["lu", n, pc] => Op::LineUp(p_n(n)?, p_n(pc)?),
        ["ld", n, pc] => Op::LineDown(p_n(n)?, p_n(pc)?),
        ["mt", k, c, n] => Op::MoveTo(p_cs(k, c)?, p_n(n)?),
        ["dt", k, c, n] => Op::DeleteTo(p_cs(k, c)?, p_n(n)?),
        ["ew", "C"] => Op::EditWord(WordAction::Capitalize),
        ["ew", "L"] => Op::EditWord(WordAction::Lowercase),
        ["ew", "U"] => Op::EditWord(WordAction::Uppercase),
        ["tw", n] => Op::TransposeWords(p_n(n)?),
        ["rp", a, b, t] => Op::Replace(p_us(a)?, p_us(b)?, dec_text(t)?),
        ["istr", i, t] => Op::InsertStr(p_us(i)?, dec_text(t)?),
        ["dr", a, b] => Op::DeleteRange(p_us(a)?, p_us(b)?),
        ["cp", m @ ..] => Op::Copy(p_mvt(m)?),
        ["k", m @ ..] => Op::Kill(p_mvt(m)?),
        ["ind", k, d, m @ ..] => {
            if k.starts_with('+') {
                return None;
            }
            Op::Indent(p_mvt(m)?, k.parse::<u8>().ok()?, dec_bool(d)?)
        }
        ["sp", q] => Op::SetPos(p_us(q)?),
        ["np", n] => Op::NextPos(p_n(n)?),
        _ => return None,
    })
}

fn b(x: bool) -> String {
    if x { "T".into() } else { "F".into() }
}
fn ob(x: Option<bool>) -> String {
    match x {
        None => "n".into(),
        Some(v) => format!("s{}", b(v)),
    }
}

#[cfg(kkawakam_rustyline_verif)]
fn layout(pc: u16) -> rustyline::Layout {
    let mut l = rustyline::Layout::new(rustyline::GraphemeClusterMode::WcWidth);
    l.prompt_size = rustyline::Position { col: pc, row: 0 };
    l
}

fn apply(lb: &mut LineBuffer, op: &Op, r: &mut Rec) -> String {
    match op {
        Op::Update(t, p) => {
            lb.update(t, *p, r);
            "u".into()
        }
        Op::Insert(c, n) => ob(lb.insert(*c, *n, r)),
        Op::Yank(t, n) => ob(lb.yank(t, *n, r)),
        Op::YankPop(k, t) => ob(lb.yank_pop(*k, t, r)),
        Op::MoveBackward(n) => b(lb.move_backward(*n)),
        Op::MoveForward(n) => b(lb.move_forward(*n)),
        Op::BufferStart => b(lb.move_buffer_start()),
        Op::BufferEnd => b(lb.move_buffer_end()),
        Op::Home => b(lb.move_home()),
        Op::FirstPrint => b(lb.move_to_first_print()),
        Op::End => b(lb.move_end()),
        Op::IsEndOfInput => b(lb.is_end_of_input()),
        Op::Delete(n) => match lb.delete(*n, r) {
            None => "n".into(),
            Some(s) => format!("s{}", enc_text(&s)),
        },
        Op::Backspace(n) => b(lb.backspace(*n, r)),
        Op::KillLine => b(lb.kill_line(r)),
        Op::KillBuffer => b(lb.kill_buffer(r)),
        Op::DiscardLine => b(lb.discard_line(r)),
        Op::DiscardBuffer => b(lb.discard_buffer(r)),
        Op::TransposeChars => b(lb.transpose_chars(r)),
        Op::PrevWord(w, n) => b(lb.move_to_prev_word(*w, *n)),
        Op::DeletePrevWord(w, n) => b(lb.delete_prev_word(*w, *n, r)),
        Op::NextWord(a, w, n) => b(lb.move_to_next_word(*a, *w, *n)),
        Op::DeleteWord(a, w, n) => b(lb.delete_word(*a, *w, *n, r)),
        #[cfg(kkawakam_rustyline_verif)]
        Op::LineUp(n, pc) => b(lb.move_to_line_up(*n, &layout(*pc))),
        #[cfg(kkawakam_rustyline_verif)]
        Op::LineDown(n, pc) => b(lb.move_to_line_down(*n, &layout(*pc))),
        #[cfg(not(kkawakam_rustyline_verif))]
        Op::LineUp(..) | Op::LineDown(..) => "no-hook".into(),
        Op::MoveTo(cs, n) => b(lb.move_to(*cs, *n)),
        Op::DeleteTo(cs, n) => b(lb.delete_to(*cs, *n, r)),
        Op::EditWord(a) => b(lb.edit_word(*a, r)),
        Op::TransposeWords(n) => b(lb.transpose_words(*n, r)),
        Op::Replace(a, e, t) => {
            lb.replace(*a..*e, t, r);
            "u".into()
        }
        Op::InsertStr(i, t) => b(lb.insert_str(*i, t, r)),
        Op::DeleteRange(a, e) => {
            lb.delete_range(*a..*e, r);
            "u".into()
        }
        Op::Copy(m) => match lb.copy(m) {
            None => "n".into(),
            Some(s) => format!("s{}", enc_text(&s)),
        },
        Op::Kill(m) => b(lb.kill(m, r)),
        Op::Indent(m, k, d) => b(lb.indent(m, *k, *d, r)),
        Op::SetPos(p) => {
            lb.set_pos(*p);
            "u".into()
        }
        Op::NextPos(n) => match lb.next_pos(*n) {
            None => "n".into(),
            Some(p) => format!("s{}", p),
        },
    }
}

pub fn exec(f: &[&str]) -> Option<String> {
    if f.len() < 4 {
        return None;
    }
    let cap = p_us(f[0])?;
    if cap > 1 << 20 {
        return None;
    }
    let text = dec_text(f[1])?;
    let pos = p_us(f[2])?;
    let indep = match f[3] {
        "i" => true,
        "s" => false,
        _ => return None,
    };
    let ops: Vec<Op> = f[4..].iter().map(|t| parse_op(t)).collect::<Option<Vec<_>>>()?;
    let mk = || {
        let mut lb = LineBuffer::with_capacity(cap);
        lb.insert_str(0, &text, &mut Rec::default());
        lb.set_pos(pos);
        lb
    };
    // a panic while building the state (`set_pos` past the end) is the whole observation
    let mut lb = match catch_unwind(AssertUnwindSafe(&mk)) {
        Ok(lb) => lb,
        Err(_) => return Some("init-panic".into()),
    };
    let mut obs: Vec<String> = Vec::with_capacity(ops.len());
    for op in &ops {
        if indep {
            lb = mk();
        }
        let mut rec = Rec::default();
        // the same kill once more on a copy of the state, seen through the provided trait methods only
        let plain_ok = if let Op::Kill(m) = op {
            let (old, old_pos) = (lb.as_str().to_owned(), lb.pos());
            catch_unwind(AssertUnwindSafe(|| {
                let mut lb2 = LineBuffer::with_capacity(cap);
                lb2.insert_str(0, &old, &mut Rec::default());
                lb2.set_pos(old_pos);
                let mut p = Plain::default();
                lb2.kill(m, &mut p);
                plain_replays(&old, lb2.as_str(), &p)
            }))
            .unwrap_or(true)
        } else {
            true
        };
        let r = catch_unwind(AssertUnwindSafe(|| apply(&mut lb, op, &mut rec)));
        match r {
            Ok(ret) => {
                let mut ns = if rec.ns.is_empty() { "~".to_string() } else { rec.ns.join(";") };
                if !plain_ok {
                    // never produced by the model: shows up as a disagreement with this marker
                    ns.push_str(";!provided-listener-methods-do-not-replay");
                }
                obs.push(format!("{}/{}/{}/{}", enc_text(lb.as_str()), lb.pos(), ret, ns));
            }
            Err(_) => {
                obs.push("panic".into());
                if !indep {
                    break;
                }
            }
        }
    }
    Some(obs.join(" "))
}

// ------------------------------------------------------------------------------ generators

/// 10-character sub-alphabet of the exhaustive part: letter, upper-case letter, `_`, punctuation,
/// blank, line break, 2-byte, 3-byte wide, 4-byte wide, combining mark.
pub const SUB: &[char] = &['a', 'Z', '_', ',', ' ', '\n', 'é', '漢', '😀', '\u{0301}'];
/// alphabet of the random part (adds multi-byte white space, CR, tab, ZWJ, and letters whose case
/// mapping changes the byte length: `ß`→`SS` (2→2), `ﬁ`→`FI` (3→2), `ŉ`→`ʼN` (2→3), `İ`→`i̇` (2→3))
const RANDA: &[char] = &[
    'a', 'b', 'Z', '0', '_', ',', '.', '(', ' ', ' ', '\t', '\n', '\n', '\r', 'é', 'ß', '漢', '😀', '\u{0301}',
    '\u{200D}', '\u{3000}', '\u{00A0}', '\u{FB01}', '\u{0149}', '\u{0130}',
];

const WORDS: &[&str] = &["B", "E", "V"];
const ATS: &[&str] = &["S", "B", "A"];
const KINDS: &[&str] = &["f", "t", "F", "T"];

fn boundaries(s: &str) -> Vec<usize> {
    let mut v: Vec<usize> = s.char_indices().map(|(i, _)| i).collect();
    v.push(s.len());
    v
}

fn search_chars(s: &str) -> Vec<char> {
    let mut cs: Vec<char> = vec![];
    for c in s.chars() {
        if !cs.contains(&c) {
            cs.push(c);
        }
    }
    cs.truncate(3);
    cs.push('x');
    cs
}

/// every `Movement` with the given counts (char searches over `chars`)
fn movements(counts: &[u32], cs_counts: &[u32], chars: &[char]) -> Vec<String> {
    let mut m: Vec<String> =
        ["WL", "BOL", "EOL", "VFP", "WB", "BOB", "EOB"].iter().map(|s| s.to_string()).collect();
    for n in counts {
        for w in WORDS {
            m.push(format!("BW:{}:{}", n, w));
            for a in ATS {
                m.push(format!("FW:{}:{}:{}", n, a, w));
            }
        }
        m.push(format!("BC:{}", n));
        m.push(format!("FC:{}", n));
        m.push(format!("LU:{}", n));
        m.push(format!("LD:{}", n));
    }
    for n in cs_counts {
        for k in KINDS {
            for c in chars {
                m.push(format!("CS:{}:{}:{}", n, k, *c as u32));
            }
        }
    }
    m
}

/// ops whose result depends on the capacity
fn cap_ops(text: &str) -> Vec<String> {
    let mut o = vec![];
    let l = text.len();
    for (t, p) in [("", 0), ("a", 1), ("é漢", 0), ("é漢", 5), ("a", 2), ("é", 1), ("漢a", 3), ("a😀", 1)] {
        o.push(format!("up:{}:{}", enc_text(t), p));
    }
    o.push(format!("up:{}:{}", enc_text(&format!("{}é", text)), l));
    o.push(format!("up:{}:{}", enc_text(&format!("{}漢b", text)), l + 3));
    for c in ['a', 'é', '\n', '😀'] {
        for n in [0, 1, 2, 3, 65535] {
            o.push(format!("ins:{}:{}", c as u32, n));
        }
    }
    for t in ["", "b", "é,", "漢"] {
        for n in [0, 1, 2, 65535] {
            o.push(format!("yk:{}:{}", enc_text(t), n));
        }
    }
    for k in 0..4 {
        for t in ["", "b", "é,"] {
            o.push(format!("yp:{}:{}", k, enc_text(t)));
        }
    }
    o.push("tc".into());
    for a in ["C", "L", "U"] {
        o.push(format!("ew:{}", a));
    }
    o
}

/// the full op battery for one state
fn all_ops(text: &str, counts: &[u32]) -> Vec<String> {
    let mut o = cap_ops(text);
    let cs_counts = [0u32, 1, 2, 65535];
    for n in counts {
        for op in ["mb", "mf", "del", "bsp", "np", "tw"] {
            o.push(format!("{}:{}", op, n));
        }
        for w in WORDS {
            o.push(format!("pw:{}:{}", w, n));
            o.push(format!("dpw:{}:{}", w, n));
            for a in ATS {
                o.push(format!("nw:{}:{}:{}", a, w, n));
                o.push(format!("dw:{}:{}:{}", a, w, n));
            }
        }
        for pc in [0, 2] {
            o.push(format!("lu:{}:{}", n, pc));
            o.push(format!("ld:{}:{}", n, pc));
        }
    }
    for op in ["bs", "be", "mh", "mfp", "me", "eoi", "kl", "kb", "dl", "db"] {
        o.push(op.to_string());
    }
    let chars = search_chars(text);
    for n in cs_counts {
        for k in KINDS {
            for c in &chars {
                o.push(format!("mt:{}:{}:{}", k, *c as u32, n));
                o.push(format!("dt:{}:{}:{}", k, *c as u32, n));
            }
        }
    }
    let bs = boundaries(text);
    for (i, a) in bs.iter().enumerate() {
        for e in &bs[i..] {
            for t in ["", "é"] {
                o.push(format!("rp:{}:{}:{}", a, e, enc_text(t)));
            }
            o.push(format!("dr:{}:{}", a, e));
        }
        for t in ["", "漢"] {
            o.push(format!("istr:{}:{}", a, enc_text(t)));
        }
    }
    // contract violations (off-boundary, reversed, past the end): not judged by the oracle, but
    // model and code must still agree
    let l = text.len();
    o.push(format!("rp:{}:{}:-", l + 1, l + 1));
    o.push(format!("dr:{}:{}", l, l + 1));
    o.push(format!("istr:{}:97", l + 1));
    if l >= 1 {
        o.push(format!("rp:{}:{}:97", 1, 0));
        o.push(format!("dr:{}:{}", 1, 0));
    }
    for p in 0..=l + 1 {
        o.push(format!("sp:{}", p));
        if !text.is_char_boundary(p.min(l)) {
            o.push(format!("istr:{}:97", p));
            o.push(format!("dr:0:{}", p));
            o.push(format!("rp:{}:{}:97", p, l));
        }
    }
    for m in movements(counts, &cs_counts, &chars) {
        o.push(format!("cp:{}", m));
        o.push(format!("k:{}", m));
    }
    for m in ["WL", "EOB", "WB", "BOB", "BW:1:E", "FW:1:A:E", "FW:2:S:V", "LU:1", "LD:1", "LU:2", "LD:2", "FC:1"] {
        for k in [0, 1, 2, 33] {
            for d in [0, 1] {
                o.push(format!("ind:{}:{}:{}", k, d, m));
            }
        }
    }
    o
}

/// C04-relevant ops only (motions, kills, copies, indent, edit_word, transpose_*), counts 1..4, 65535
fn c04_ops(text: &str) -> Vec<String> {
    let counts = [1u32, 2, 3, 4, 65535];
    let mut o = vec![];
    for n in counts {
        for op in ["mb", "mf", "del", "bsp", "np", "tw"] {
            o.push(format!("{}:{}", op, n));
        }
        for w in WORDS {
            o.push(format!("pw:{}:{}", w, n));
            o.push(format!("dpw:{}:{}", w, n));
            for a in ATS {
                o.push(format!("nw:{}:{}:{}", a, w, n));
                o.push(format!("dw:{}:{}:{}", a, w, n));
            }
        }
        for pc in [0, 2] {
            o.push(format!("lu:{}:{}", n, pc));
            o.push(format!("ld:{}:{}", n, pc));
        }
    }
    for op in ["bs", "be", "mh", "mfp", "me", "kl", "kb", "dl", "db", "tc", "ew:C", "ew:L", "ew:U"] {
        o.push(op.to_string());
    }
    let chars = search_chars(text);
    for n in counts {
        for k in KINDS {
            for c in &chars {
                o.push(format!("mt:{}:{}:{}", k, *c as u32, n));
                o.push(format!("dt:{}:{}:{}", k, *c as u32, n));
            }
        }
    }
    for m in movements(&counts, &counts, &chars) {
        o.push(format!("cp:{}", m));
        o.push(format!("k:{}", m));
    }
    for m in ["WL", "EOB", "WB", "BOB", "BW:1:E", "FW:1:A:E", "FW:2:S:V", "LU:1", "LD:1", "LU:2", "LD:2", "FC:1"] {
        for k in [1, 2] {
            for d in [0, 1] {
                o.push(format!("ind:{}:{}:{}", k, d, m));
            }
        }
    }
    o
}

fn strings_upto(alpha: &[char], maxlen: usize, f: &mut dyn FnMut(&str)) {
    for len in 0..=maxlen {
        let mut idx = vec![0usize; len];
        'outer: loop {
            let s: String = idx.iter().map(|&i| alpha[i]).collect();
            f(&s);
            let mut k = len;
            loop {
                if k == 0 {
                    break 'outer;
                }
                k -= 1;
                idx[k] += 1;
                if idx[k] < alpha.len() {
                    break;
                }
                idx[k] = 0;
            }
        }
    }
}

fn rand_text(rng: &mut Rng, maxlen: usize, alpha: &[char]) -> String {
    let n = rng.below(maxlen + 1);
    (0..n).map(|_| *rng.pick(alpha)).collect()
}

fn rand_count(rng: &mut Rng) -> u32 {
    *rng.pick(&[0u32, 1, 1, 1, 2, 2, 3, 4, 5, 65535])
}

fn rand_mvt(rng: &mut Rng, alpha: &[char]) -> String {
    let n = rand_count(rng);
    match rng.below(14) {
        0 => "WL".into(),
        1 => "BOL".into(),
        2 => "EOL".into(),
        3 => format!("BW:{}:{}", n, rng.pick(WORDS)),
        4 => format!("FW:{}:{}:{}", n, rng.pick(ATS), rng.pick(WORDS)),
        5 => format!("CS:{}:{}:{}", n, rng.pick(KINDS), *rng.pick(alpha) as u32),
        6 => "VFP".into(),
        7 => format!("BC:{}", n),
        8 => format!("FC:{}", n),
        9 => format!("LU:{}", n),
        10 => format!("LD:{}", n),
        11 => "WB".into(),
        12 => "BOB".into(),
        _ => "EOB".into(),
    }
}

/// one random op; `bs` are boundaries of the *initial* text (later ones may be stale: then the
/// call is outside the contract, which both sides must still agree on)
fn rand_op(rng: &mut Rng, bs: &[usize], alpha: &[char], c04: bool) -> String {
    let n = rand_count(rng);
    let len = *bs.last().unwrap();
    let idx = |rng: &mut Rng| -> usize {
        if rng.chance(1, 12) {
            rng.below(len + 3)
        } else {
            *rng.pick(bs)
        }
    };
    let k = if c04 { 10 + rng.below(26) } else { rng.below(40) };
    match k {
        0 => {
            let t = rand_text(rng, 6, alpha);
            let p = *rng.pick(&boundaries(&t));
            format!("up:{}:{}", enc_text(&t), p)
        }
        1 | 2 => format!("ins:{}:{}", *rng.pick(alpha) as u32, *rng.pick(&[0u32, 1, 1, 1, 2, 3, 65535])),
        3 => format!("yk:{}:{}", enc_text(&rand_text(rng, 4, alpha)), *rng.pick(&[0u32, 1, 1, 2, 3, 65535])),
        4 => format!("yp:{}:{}", rng.below(5), enc_text(&rand_text(rng, 3, alpha))),
        5 => {
            let a = idx(rng);
            let e = idx(rng);
            let (a, e) = if rng.chance(9, 10) { (a.min(e), a.max(e)) } else { (a, e) };
            format!("rp:{}:{}:{}", a, e, enc_text(&rand_text(rng, 4, alpha)))
        }
        6 => format!("istr:{}:{}", idx(rng), enc_text(&rand_text(rng, 4, alpha))),
        7 => {
            let a = idx(rng);
            let e = idx(rng);
            let (a, e) = if rng.chance(9, 10) { (a.min(e), a.max(e)) } else { (a, e) };
            format!("dr:{}:{}", a, e)
        }
        8 => format!("sp:{}", idx(rng)),
        9 => format!("np:{}", n),
        10 => format!("mb:{}", n),
        11 => format!("mf:{}", n),
        12 => rng.pick(&["bs", "be", "mh", "mfp", "me", "eoi"]).to_string(),
        13 => format!("del:{}", n),
        14 => format!("bsp:{}", n),
        15 => rng.pick(&["kl", "kb", "dl", "db"]).to_string(),
        16 => "tc".into(),
        17 | 18 => format!("pw:{}:{}", rng.pick(WORDS), n),
        19 => format!("dpw:{}:{}", rng.pick(WORDS), n),
        20 | 21 => format!("nw:{}:{}:{}", rng.pick(ATS), rng.pick(WORDS), n),
        22 => format!("dw:{}:{}:{}", rng.pick(ATS), rng.pick(WORDS), n),
        23 => format!("lu:{}:{}", n, rng.below(4)),
        24 => format!("ld:{}:{}", n, rng.below(4)),
        25 => format!("mt:{}:{}:{}", rng.pick(KINDS), *rng.pick(alpha) as u32, n),
        26 => format!("dt:{}:{}:{}", rng.pick(KINDS), *rng.pick(alpha) as u32, n),
        27 => format!("ew:{}", rng.pick(&["C", "L", "U"])),
        28 => format!("tw:{}", n),
        29..=31 => format!("cp:{}", rand_mvt(rng, alpha)),
        32..=34 => format!("k:{}", rand_mvt(rng, alpha)),
        35 => format!(
            "ind:{}:{}:{}",
            *rng.pick(&[0u32, 1, 2, 4, 33, 255]),
            rng.below(2),
            rand_mvt(rng, alpha)
        ),
        _ => format!("ins:{}:1", *rng.pick(alpha) as u32),
    }
}

/// random multi-line buffer
fn rand_lines(rng: &mut Rng, maxlines: usize, maxlen: usize, alpha: &[char]) -> String {
    let nl = 1 + rng.below(maxlines);
    let mut s = String::new();
    for i in 0..nl {
        if i > 0 {
            s.push('\n');
        }
        let n = rng.below(maxlen + 1);
        for _ in 0..n {
            let c = *rng.pick(alpha);
            s.push(if c == '\n' && rng.chance(3, 4) { ' ' } else { c });
        }
    }
    s
}

pub fn gen(ctx: &GenCtx, name: &str, sink: &mut dyn FnMut(String)) {
    let c04 = name == "lb4";
    // ---- exhaustive: every buffer up to the length bound x every char-boundary cursor x the op battery
    let counts: Vec<u32> = if ctx.thorough { vec![0, 1, 2, 3, 4, 65535] } else { vec![0, 1, 2, 3, 65535] };
    let maxlen = if ctx.thorough { 4 } else { 3 };
    let mut emit_state = |text: &str, sink: &mut dyn FnMut(String)| {
        let l = text.len();
        for p in boundaries(text) {
            if c04 {
                sink(format!("{} 4096 {} {} i {}", name, enc_text(text), p, c04_ops(text).join(" ")));
            } else {
                sink(format!("{} 4096 {} {} i {}", name, enc_text(text), p, all_ops(text, &counts).join(" ")));
                let mut caps = vec![l, l + 1, l + 3];
                if l > 0 {
                    caps.push(l - 1);
                }
                for cap in caps {
                    sink(format!("{} {} {} {} i {}", name, cap, enc_text(text), p, cap_ops(text).join(" ")));
                }
            }
        }
    };
    // all strings of <= 3 characters over the 10-character alphabet; thorough: also length 4 over 7 of them
    strings_upto(SUB, 3, &mut |s| emit_state(s, sink));
    if maxlen >= 4 {
        let sub7: Vec<char> = vec!['a', '_', ',', ' ', '\n', 'é', '\u{0301}'];
        strings_upto(&sub7, 4, &mut |s| {
            if s.chars().count() == 4 {
                emit_state(s, sink)
            }
        });
    }
    // ---- structured multi-line buffers (third and fifth line reached)
    let frags = ["", "a", "ab c", " é", "a,b", "\tx"];
    let mut rng = Rng::new(ctx.seed ^ if c04 { 0xC04 } else { 0xC03 });
    let nml = if ctx.thorough { 4000 } else { 150 };
    for i in 0..nml {
        let nl = if i % 2 == 0 { 3 } else { 5 };
        let text: Vec<&str> = (0..nl).map(|_| *rng.pick(&frags)).collect();
        let text = text.join("\n");
        let bs = boundaries(&text);
        for _ in 0..3 {
            let p = *rng.pick(&bs);
            let ops = if c04 { c04_ops(&text) } else { all_ops(&text, &counts) };
            sink(format!("{} 4096 {} {} i {}", name, enc_text(&text), p, ops.join(" ")));
        }
    }
    // ---- random: long multi-line buffers, op sequences <= 30 on one buffer (notifications compose)
    let nrand = if ctx.thorough { 400_000 } else { 12_000 };
    for _ in 0..nrand {
        let long = rng.chance(1, 4);
        let text = if long {
            rand_lines(&mut rng, 5, if ctx.thorough { 40 } else { 12 }, RANDA)
        } else {
            rand_lines(&mut rng, 3, 4, RANDA)
        };
        let bs = boundaries(&text);
        let pos = if rng.chance(1, 40) { rng.below(text.len() + 2) } else { *rng.pick(&bs) };
        let cap = match rng.below(6) {
            0 => text.len(),
            1 => text.len() + 1 + rng.below(6),
            2 => text.len().saturating_sub(1 + rng.below(3)),
            _ => 4096,
        };
        let n = 1 + rng.below(30);
        let mut req = format!("{} {} {} {} s", name, cap, enc_text(&text), pos);
        for _ in 0..n {
            req.push(' ');
            req.push_str(&rand_op(&mut rng, &bs, RANDA, c04));
        }
        sink(req);
    }
    // ---- malformed requests: both sides must answer bad-request
    if ctx.shard == 0 {
        // (emitted through the sink so that sharding stays deterministic)
    }
}
