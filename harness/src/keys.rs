//! Target `keys`: the terminal byte decoder, observed as the first key the editor dispatches
//! (vi insert mode, so that the first `Event::Any` callback is for the first key).
//! request: `keys <t|-> chunk…` (hex chunks; `t` = delivered as type-ahead in one write)
use crate::common::*;
use crate::ed;
use crate::GenCtx;

pub fn exec(f: &[&str]) -> Option<String> {
    if f.len() < 2 {
        return None;
    }
    let flags = match f[0] {
        "t" => "t",
        "-" => "-",
        _ => return None,
    };
    let mut g: Vec<&str> = vec!["v", "80", flags, "~", "-", "-", "-", "-"];
    g.extend_from_slice(&f[1..]);
    let req = ed::parse(&g)?;
    let r = ed::run(&req, "", 24)?;
    if let Some(cb) = r.callbacks.first() {
        let p: Vec<&str> = cb.split('/').collect();
        return Some(p[4].to_string());
    }
    let o = r.outcome.as_str();
    Some(
        if o.contains("panic") {
            "panic"
        } else if o.contains("wedged") {
            "wedged"
        } else if o.contains("invalid") {
            "invalid"
        } else if o.contains("io") {
            "io"
        } else if o.contains("eof") {
            "eof"
        } else {
            "other"
        }
        .to_string(),
    )
}

const ESC_ALPHA: &[u8] = b"[O\x1b0123456789;~ABCDEFHMPQRSZabcdlpqrstuvwxy$\x1e@x ";

pub fn gen(ctx: &GenCtx, sink: &mut dyn FnMut(String)) {
    // every single byte alone, and followed by plausible continuation bytes
    for b in 0u16..256 {
        sink(format!("keys - {:02x}", b));
        sink(format!("keys t {:02x}80", b));
        sink(format!("keys - {:02x}a9bf", b));
        sink(format!("keys - {:02x} 9f 80 80", b));
    }
    // escape sequences: exhaustive to a length bound over the bytes the decoder distinguishes
    let maxlen = if ctx.thorough { 3 } else { 2 };
    for len in 1..=maxlen {
        let mut idx = vec![0usize; len];
        'outer: loop {
            let body: Vec<u8> = idx.iter().map(|&i| ESC_ALPHA[i]).collect();
            let mut s = String::from("keys t 1b");
            s.push_str(&ed::hex(&body));
            // a terminator so that incomplete sequences resolve instead of hanging up
            s.push_str("7e52");
            sink(s);
            if len <= 2 {
                // the same bytes one key press at a time
                let mut s = String::from("keys - 1b");
                for b in &body {
                    s.push_str(&format!(" {:02x}", b));
                }
                sink(s);
            }
            let mut k = len;
            loop {
                if k == 0 {
                    break 'outer;
                }
                k -= 1;
                idx[k] += 1;
                if idx[k] < ESC_ALPHA.len() {
                    break;
                }
                idx[k] = 0;
            }
        }
    }
    // grammar-directed random CSI sequences (the long forms) and random byte soup
    let mut rng = Rng::new(ctx.seed ^ 0x17);
    let n = if ctx.thorough { 60_000 } else { 3_000 };
    for _ in 0..n {
        let mut b: Vec<u8> = vec![0x1b];
        match rng.below(6) {
            0 => {
                // ESC [ d ; d X   /  ESC [ d d ; d ~  / ESC [ d d d ~
                b.push(b'[');
                let k = 1 + rng.below(3);
                for _ in 0..k {
                    b.push(b'0' + rng.below(10) as u8);
                }
                if rng.chance(2, 3) {
                    b.push(b';');
                    b.push(b'0' + rng.below(10) as u8);
                    if rng.chance(1, 4) {
                        b.push(b'0' + rng.below(10) as u8);
                    }
                }
                b.push(*rng.pick(b"~ABCDFHPQSRpqy$^@x"));
            }
            1 => {
                b.push(0x1b);
                b.push(*rng.pick(b"[Oab\x1b"));
                b.push(*rng.pick(b"ABCD15;~x"));
                b.push(*rng.pick(b"~;5A"));
            }
            2 => {
                b.push(b'O');
                b.push(*rng.pick(ESC_ALPHA));
            }
            3 => {
                b.clear();
                let k = 1 + rng.below(4);
                for _ in 0..k {
                    b.push(rng.below(256) as u8);
                }
            }
            4 => {
                // valid multi-byte characters and near misses
                b.clear();
                let c = *rng.pick(&['é', '漢', '😀', '\u{7ff}', '\u{800}', '\u{ffff}', '\u{10000}', '\u{10ffff}', '\u{9b}', '\u{85}']);
                let mut buf = [0u8; 4];
                b.extend_from_slice(c.encode_utf8(&mut buf).as_bytes());
                if rng.chance(1, 3) {
                    let i = rng.below(b.len());
                    b[i] = b[i].wrapping_add(*rng.pick(&[1u8, 0x40, 0x80, 0xff]));
                }
            }
            _ => {
                let k = 1 + rng.below(5);
                for _ in 0..k {
                    b.push(*rng.pick(ESC_ALPHA));
                }
            }
        }
        b.extend_from_slice(b"~R");
        if rng.chance(1, 2) {
            sink(format!("keys t {}", ed::hex(&b)));
        } else {
            // split into key presses at random points
            let mut s = String::from("keys -");
            let mut i = 0;
            while i < b.len() {
                let j = (i + 1 + rng.below(3)).min(b.len());
                s.push(' ');
                s.push_str(&ed::hex(&b[i..j]));
                i = j;
            }
            sink(s);
        }
    }
}
