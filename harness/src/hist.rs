//! Target `hist`: the history store (`MemHistory`, `FileHistory`) through the public API.
use crate::common::*;
use crate::GenCtx;
use rustyline::history::{FileHistory, History, MemHistory, SearchDirection, SearchResult};
use rustyline::Config;

fn dir(s: &str) -> Option<SearchDirection> {
    match s {
        "F" => Some(SearchDirection::Forward),
        "R" => Some(SearchDirection::Reverse),
        _ => None,
    }
}

fn show_found(r: rustyline::Result<Option<SearchResult>>) -> String {
    match r {
        Ok(None) => "n".to_string(),
        Ok(Some(sr)) => format!("{}/{}/{}", sr.idx, enc_text(&sr.entry), sr.pos),
        Err(_) => "err".to_string(),
    }
}

fn run<H: History>(h: &mut H, dump: &dyn Fn(&H) -> Vec<String>, ops: &[&str]) -> Option<String> {
    let mut obs: Vec<String> = vec![];
    for op in ops {
        let p: Vec<&str> = op.split(':').collect();
        let o = match p.as_slice() {
            ["add", t] => enc_bool(h.add(&dec_text(t)?).ok()?).to_string(),
            ["addo", t] => enc_bool(h.add_owned(dec_text(t)?).ok()?).to_string(),
            ["max", n] => {
                h.set_max_len(n.parse().ok()?).ok()?;
                "u".to_string()
            }
            ["dups", b] => {
                h.ignore_dups(dec_bool(b)?).ok()?;
                "u".to_string()
            }
            ["space", b] => {
                h.ignore_space(dec_bool(b)?);
                "u".to_string()
            }
            ["clear"] => {
                h.clear().ok()?;
                "u".to_string()
            }
            ["get", i] => match h.get(i.parse().ok()?, SearchDirection::Forward) {
                Ok(None) => "n".to_string(),
                Ok(Some(sr)) => format!("s{}", enc_text(&sr.entry)),
                Err(_) => "err".to_string(),
            },
            ["search", t, s, d] => show_found(h.search(&dec_text(t)?, s.parse().ok()?, dir(d)?)),
            ["sw", t, s, d] => show_found(h.starts_with(&dec_text(t)?, s.parse().ok()?, dir(d)?)),
            ["len"] => format!("{}", h.len()),
            ["dump"] => enc_texts(&dump(h)),
            _ => return None,
        };
        obs.push(o);
    }
    Some(obs.join(" "))
}

/// request: `hist <mem|file> <max> <ignoreSpace> <ignoreDups> op…`
pub fn exec(f: &[&str]) -> Option<String> {
    if f.len() < 4 {
        return None;
    }
    let cfg = Config::builder()
        .max_history_size(f[1].parse().ok()?)
        .ok()?
        .history_ignore_space(dec_bool(f[2])?)
        .history_ignore_dups(dec_bool(f[3])?)
        .ok()?
        .build();
    match f[0] {
        "mem" => {
            let mut h = MemHistory::with_config(cfg);
            run(&mut h, &|h: &MemHistory| h.into_iter().cloned().collect(), &f[4..])
        }
        "file" => {
            let mut h = FileHistory::with_config(cfg);
            run(&mut h, &|h: &FileHistory| h.iter().cloned().collect(), &f[4..])
        }
        _ => None,
    }
}

const LINES: &[&str] = &["", "a", " a", "b", "é", "ab", "\tb", "aé"];
const TERMS: &[&str] = &["", "a", "b", "é", " ", "ab", "zz", "aé"];

fn mutators() -> Vec<String> {
    let mut m = vec![];
    for l in &LINES[..6] {
        m.push(format!("add:{}", enc_text(l)));
    }
    m.push(format!("addo:{}", enc_text("a")));
    m.push(format!("addo:{}", enc_text(" a")));
    // a line that starts with a multi-byte white space character (seeded change C09-m8: the
    // ignore-space rule looked at the first BYTE only)
    m.push(format!("add:{}", enc_text("\u{3000}a")));
    for n in 0..4 {
        m.push(format!("max:{}", n));
    }
    for b in 0..2 {
        m.push(format!("dups:{}", b));
        m.push(format!("space:{}", b));
    }
    m.push("clear".to_string());
    m
}

/// every read-only probe that makes sense for a store of at most `n` entries
fn probes(n: usize, terms: &[String]) -> Vec<String> {
    let mut p = vec!["len".to_string(), "dump".to_string()];
    for i in 0..n + 2 {
        p.push(format!("get:{}", i));
    }
    for t in terms {
        for s in 0..n + 2 {
            for d in ["F", "R"] {
                p.push(format!("search:{}:{}:{}", enc_text(t), s, d));
                p.push(format!("sw:{}:{}:{}", enc_text(t), s, d));
            }
        }
    }
    p
}

pub fn gen(ctx: &GenCtx, sink: &mut dyn FnMut(String)) {
    let muts = mutators();
    let terms: Vec<String> = TERMS.iter().map(|s| s.to_string()).collect();
    // exhaustive: all mutator sequences up to a length bound, `dump` after every step, the whole
    // probe battery at the end
    let maxlen = if ctx.thorough { 4 } else { 3 };
    let inits: &[(usize, u8, u8)] =
        &[(1, 0, 0), (3, 0, 0), (3, 1, 1), (2, 1, 0), (2, 0, 1), (100, 0, 1)];
    let mut kind = 0;
    for len in 0..=maxlen {
        let mut idx = vec![0usize; len];
        'outer: loop {
            for (mx, isp, idp) in inits {
                kind += 1;
                let mut req = format!("hist {} {} {} {}", if kind % 2 == 0 { "mem" } else { "file" }, mx, isp, idp);
                for &i in &idx {
                    req.push(' ');
                    req.push_str(&muts[i]);
                    req.push_str(" dump");
                }
                for p in probes(3, &terms) {
                    req.push(' ');
                    req.push_str(&p);
                }
                sink(req);
            }
            // next index vector
            let mut k = len;
            loop {
                if k == 0 {
                    break 'outer;
                }
                k -= 1;
                idx[k] += 1;
                if idx[k] < muts.len() {
                    break;
                }
                idx[k] = 0;
            }
        }
    }
    // random: long sequences over a richer alphabet, probes interleaved
    let mut rng = Rng::new(ctx.seed ^ 0xC09);
    let nrand = if ctx.thorough { 100_000 } else { 4_000 };
    for _ in 0..nrand {
        let mx = *rng.pick(&[0usize, 1, 2, 3, 5, 8, 100]);
        let mut req = format!(
            "hist {} {} {} {}",
            if rng.chance(1, 2) { "mem" } else { "file" },
            mx,
            rng.below(2),
            rng.below(2)
        );
        let n = 1 + rng.below(if ctx.thorough { 60 } else { 30 });
        let mut added: Vec<String> = vec![];
        for _ in 0..n {
            let tok = match rng.below(20) {
                0..=8 => {
                    let l = if rng.chance(1, 4) && !added.is_empty() {
                        rng.pick(&added).clone()
                    } else {
                        let k = rng.below(5);
                        (0..k).map(|_| *rng.pick(&['a', 'b', ' ', 'é', '\t', '漢', '\n', '\u{00A0}', '\u{3000}'])).collect()
                    };
                    added.push(l.clone());
                    format!("{}:{}", if rng.chance(1, 3) { "addo" } else { "add" }, enc_text(&l))
                }
                9 => format!("max:{}", rng.below(6)),
                10 => format!("dups:{}", rng.below(2)),
                11 => format!("space:{}", rng.below(2)),
                12 => if rng.chance(1, 4) { "clear".to_string() } else { "len".to_string() },
                13 => "dump".to_string(),
                14 => format!("get:{}", rng.below(8)),
                _ => {
                    // search terms are mostly substrings of lines that were added
                    let t: String = if !added.is_empty() && rng.chance(3, 4) {
                        let l: Vec<char> = rng.pick(&added).chars().collect();
                        if l.is_empty() {
                            String::new()
                        } else {
                            let a = rng.below(l.len());
                            let b = a + 1 + rng.below(l.len() - a);
                            l[a..b].iter().collect()
                        }
                    } else {
                        rng.pick(TERMS).to_string()
                    };
                    format!(
                        "{}:{}:{}:{}",
                        if rng.chance(1, 2) { "search" } else { "sw" },
                        enc_text(&t),
                        rng.below(8),
                        if rng.chance(1, 2) { "F" } else { "R" }
                    )
                }
            };
            req.push(' ');
            req.push_str(&tok);
        }
        req.push_str(" dump");
        sink(req);
    }
}
