//! A pseudo-terminal owned by the harness: the slave becomes fd 0/1 of this process, the real
//! `Editor::readline` runs in a thread, keys are written to the master side one key at a time
//! (next key only when the reader thread is observed blocked again and the queue is empty) or
//! as type-ahead.  See DESIGN.md "The editor model shared by …".
use std::fs;
use std::os::unix::io::RawFd;
use std::time::{Duration, Instant};

pub struct Pty {
    pub master: RawFd,
    pub slave: RawFd,
}

pub fn ignore_job_control() {
    unsafe {
        // own process group: rustyline's Suspend command signals the whole group
        libc::setpgid(0, 0);
        libc::signal(libc::SIGTSTP, libc::SIG_IGN);
        libc::signal(libc::SIGTTOU, libc::SIG_IGN);
        libc::signal(libc::SIGTTIN, libc::SIG_IGN);
        libc::signal(libc::SIGHUP, libc::SIG_IGN);
    }
}

impl Pty {
    pub fn open(cols: u16, rows: u16) -> Pty {
        let mut master: libc::c_int = 0;
        let mut slave: libc::c_int = 0;
        let mut ws = libc::winsize { ws_row: rows, ws_col: cols, ws_xpixel: 0, ws_ypixel: 0 };
        let r = unsafe {
            libc::openpty(&mut master, &mut slave, std::ptr::null_mut(), std::ptr::null_mut(), &mut ws)
        };
        assert!(r == 0, "openpty failed");
        unsafe {
            let fl = libc::fcntl(master, libc::F_GETFL);
            libc::fcntl(master, libc::F_SETFL, fl | libc::O_NONBLOCK);
        }
        Pty { master, slave }
    }

    /// make the slave this process's stdin and stdout
    pub fn install(&self) {
        unsafe {
            libc::dup2(self.slave, 0);
            libc::dup2(self.slave, 1);
        }
    }

    pub fn set_raw_initial(&self) {
        unsafe {
            let mut t: libc::termios = std::mem::zeroed();
            libc::tcgetattr(self.slave, &mut t);
            libc::cfmakeraw(&mut t);
            libc::tcsetattr(self.slave, libc::TCSANOW, &t);
        }
    }

    pub fn termios(&self) -> Vec<u64> {
        unsafe {
            let mut t: libc::termios = std::mem::zeroed();
            libc::tcgetattr(self.slave, &mut t);
            let mut v = vec![t.c_iflag as u64, t.c_oflag as u64, t.c_cflag as u64, t.c_lflag as u64];
            for c in t.c_cc.iter() {
                v.push(*c as u64);
            }
            v
        }
    }

    /// Deliver key bytes with one write on the master, so that a multi-byte key (an escape
    /// sequence) reaches the slave's queue in one piece: the reader's `poll` after ESC must see the
    /// rest of the sequence.  (TIOCSTI would be synchronous but delivers byte by byte.)  The write
    /// is processed by an asynchronous flip-buffer work item: `Quiesce::wait` therefore insists on
    /// the reader having been woken since `arm` before it believes the queue is empty.
    pub fn write_keys(&self, bytes: &[u8]) {
        let mut off = 0;
        let t0 = Instant::now();
        while off < bytes.len() && t0.elapsed() < Duration::from_secs(2) {
            let n = unsafe {
                libc::write(self.master, bytes[off..].as_ptr() as *const libc::c_void, bytes.len() - off)
            };
            if n > 0 {
                off += n as usize;
            } else {
                std::thread::sleep(Duration::from_micros(100));
            }
        }
    }

    /// drain whatever the slave side has written so far
    pub fn drain(&self, out: &mut Vec<u8>) {
        let mut buf = [0u8; 4096];
        loop {
            let n = unsafe { libc::read(self.master, buf.as_mut_ptr() as *mut libc::c_void, buf.len()) };
            if n > 0 {
                out.extend_from_slice(&buf[..n as usize]);
            } else {
                break;
            }
        }
    }

    pub fn pending_input(&self) -> i32 {
        let mut n: libc::c_int = 0;
        unsafe {
            libc::ioctl(self.slave, libc::FIONREAD, &mut n);
        }
        n
    }

    pub fn resize(&self, cols: u16, rows: u16) {
        let ws = libc::winsize { ws_row: rows, ws_col: cols, ws_xpixel: 0, ws_ypixel: 0 };
        unsafe {
            libc::ioctl(self.master, libc::TIOCSWINSZ, &ws);
        }
    }

    /// hang-up: close the master; the slave copies on fd 0/1 and `self.slave` stay open until
    /// `close_slave` so that the reader sees EIO rather than EBADF
    pub fn hangup(&mut self) {
        if self.master >= 0 {
            unsafe {
                libc::close(self.master);
            }
            self.master = -1;
        }
    }

    pub fn close(&mut self) {
        self.hangup();
        if self.slave >= 0 {
            unsafe {
                libc::close(self.slave);
            }
            self.slave = -1;
        }
    }
}

fn voluntary_switches(tid: i32) -> u64 {
    if let Ok(s) = fs::read_to_string(format!("/proc/self/task/{}/status", tid)) {
        for l in s.lines() {
            if let Some(r) = l.strip_prefix("voluntary_ctxt_switches:") {
                return r.trim().parse().unwrap_or(0);
            }
        }
    }
    0
}

/// is the thread blocked waiting for terminal input (read(0), poll, select)?
fn blocked_on_input(tid: i32) -> bool {
    if let Ok(s) = fs::read_to_string(format!("/proc/self/task/{}/syscall", tid)) {
        let mut it = s.split_whitespace();
        let nr = it.next().unwrap_or("");
        let a0 = it.next().unwrap_or("");
        match nr {
            "0" => a0 == "0x0", // read(0, …)
            "7" | "271" | "23" | "270" => true, // poll, ppoll, select, pselect6
            _ => false,
        }
    } else {
        false
    }
}

pub struct Quiesce {
    pub tid: i32,
    last_switches: u64,
}

#[derive(PartialEq, Eq, Debug)]
pub enum Wait {
    Blocked,
    Finished,
    Timeout,
}

impl Quiesce {
    pub fn new(tid: i32) -> Self {
        Quiesce { tid, last_switches: 0 }
    }

    /// call just before writing keys
    pub fn arm(&mut self) {
        self.last_switches = voluntary_switches(self.tid);
    }

    /// Wait until the reader thread has consumed everything and blocks again, or `finished()`.
    /// `need_switch`: require that the thread was woken since `arm` (skip for the initial wait).
    pub fn wait(
        &mut self,
        pty: &Pty,
        out: &mut Vec<u8>,
        need_switch: bool,
        finished: &dyn Fn() -> bool,
        timeout: Duration,
    ) -> Wait {
        let t0 = Instant::now();
        loop {
            pty.drain(out);
            if finished() {
                pty.drain(out);
                return Wait::Finished;
            }
            // A thread that is merely sleeping on a kernel lock inside read()/poll() (our own
            // FIONREAD ioctl takes the tty's termios lock) also looks "blocked, queue empty, has
            // switched": so the state must persist, with an unchanged switch count, across a
            // pause during which we touch nothing.
            let sw1 = voluntary_switches(self.tid);
            if blocked_on_input(self.tid) && (!need_switch || sw1 > self.last_switches) && pty.pending_input() == 0 {
                std::thread::sleep(Duration::from_micros(80));
                let b2 = blocked_on_input(self.tid);
                let sw2 = voluntary_switches(self.tid);
                if b2 && sw2 == sw1 {
                    std::thread::sleep(Duration::from_micros(40));
                    let b3 = blocked_on_input(self.tid);
                    let sw3 = voluntary_switches(self.tid);
                    if b3 && sw3 == sw1 && pty.pending_input() == 0 && !finished() {
                        pty.drain(out);
                        return Wait::Blocked;
                    }
                }
                continue;
            }
            if t0.elapsed() > timeout {
                return Wait::Timeout;
            }
            std::thread::sleep(Duration::from_micros(if t0.elapsed() < Duration::from_millis(2) { 20 } else { 200 }));
        }
    }
}

pub fn gettid() -> i32 {
    unsafe { libc::syscall(libc::SYS_gettid) as i32 }
}
