//! Targets `sess` and `sessx`: several `FileHistory` sessions sharing ONE history file (property C11).
//!
//! `sess <cfg;cfg;…> <init> op…` — one process, k `FileHistory` objects on one temporary file, the ops
//! are the interleaved program.  `cfg` = `max:ignoreSpace:ignoreDups`; `init` = `!` (no file) or a text
//! list: the entries of the file that exists before the sessions start (written here, plain text only).
//!   `l<i>` load by session i                  -> status (`ok|invalid-data|io|other|panic`)
//!   `a<i>:<text>` add                         -> `0|1`
//!   `p<i>` append, `s<i>` save                -> `status/mt/atoms/lstatus/entries`: mt = index of the file's
//!        modification time among the distinct times seen so far (`n`: no file), atoms = the raw bytes
//!        (`m` missing), lstatus/entries = the file as a fresh `FileHistory` with a huge limit reads it (`x`: n/a)
//!   `m<k>` outside event: set the file's modification time back to the (k mod n)-th of the n distinct
//!        times seen so far (`File::set_modified`) -> `u`.  On this kernel every write that follows a `stat`
//!        gets a new timestamp, so this is how "indistinguishable modification times" are produced.
//!   `d` dump                                  -> `atoms/lstatus/entries/<entries of session 0>/<session 1>/…`
//!
//! `sessx <mode> <workers> <iters> <max> <seed>` — truly concurrent: `t`/`T` threads, `p`/`P` child
//! processes; every worker loads the file, then `iters` times adds one fresh line and appends, while the
//! main thread keeps loading the file.  Upper case: worker 0 has limit 1 (its appends take the `save`
//! shortcut).  Observation `<init>/<allLoadsOk>/<final entries or x>/<lines of worker 0>/…`.
use crate::common::*;
use crate::GenCtx;
use rustyline::error::ReadlineError;
use rustyline::history::{FileHistory, History};
use rustyline::Config;
use std::fs::{self, OpenOptions};
use std::panic::{catch_unwind, AssertUnwindSafe};
use std::path::{Path, PathBuf};
use std::sync::atomic::{AtomicBool, AtomicU64, Ordering};
use std::sync::Arc;
use std::time::SystemTime;

static COUNTER: AtomicU64 = AtomicU64::new(0);
const BIG: usize = 1_000_000;

fn tmp_path(tag: &str) -> PathBuf {
    let n = COUNTER.fetch_add(1, Ordering::Relaxed);
    std::env::temp_dir().join(format!("rlh-{}-{}-{}", std::process::id(), tag, n))
}

fn atoms_of(bytes: &[u8]) -> String {
    if bytes.is_empty() {
        return "e".to_string();
    }
    let mut out: Vec<String> = vec![];
    for chunk in bytes.utf8_chunks() {
        for c in chunk.valid().chars() {
            out.push(format!("c{}", c as u32));
        }
        for b in chunk.invalid() {
            out.push(format!("x{}", b));
        }
    }
    out.join(",")
}

fn status(r: std::thread::Result<rustyline::Result<()>>) -> &'static str {
    match r {
        Err(_) => "panic",
        Ok(Ok(())) => "ok",
        Ok(Err(ReadlineError::Io(e))) => {
            if e.kind() == std::io::ErrorKind::InvalidData {
                "invalid-data"
            } else {
                "io"
            }
        }
        Ok(Err(_)) => "other",
    }
}

fn config(max: usize, isp: bool, idp: bool) -> Option<Config> {
    Some(
        Config::builder()
            .max_history_size(max)
            .ok()?
            .history_ignore_space(isp)
            .history_ignore_dups(idp)
            .ok()?
            .build(),
    )
}

fn parse_cfg(s: &str) -> Option<Config> {
    let p: Vec<&str> = s.split(':').collect();
    if p.len() != 3 {
        return None;
    }
    config(p[0].parse().ok()?, dec_bool(p[1])?, dec_bool(p[2])?)
}

/// the file as the real loader reads it: (status, entries)
fn read_back(path: &Path) -> (String, Option<Vec<String>>) {
    let mut h = FileHistory::with_config(config(BIG, false, false).unwrap());
    let st = status(catch_unwind(AssertUnwindSafe(|| h.load(path))));
    if st == "ok" {
        (st.to_string(), Some(h.iter().cloned().collect()))
    } else {
        (st.to_string(), None)
    }
}

fn show_file(path: &Path) -> String {
    let atoms = match fs::read(path) {
        Ok(b) => atoms_of(&b),
        Err(_) => "m".to_string(),
    };
    let (st, es) = read_back(path);
    format!("{}/{}/{}", atoms, st, es.map_or("x".to_string(), |e| enc_texts(&e)))
}

fn write_init(path: &Path, init: &str) -> Option<bool> {
    if init == "!" {
        return Some(false);
    }
    let es = dec_texts(init)?;
    let mut s = String::from("#V2\n");
    for e in &es {
        if e.is_empty() || e.contains(['\n', '\r', '\\']) {
            return None;
        }
        s.push_str(e);
        s.push('\n');
    }
    fs::write(path, s).ok()?;
    Some(true)
}

fn run(cfgs: &[Config], path: &Path, present: bool, ops: &[&str]) -> Option<String> {
    let mut hs: Vec<FileHistory> = cfgs.iter().map(|c| FileHistory::with_config(*c)).collect();
    // distinct modification times in order of first appearance; index 0 is a placeholder when the
    // file does not exist at the start
    let mut seen: Vec<Option<SystemTime>> = vec![if present { Some(fs::metadata(path).ok()?.modified().ok()?) } else { None }];
    let mut obs: Vec<String> = vec![];
    let idx = |s: &str, n: usize| -> Option<usize> {
        let i: usize = s.parse().ok()?;
        if i < n {
            Some(i)
        } else {
            None
        }
    };
    for op in ops {
        let (head, arg) = match op.split_once(':') {
            Some((h, a)) => (h, Some(a)),
            None => (*op, None),
        };
        if head.is_empty() || !head.is_char_boundary(1) {
            return None;
        }
        let (kind, num) = head.split_at(1);
        let o: String = match (kind, arg) {
            ("d", None) if num.is_empty() => {
                let mut parts = vec![show_file(path)];
                for h in &hs {
                    parts.push(enc_texts(&h.iter().cloned().collect::<Vec<String>>()));
                }
                parts.join("/")
            }
            ("l", None) => {
                let i = idx(num, hs.len())?;
                status(catch_unwind(AssertUnwindSafe(|| hs[i].load(path)))).to_string()
            }
            ("a", Some(t)) => {
                let i = idx(num, hs.len())?;
                enc_bool(hs[i].add(&dec_text(t)?).ok()?).to_string()
            }
            ("p", None) | ("s", None) => {
                let i = idx(num, hs.len())?;
                let st = if kind == "p" {
                    status(catch_unwind(AssertUnwindSafe(|| hs[i].append(path))))
                } else {
                    status(catch_unwind(AssertUnwindSafe(|| hs[i].save(path))))
                };
                let mt = match fs::metadata(path).and_then(|m| m.modified()) {
                    Ok(m) => {
                        let k = match seen.iter().position(|s| *s == Some(m)) {
                            Some(k) => k,
                            None => {
                                seen.push(Some(m));
                                seen.len() - 1
                            }
                        };
                        k.to_string()
                    }
                    Err(_) => "n".to_string(),
                };
                format!("{}/{}/{}", st, mt, show_file(path))
            }
            ("m", None) => {
                let k: usize = num.parse().ok()?;
                if let Some(t) = seen[k % seen.len()] {
                    if let Ok(f) = OpenOptions::new().write(true).open(path) {
                        f.set_modified(t).ok()?;
                    }
                }
                "u".to_string()
            }
            _ => return None,
        };
        obs.push(o);
    }
    Some(obs.join(" "))
}

pub fn exec(f: &[&str]) -> Option<String> {
    if f.len() < 2 {
        return None;
    }
    let cfgs: Vec<Config> = f[0].split(';').map(parse_cfg).collect::<Option<Vec<_>>>()?;
    let path = tmp_path("sess");
    let _ = fs::remove_file(&path);
    let r = write_init(&path, f[1]).and_then(|present| run(&cfgs, &path, present, &f[2..]));
    let _ = fs::remove_file(&path);
    r
}

// ------------------------------------------------------------------------------ concurrent runs

fn worker_line(w: usize, j: usize) -> String {
    // lengths vary a lot, so that a write from offset 0 over a longer file leaves a visible tail
    format!("w{}x{}{}", w, j, "-".repeat((w * 7 + j * 13) % 23))
}

/// one worker: load, then `iters` times (add a fresh line, append); returns the lines it entered
fn worker(path: &Path, w: usize, iters: usize, max: usize, seed: u64) -> Vec<String> {
    let mut rng = Rng::new(seed ^ (w as u64).wrapping_mul(0x9E37));
    let mut h = FileHistory::with_config(config(max, false, false).unwrap());
    let _ = h.load(path);
    let mut mine = vec![];
    for j in 0..iters {
        let l = worker_line(w, j);
        if let Ok(true) = h.add(&l) {
            mine.push(l);
        }
        let _ = catch_unwind(AssertUnwindSafe(|| h.append(path)));
        for _ in 0..rng.below(200) {
            std::hint::spin_loop();
        }
        if rng.chance(1, 16) {
            std::thread::yield_now();
        }
    }
    mine
}

/// hidden sub-command: `rlharness sess-child <path> <w> <iters> <max> <seed>`
pub fn child(args: &[String]) {
    let p = |i: usize| -> u64 { args.get(i).and_then(|s| s.parse().ok()).unwrap_or(0) };
    let mine = worker(Path::new(&args[0]), p(1) as usize, p(2) as usize, p(3) as usize, p(4));
    println!("{}", enc_texts(&mine));
}

pub fn exec_x(f: &[&str]) -> Option<String> {
    if f.len() != 5 {
        return None;
    }
    let mode = f[0];
    let n: usize = f[1].parse().ok()?;
    let iters: usize = f[2].parse().ok()?;
    let max: usize = f[3].parse().ok()?;
    let seed: u64 = f[4].parse().ok()?;
    if !matches!(mode, "t" | "p" | "T" | "P") || n == 0 || n > 16 || iters > 10_000 || max == 0 {
        return None;
    }
    let path = tmp_path("sessx");
    let init = vec!["i0".to_string(), "i1".to_string()];
    fs::write(&path, "#V2\ni0\ni1\n").ok()?;
    let limit = |w: usize| if w == 0 && (mode == "T" || mode == "P") { 1 } else { max };
    let done = Arc::new(AtomicBool::new(false));
    let mut loads_ok = true;
    let mut check_load = |path: &Path| {
        // a load under the shared lock must succeed and can never see a file without entries
        let (st, es) = read_back(path);
        if st != "ok" || es.map_or(true, |e| e.is_empty()) {
            loads_ok = false;
        }
    };
    let workers: Vec<Vec<String>> = if mode == "t" || mode == "T" {
        let hs: Vec<_> = (0..n)
            .map(|w| {
                let (p, d, m) = (path.clone(), done.clone(), limit(w));
                std::thread::spawn(move || {
                    let r = worker(&p, w, iters, m, seed);
                    let _ = d; // keep the flag alive
                    r
                })
            })
            .collect();
        while !hs.iter().all(|h| h.is_finished()) {
            check_load(&path);
        }
        hs.into_iter().map(|h| h.join().unwrap_or_default()).collect()
    } else {
        let exe = std::env::current_exe().ok()?;
        let mut cs: Vec<_> = (0..n)
            .map(|w| {
                std::process::Command::new(&exe)
                    .arg("sess-child")
                    .arg(&path)
                    .arg(w.to_string())
                    .arg(iters.to_string())
                    .arg(limit(w).to_string())
                    .arg(seed.to_string())
                    .stdin(std::process::Stdio::null())
                    .stdout(std::process::Stdio::piped())
                    .spawn()
            })
            .collect::<Result<Vec<_>, _>>()
            .ok()?;
        loop {
            let mut all = true;
            for c in cs.iter_mut() {
                if let Ok(None) = c.try_wait() {
                    all = false;
                }
            }
            if all {
                break;
            }
            check_load(&path);
        }
        cs.into_iter()
            .map(|c| {
                let out = c.wait_with_output().ok()?;
                dec_texts(String::from_utf8_lossy(&out.stdout).trim())
            })
            .collect::<Option<Vec<_>>>()?
    };
    done.store(true, Ordering::SeqCst);
    check_load(&path);
    let (_, fin) = read_back(&path);
    let _ = fs::remove_file(&path);
    let mut parts = vec![enc_texts(&init), enc_bool(loads_ok).to_string(), fin.map_or("x".to_string(), |e| enc_texts(&e))];
    for w in &workers {
        parts.push(enc_texts(w));
    }
    Some(parts.join("/"))
}

// ------------------------------------------------------------------------------------ generators

/// session programs `load;(add|append|save)*` with at most `steps` steps after the load.
/// `all = false`: only the programs in which every append/save has something new to write.
fn programs(steps: usize, all: bool) -> Vec<Vec<char>> {
    let mut out = vec![];
    fn go(cur: &mut Vec<char>, unsaved: bool, left: usize, all: bool, out: &mut Vec<Vec<char>>) {
        out.push(cur.clone());
        if left == 0 {
            return;
        }
        for c in ['a', 'p', 's'] {
            if c != 'a' && !unsaved && !all {
                continue;
            }
            cur.push(c);
            go(cur, c == 'a', left - 1, all, out);
            cur.pop();
        }
    }
    go(&mut vec!['l'], false, steps, all, &mut out);
    out
}

/// all interleavings of the programs (as sequences of session indices)
fn interleavings(lens: &[usize]) -> Vec<Vec<usize>> {
    fn go(left: &mut Vec<usize>, cur: &mut Vec<usize>, out: &mut Vec<Vec<usize>>) {
        if left.iter().all(|&l| l == 0) {
            out.push(cur.clone());
            return;
        }
        for i in 0..left.len() {
            if left[i] > 0 {
                left[i] -= 1;
                cur.push(i);
                go(left, cur, out);
                cur.pop();
                left[i] += 1;
            }
        }
    }
    let mut out = vec![];
    go(&mut lens.to_vec(), &mut vec![], &mut out);
    out
}

struct Variant {
    limits: Vec<usize>,
    idp: bool,
    /// every add enters the same text (consecutive duplicates) instead of distinct ones
    same: bool,
    /// number of entries in the initial file
    init: usize,
    /// after every write the modification time is set back to the initial one
    frozen: bool,
}

fn render(progs: &[&Vec<char>], order: &[usize], v: &Variant) -> String {
    let cfgs: Vec<String> = v.limits.iter().map(|m| format!("{}:0:{}", m, v.idp as u8)).collect();
    let init: Vec<String> = (0..v.init).map(|i| format!("i{}", i)).collect();
    let mut req = format!("sess {} {}", cfgs.join(";"), enc_texts(&init));
    let mut pos = vec![0usize; progs.len()];
    let mut nadd = 0;
    for &i in order {
        let c = progs[i][pos[i]];
        pos[i] += 1;
        match c {
            'a' => {
                let t = if v.same { "x".to_string() } else { format!("{}{}", (b'a' + i as u8) as char, nadd) };
                nadd += 1;
                req.push_str(&format!(" a{}:{}", i, enc_text(&t)));
            }
            'l' => req.push_str(&format!(" l{}", i)),
            c => {
                req.push_str(&format!(" {}{}", c, i));
                if v.frozen {
                    req.push_str(" m0");
                }
            }
        }
    }
    req.push_str(" d");
    req
}

const LINES: &[&str] = &["x", "y", "x", " z", "", "a\nb", "q\\", "é", "x", "w\r"];

pub fn gen(ctx: &GenCtx, sink: &mut dyn FnMut(String)) {
    let mut rng = Rng::new(ctx.seed ^ 0xC11);

    // ---- exhaustive: every interleaving of two session programs of <= 4 steps
    let p4 = programs(3, ctx.thorough);
    let mut variants2: Vec<Variant> = vec![];
    for (m0, m1) in [(1, 1), (2, 2), (3, 3), (1, 3), (3, 2), (2, 1)] {
        for idp in [false, true] {
            for same in [false, true] {
                for init in [0usize, 1, 2] {
                    for frozen in [false, true] {
                        variants2.push(Variant { limits: vec![m0, m1], idp, same, init, frozen });
                    }
                }
            }
        }
    }
    let mut n = 0usize;
    for a in &p4 {
        for b in &p4 {
            for order in interleavings(&[a.len(), b.len()]) {
                // the variants rotate over the interleavings: quick 6 of the 144 per interleaving (of the 10
                // meaningful programs), thorough 36 of the 144 (of all 40 programs)
                for (vi, v) in variants2.iter().enumerate() {
                    if (vi + n) % (if ctx.thorough { 4 } else { 24 }) == 0 {
                        sink(render(&[a, b], &order, v));
                    }
                }
                n += 1;
            }
        }
    }

    // ---- exhaustive: every interleaving of three session programs of <= 3 steps (quick), <= 4 (thorough, sampled)
    let p3 = programs(2, false);
    let mut variants3: Vec<Variant> = vec![];
    for limits in [[1, 1, 1], [2, 2, 2], [3, 3, 3], [1, 2, 3], [3, 1, 2]] {
        for idp in [false, true] {
            for same in [false, true] {
                for init in [0usize, 2] {
                    for frozen in [false, true] {
                        variants3.push(Variant { limits: limits.to_vec(), idp, same, init, frozen });
                    }
                }
            }
        }
    }
    let mut n = 0usize;
    for a in &p3 {
        for b in &p3 {
            for c in &p3 {
                for order in interleavings(&[a.len(), b.len(), c.len()]) {
                    for (vi, v) in variants3.iter().enumerate() {
                        if (vi + n) % (if ctx.thorough { 4 } else { 40 }) == 0 {
                            sink(render(&[a, b, c], &order, v));
                        }
                    }
                    n += 1;
                }
            }
        }
    }
    if ctx.thorough {
        let p4m = programs(3, false);
        for _ in 0..200_000 {
            let (a, b, c) = (rng.pick(&p4m), rng.pick(&p4m), rng.pick(&p4m));
            let mut left = vec![a.len(), b.len(), c.len()];
            let mut order = vec![];
            while left.iter().any(|&l| l > 0) {
                let i = rng.below(3);
                if left[i] > 0 {
                    left[i] -= 1;
                    order.push(i);
                }
            }
            sink(render(&[a, b, c], &order, rng.pick(&variants3)));
        }
    }

    // ---- random longer programs: 2..4 sessions, loads in the middle, awkward lines, touches, missing file
    let nrand = if ctx.thorough { 150_000 } else { 6_000 };
    for _ in 0..nrand {
        let k = 2 + rng.below(3);
        let isp = rng.below(2);
        let cfgs: Vec<String> =
            (0..k).map(|_| format!("{}:{}:{}", *rng.pick(&[1usize, 2, 3, 3, 5, 8]), isp, rng.below(2))).collect();
        let init = if rng.chance(1, 12) {
            "!".to_string()
        } else {
            let n = rng.below(4);
            enc_texts(&(0..n).map(|i| if rng.chance(1, 4) { "x".to_string() } else { format!("i{}", i) }).collect::<Vec<_>>())
        };
        let mut req = format!("sess {} {}", cfgs.join(";"), init);
        let load_first = rng.chance(5, 6);
        if load_first {
            for i in 0..k {
                if rng.chance(9, 10) {
                    req.push_str(&format!(" l{}", i));
                }
            }
        }
        let nops = 4 + rng.below(if ctx.thorough { 36 } else { 20 });
        let mut fresh = 0;
        for _ in 0..nops {
            let i = rng.below(k);
            match rng.below(20) {
                0..=9 => {
                    let t = if rng.chance(1, 3) {
                        rng.pick(LINES).to_string()
                    } else {
                        fresh += 1;
                        format!("{}{}", (b'a' + i as u8) as char, fresh)
                    };
                    req.push_str(&format!(" a{}:{}", i, enc_text(&t)));
                }
                10..=15 => req.push_str(&format!(" p{}", i)),
                16 => req.push_str(&format!(" s{}", i)),
                17 => req.push_str(&format!(" m{}", rng.below(6))),
                18 => req.push_str(if rng.chance(1, 3) { " d" } else { " m0" }),
                _ => {
                    if rng.chance(1, 4) {
                        req.push_str(&format!(" l{}", i))
                    } else {
                        req.push_str(&format!(" p{}", i))
                    }
                }
            }
        }
        req.push_str(" d");
        sink(req);
    }
}

/// truly concurrent runs (thorough tier; a handful in the quick tier)
pub fn gen_x(ctx: &GenCtx, sink: &mut dyn FnMut(String)) {
    let mut rng = Rng::new(ctx.seed ^ 0xC11C);
    let n = if ctx.thorough { 400 } else { 16 };
    for j in 0..n {
        let mode = ["t", "p", "T", "P"][j % 4];
        let workers = 2 + rng.below(3);
        let iters = if ctx.thorough { 20 + rng.below(80) } else { 10 + rng.below(20) };
        // a limit that is never reached, or a small one
        let max = if j % 8 < 5 { 1000 } else { *rng.pick(&[1usize, 2, 3, 7]) };
        sink(format!("sessx {} {} {} {} {}", mode, workers, iters, max, rng.next() % 100_000));
    }
}
