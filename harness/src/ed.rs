//! Target `ed`: the real `Editor::readline` on a pseudo-terminal, observed through a
//! `ConditionalEventHandler` bound to `Event::Any` (called before every dispatched key).
//!
//! request: `ed <mode e|v> <cols> <flags> <history> <left> <right> <helper> <binds> key…`
//!   flags  : `-` or letters: t type-ahead, p external printer attached, l list completion,
//!            B bracketed paste off, s enable_signals, r start from a raw-mode terminal
//!   helper : `-` or `|`-joined parts: `C=<texts>` word completer, `V=<cp>@<v>;…` scripted validator
//!            (first listed char contained in the text decides; v ∈ i n m v e), `Vb` bracket validator,
//!            `H=<cp>@<text>;…` scripted hinter (cursor at end, last char = cp), `M` bracket highlighter
//!   binds  : `-` or `;`-joined `<key>[+<key>]@<cmd>` (see `parse_cmd`)
//!   key    : hex bytes written to the terminal in one go
//! observation: one token `line/pos/mode/hint/key/n/positive` per `Event::Any` callback, then `=>`,
//!   the outcome, `H=<history after>`, `T=<termios restored 0|1>`, `P=<paste mode at exit>`, `O=<output>` (render only)
use crate::common::*;
use crate::pty::*;
use crate::GenCtx;
use rustyline::completion::Completer;
use rustyline::error::ReadlineError;
use rustyline::highlight::{CmdKind, Highlighter, MatchingBracketHighlighter};
use rustyline::hint::Hinter;
use rustyline::history::{DefaultHistory, History};
use rustyline::validate::{MatchingBracketValidator, ValidationContext, ValidationResult, Validator};
use rustyline::{
    Cmd, CompletionType, ConditionalEventHandler, Config, Context, EditMode, Editor, Event, EventContext,
    EventHandler, InputMode, KeyCode, KeyEvent, Movement, RepeatCount,
};
use std::borrow::Cow;
use std::sync::mpsc;
use std::sync::{Arc, Mutex};
use std::time::Duration;

pub struct ScriptHelper {
    pub candidates: Option<Vec<String>>,
    pub verdicts: Vec<(char, char)>,
    pub bracket_validator: bool,
    pub hints: Vec<(char, String)>,
    pub bracket_hl: Option<MatchingBracketHighlighter>,
    pub validator_calls: Arc<Mutex<Vec<String>>>,
}

impl Completer for ScriptHelper {
    type Candidate = String;
    fn complete(&self, line: &str, pos: usize, _ctx: &Context<'_>) -> rustyline::Result<(usize, Vec<String>)> {
        match &self.candidates {
            None => Ok((0, vec![])),
            Some(cs) => {
                let start = line[..pos].rfind(' ').map_or(0, |i| i + 1);
                let word = &line[start..pos];
                Ok((start, cs.iter().filter(|c| c.starts_with(word)).cloned().collect()))
            }
        }
    }
}

impl Hinter for ScriptHelper {
    type Hint = String;
    fn hint(&self, line: &str, pos: usize, _ctx: &Context<'_>) -> Option<String> {
        if pos < line.len() {
            return None;
        }
        let last = line.chars().last()?;
        self.hints.iter().find(|(c, _)| *c == last).map(|(_, h)| h.clone())
    }
}

impl Highlighter for ScriptHelper {
    fn highlight<'l>(&self, line: &'l str, pos: usize) -> Cow<'l, str> {
        match &self.bracket_hl {
            Some(h) => h.highlight(line, pos),
            None => Cow::Borrowed(line),
        }
    }
    fn highlight_char(&self, line: &str, pos: usize, kind: CmdKind) -> bool {
        match &self.bracket_hl {
            Some(h) => h.highlight_char(line, pos, kind),
            None => false,
        }
    }
}

impl Validator for ScriptHelper {
    fn validate(&self, ctx: &mut ValidationContext) -> rustyline::Result<ValidationResult> {
        let input = ctx.input().to_owned();
        self.validator_calls.lock().unwrap().push(input.clone());
        if self.bracket_validator {
            return MatchingBracketValidator::new().validate(ctx);
        }
        for (c, v) in &self.verdicts {
            if input.contains(*c) {
                return match v {
                    'i' => Ok(ValidationResult::Incomplete),
                    'n' => Ok(ValidationResult::Invalid(None)),
                    'm' => Ok(ValidationResult::Invalid(Some(" <invalid>".to_string()))),
                    'v' => Ok(ValidationResult::Valid(Some(" <ok>".to_string()))),
                    'e' => Err(ReadlineError::Io(std::io::Error::new(std::io::ErrorKind::Other, "scripted"))),
                    'p' => panic!("scripted validator panic"),
                    _ => Ok(ValidationResult::Valid(None)),
                };
            }
        }
        Ok(ValidationResult::Valid(None))
    }
}

impl rustyline::Helper for ScriptHelper {}

fn show_key(k: &KeyEvent) -> String {
    let code = match k.0 {
        KeyCode::Char(c) => format!("c{}", c as u32),
        KeyCode::F(i) => format!("F{}", i),
        other => format!("{:?}", other),
    };
    format!("{}.{}", code, k.1.bits())
}

struct Recorder {
    obs: Arc<Mutex<Vec<String>>>,
}

impl ConditionalEventHandler for Recorder {
    fn handle(&self, evt: &Event, n: RepeatCount, positive: bool, ctx: &EventContext) -> Option<Cmd> {
        let mode = match (ctx.mode(), ctx.input_mode()) {
            (EditMode::Emacs, _) => "e",
            (EditMode::Vi, InputMode::Command) => "vc",
            (EditMode::Vi, InputMode::Insert) => "vi",
            (EditMode::Vi, InputMode::Replace) => "vr",
            _ => "?",
        };
        let key = match evt {
            Event::KeySeq(ks) => ks.iter().map(show_key).collect::<Vec<_>>().join("+"),
            _ => "?".to_string(),
        };
        self.obs.lock().unwrap().push(format!(
            "{}/{}/{}/{}/{}/{}/{}",
            enc_text(ctx.line()),
            ctx.pos(),
            mode,
            enc_bool(ctx.has_hint()),
            key,
            n,
            enc_bool(positive)
        ));
        None
    }
}

pub struct Req {
    pub vi: bool,
    pub cols: u16,
    pub flags: String,
    pub history: Vec<String>,
    pub left: String,
    pub right: String,
    pub helper: String,
    pub binds: String,
    pub keys: Vec<Vec<u8>>,
}

fn unhex(s: &str) -> Option<Vec<u8>> {
    if s.is_empty() || s.len() % 2 != 0 {
        return None;
    }
    (0..s.len()).step_by(2).map(|i| u8::from_str_radix(s.get(i..i + 2)?, 16).ok()).collect()
}

pub fn parse(f: &[&str]) -> Option<Req> {
    if f.len() < 8 {
        return None;
    }
    let vi = match f[0] {
        "e" => false,
        "v" => true,
        _ => return None,
    };
    let cols: u16 = f[1].parse().ok()?;
    if cols < 2 {
        return None;
    }
    let flags = if f[2] == "-" { String::new() } else { f[2].to_string() };
    if !flags.chars().all(|c| "tplBsr".contains(c)) {
        return None;
    }
    let keys: Option<Vec<Vec<u8>>> = f[8..].iter().map(|k| unhex(k)).collect();
    Some(Req {
        vi,
        cols,
        flags,
        history: dec_texts(f[3])?,
        left: dec_text(f[4])?,
        right: dec_text(f[5])?,
        helper: f[6].to_string(),
        binds: f[7].to_string(),
        keys: keys?,
    })
}

fn parse_helper(spec: &str, calls: Arc<Mutex<Vec<String>>>) -> Option<Option<ScriptHelper>> {
    if spec == "-" {
        return Some(None);
    }
    let mut h = ScriptHelper {
        candidates: None,
        verdicts: vec![],
        bracket_validator: false,
        hints: vec![],
        bracket_hl: None,
        validator_calls: calls,
    };
    for part in spec.split('|') {
        if let Some(r) = part.strip_prefix("C=") {
            h.candidates = Some(dec_texts(r)?);
        } else if part == "Vb" {
            h.bracket_validator = true;
        } else if let Some(r) = part.strip_prefix("V=") {
            for item in r.split(';') {
                let (c, v) = item.split_once('@')?;
                let c = char::from_u32(c.parse().ok()?)?;
                let v = v.chars().next()?;
                if !"inmvep".contains(v) {
                    return None;
                }
                h.verdicts.push((c, v));
            }
        } else if let Some(r) = part.strip_prefix("H=") {
            for item in r.split(';') {
                let (c, t) = item.split_once('@')?;
                h.hints.push((char::from_u32(c.parse().ok()?)?, dec_text(t)?));
            }
        } else if part == "M" {
            h.bracket_hl = Some(MatchingBracketHighlighter::new());
        } else {
            return None;
        }
    }
    Some(Some(h))
}

pub struct RunResult {
    pub callbacks: Vec<String>,
    pub outcome: String,
    pub history_after: Vec<String>,
    pub termios_restored: bool,
    pub paste_state: &'static str,
    pub output: Vec<u8>,
    pub snapshots: Vec<usize>, // output length after each key token (one-key-at-a-time mode)
    pub validator_calls: Vec<String>,
    pub printer_msgs: usize,
}

fn outcome_of(r: &std::thread::Result<rustyline::Result<String>>) -> String {
    match r {
        Err(_) => "panic".to_string(),
        Ok(Ok(l)) => format!("line:{}", enc_text(l)),
        Ok(Err(ReadlineError::Eof)) => "eof".to_string(),
        Ok(Err(ReadlineError::Interrupted)) => "int".to_string(),
        Ok(Err(ReadlineError::Io(e))) => {
            if e.kind() == std::io::ErrorKind::InvalidData {
                "invalid".to_string()
            } else if e.to_string().contains("scripted") {
                "helper-err".to_string()
            } else {
                "io".to_string()
            }
        }
        Ok(Err(ReadlineError::Errno(_))) => "io".to_string(),
        Ok(Err(_)) => "other".to_string(),
    }
}

/// Runs one read on a fresh pseudo-terminal.
pub fn run(req: &Req, prompt: &str, rows: u16) -> Option<RunResult> {
    let mut pty = Pty::open(req.cols, rows);
    if req.flags.contains('r') {
        pty.set_raw_initial();
    }
    pty.install();
    let before = pty.termios();
    let obs: Arc<Mutex<Vec<String>>> = Arc::new(Mutex::new(vec![]));
    let calls: Arc<Mutex<Vec<String>>> = Arc::new(Mutex::new(vec![]));
    let helper = parse_helper(&req.helper, calls.clone())?;
    let binds = parse_binds(&req.binds)?;
    let (tid_tx, tid_rx) = mpsc::channel::<i32>();
    let (res_tx, res_rx) = mpsc::channel::<(String, Vec<String>)>();
    let obs2 = obs.clone();
    let vi = req.vi;
    let flags = req.flags.clone();
    let hist = req.history.clone();
    let (left, right) = (req.left.clone(), req.right.clone());
    let prompt = prompt.to_string();
    let with_printer = req.flags.contains('p');
    let handle = std::thread::spawn(move || {
        let cfg = Config::builder()
            .edit_mode(if vi { EditMode::Vi } else { EditMode::Emacs })
            .completion_type(if flags.contains('l') { CompletionType::List } else { CompletionType::Circular })
            .bracketed_paste(!flags.contains('B'))
            .enable_signals(flags.contains('s'))
            .grapheme_cluster_mode(rustyline::GraphemeClusterMode::Unicode)
            .history_ignore_dups(false)
            .unwrap()
            .build();
        let mut history = DefaultHistory::with_config(cfg);
        for h in &hist {
            let _ = history.add(h);
        }
        let mut ed: Editor<ScriptHelper, DefaultHistory> = Editor::with_history(cfg, history).unwrap();
        ed.set_helper(helper);
        ed.bind_sequence(Event::Any, EventHandler::Conditional(Box::new(Recorder { obs: obs2 })));
        for (seq, cmd) in binds {
            ed.bind_sequence(Event::KeySeq(seq), EventHandler::Simple(cmd));
        }
        let _printer = if with_printer { ed.create_external_printer().ok() } else { None };
        tid_tx.send(gettid()).unwrap();
        let r = std::panic::catch_unwind(std::panic::AssertUnwindSafe(|| {
            if left.is_empty() && right.is_empty() {
                ed.readline(&prompt)
            } else {
                ed.readline_with_initial(&prompt, (&left, &right))
            }
        }));
        let hist_after: Vec<String> = ed.history().iter().cloned().collect();
        let _ = res_tx.send((outcome_of(&r), hist_after));
    });
    let tid = tid_rx.recv_timeout(Duration::from_secs(5)).ok()?;
    let mut q = Quiesce::new(tid);
    let mut out: Vec<u8> = vec![];
    let result: std::cell::RefCell<Option<(String, Vec<String>)>> = std::cell::RefCell::new(None);
    let finished = || {
        if result.borrow().is_some() {
            return true;
        }
        if let Ok(r) = res_rx.try_recv() {
            *result.borrow_mut() = Some(r);
            true
        } else {
            false
        }
    };
    let step_timeout = Duration::from_millis(1500);
    let mut snapshots = vec![];
    let mut wedged = false;
    // wait for raw mode + first prompt
    let mut w = q.wait(&pty, &mut out, false, &finished, step_timeout);
    if w == Wait::Blocked {
        if req.flags.contains('t') {
            q.arm();
            let all: Vec<u8> = req.keys.iter().flatten().cloned().collect();
            if !all.is_empty() {
                pty.write_keys(&all);
                w = q.wait(&pty, &mut out, true, &finished, step_timeout);
            }
            snapshots.push(out.len());
        } else {
            for k in &req.keys {
                q.arm();
                pty.write_keys(k);
                w = q.wait(&pty, &mut out, true, &finished, step_timeout);
                snapshots.push(out.len());
                if w != Wait::Blocked {
                    break;
                }
            }
        }
    }
    if w == Wait::Timeout {
        wedged = true;
    }
    // input exhausted: hang up if the read has not returned
    let mut hung_up = false;
    if !finished() {
        hung_up = true;
        pty.hangup();
        let t0 = std::time::Instant::now();
        while !finished() && t0.elapsed() < Duration::from_secs(3) {
            std::thread::sleep(Duration::from_micros(200));
        }
    } else {
        pty.drain(&mut out);
    }
    let (mut outcome, history_after) = match result.borrow_mut().take() {
        Some(r) => {
            let _ = handle.join();
            r
        }
        None => ("wedged-after-hangup".to_string(), vec![]),
    };
    if wedged {
        outcome = format!("wedged+{}", outcome);
    } else if hung_up {
        outcome = format!("hup+{}", outcome);
    }
    let after = pty.termios();
    // last bracketed-paste switch in the output
    let on = find_last(&out, b"\x1b[?2004h");
    let off = find_last(&out, b"\x1b[?2004l");
    let paste_state = match (on, off) {
        (None, None) => "-",
        (Some(_), None) => "on",
        (None, Some(_)) => "off",
        (Some(a), Some(b)) => {
            if a > b {
                "on"
            } else {
                "off"
            }
        }
    };
    let callbacks = obs.lock().unwrap().clone();
    let validator_calls = calls.lock().unwrap().clone();
    let restored = hung_up || before == after;
    pty.close();
    Some(RunResult {
        callbacks,
        outcome,
        history_after,
        termios_restored: restored,
        paste_state,
        output: out,
        snapshots,
        validator_calls,
        printer_msgs: 0,
    })
}

fn find_last(hay: &[u8], needle: &[u8]) -> Option<usize> {
    if hay.len() < needle.len() {
        return None;
    }
    (0..=hay.len() - needle.len()).rev().find(|&i| &hay[i..i + needle.len()] == needle)
}

// ------------------------------------------------------------------------------------ bindings

fn parse_key(s: &str) -> Option<KeyEvent> {
    // `<code>.<modbits>` as printed by show_key
    let (code, m) = s.split_once('.')?;
    let mods = rustyline::Modifiers::from_bits(m.parse().ok()?)?;
    let code = if let Some(cp) = code.strip_prefix('c') {
        KeyCode::Char(char::from_u32(cp.parse().ok()?)?)
    } else {
        match code {
            "Up" => KeyCode::Up,
            "Down" => KeyCode::Down,
            "Left" => KeyCode::Left,
            "Right" => KeyCode::Right,
            "Home" => KeyCode::Home,
            "End" => KeyCode::End,
            "Tab" => KeyCode::Tab,
            "Enter" => KeyCode::Enter,
            "Esc" => KeyCode::Esc,
            "Backspace" => KeyCode::Backspace,
            "Delete" => KeyCode::Delete,
            _ => return None,
        }
    };
    Some(KeyEvent(code, mods))
}

pub fn parse_cmd(s: &str) -> Option<Cmd> {
    Some(match s {
        "bol" => Cmd::Move(Movement::BeginningOfLine),
        "eol" => Cmd::Move(Movement::EndOfLine),
        "killeol" => Cmd::Kill(Movement::EndOfLine),
        "killline" => Cmd::Kill(Movement::WholeLine),
        "undo" => Cmd::Undo(1),
        "yank" => Cmd::Yank(1, rustyline::Anchor::Before),
        "noop" => Cmd::Noop,
        "accept" => Cmd::AcceptLine,
        "newline" => Cmd::Newline,
        "upcase" => Cmd::UpcaseWord,
        "prev" => Cmd::PreviousHistory,
        "fwd2" => Cmd::Move(Movement::ForwardChar(2)),
        "insx" => Cmd::SelfInsert(1, 'x'),
        "insab" => Cmd::Insert(1, "ab".to_string()),
        _ => return None,
    })
}

fn parse_binds(spec: &str) -> Option<Vec<(Vec<KeyEvent>, Cmd)>> {
    if spec == "-" {
        return Some(vec![]);
    }
    let mut v = vec![];
    for item in spec.split(';') {
        let (ks, c) = item.split_once('@')?;
        let seq: Option<Vec<KeyEvent>> = ks.split('+').map(parse_key).collect();
        v.push((seq?, parse_cmd(c)?));
    }
    Some(v)
}

// ------------------------------------------------------------------------------------ target

pub fn exec(f: &[&str]) -> Option<String> {
    let req = parse(f)?;
    let r = run(&req, "> ", 60)?;
    let mut o = r.callbacks.join(" ");
    if !o.is_empty() {
        o.push(' ');
    }
    o.push_str(&format!(
        "=> {} H={} T={} P={} V={}",
        r.outcome,
        enc_texts(&r.history_after),
        enc_bool(r.termios_restored),
        r.paste_state,
        enc_texts(&r.validator_calls)
    ));
    Some(o)
}

pub fn hex(b: &[u8]) -> String {
    b.iter().map(|x| format!("{:02x}", x)).collect()
}

pub fn gen(ctx: &GenCtx, sink: &mut dyn FnMut(String)) {
    let mut rng = Rng::new(ctx.seed ^ 0xED);
    let n = if ctx.thorough { 20000 } else { 1500 };
    for _ in 0..n {
        let vi = rng.chance(1, 3);
        let mut req = format!("ed {} 80 - ~ - - - -", if vi { "v" } else { "e" });
        let k = 1 + rng.below(10);
        for _ in 0..k {
            let c = *rng.pick(&['a', 'b', ' ', 'é', '漢']);
            let mut b = [0u8; 4];
            req.push(' ');
            req.push_str(&hex(c.encode_utf8(&mut b).as_bytes()));
        }
        req.push_str(" 0d");
        sink(req);
    }
}
