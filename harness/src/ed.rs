//! Target `ed`: the real `Editor::readline` on a pseudo-terminal, observed through a
//! `ConditionalEventHandler` bound to `Event::Any` (called before every dispatched key).
//!
//! request: `ed <mode e|v> <cols> <flags> <history> <left> <right> <helper> <binds> key…`
//!   flags  : `-` or letters: t type-ahead, p external printer attached, l list completion,
//!            w a SIGWINCH (window size unchanged) is delivered to the reading thread before the first key,
//!            B bracketed paste off, s enable_signals, r start from a raw-mode terminal
//!   helper : `-` or `|`-joined parts: `C=<texts>` word completer, `V=<cp>@<v>;…` scripted validator
//!            (first listed char contained in the text decides; v ∈ i n m v e), `Vb` bracket validator,
//!            `H=<cp>@<text>;…` scripted hinter (cursor at end, last char = cp), `M` bracket highlighter,
//!            `Ph=<k>` the hinter panics at its k-th call
//!   binds  : `-` or `;`-joined `<key>[+<key>]@<cmd>` (see `parse_cmd`)
//!   key    : hex bytes written to the terminal in one go
//! observation: one token `line/pos/mode/hint/key/n/positive` per `Event::Any` callback, then `=>`,
//!   the outcome, `H=<history after>`, `T=<termios restored 0|1>`, `P=<paste mode at exit>`, `O=<output>` (render only)
use crate::common::*;
use crate::pty::*;
use crate::GenCtx;
use rustyline::completion::Completer;
use rustyline::error::ReadlineError;
use rustyline::highlight::{CmdKind, Highlighter, MatchingBracketHighlighter};
use rustyline::hint::Hinter;
use rustyline::history::{DefaultHistory, History};
use rustyline::validate::{MatchingBracketValidator, ValidationContext, ValidationResult, Validator};
use rustyline::{
    Cmd, CompletionType, ConditionalEventHandler, Config, Context, EditMode, Editor, Event, EventContext,
    EventHandler, InputMode, KeyCode, KeyEvent, Movement, RepeatCount,
};
use std::borrow::Cow;
use std::sync::mpsc;
use std::sync::{Arc, Mutex};
use std::time::Duration;

pub struct ScriptHelper {
    pub candidates: Option<Vec<String>>,
    pub verdicts: Vec<(char, char)>,
    pub bracket_validator: bool,
    pub hints: Vec<(char, String)>,
    pub bracket_hl: Option<MatchingBracketHighlighter>,
    pub validator_calls: Arc<Mutex<Vec<String>>>,
    /// the hinter panics at its k-th call (helper part `Ph=<k>`)
    pub hint_panic_at: Option<usize>,
    pub hint_calls: std::sync::atomic::AtomicUsize,
}

impl Completer for ScriptHelper {
    type Candidate = String;
    fn complete(&self, line: &str, pos: usize, _ctx: &Context<'_>) -> rustyline::Result<(usize, Vec<String>)> {
        match &self.candidates {
            None => Ok((0, vec![])),
            Some(cs) => {
                let start = line[..pos].rfind(' ').map_or(0, |i| i + 1);
                let word = &line[start..pos];
                Ok((start, cs.iter().filter(|c| c.starts_with(word)).cloned().collect()))
            }
        }
    }
}

impl Hinter for ScriptHelper {
    type Hint = String;
    fn hint(&self, line: &str, pos: usize, _ctx: &Context<'_>) -> Option<String> {
        let n = self.hint_calls.fetch_add(1, std::sync::atomic::Ordering::SeqCst) + 1;
        if self.hint_panic_at == Some(n) {
            panic!("scripted hinter panic");
        }
        if pos < line.len() {
            return None;
        }
        let last = line.chars().last()?;
        self.hints.iter().find(|(c, _)| *c == last).map(|(_, h)| h.clone())
    }
}

impl Highlighter for ScriptHelper {
    fn highlight<'l>(&self, line: &'l str, pos: usize) -> Cow<'l, str> {
        match &self.bracket_hl {
            Some(h) => h.highlight(line, pos),
            None => Cow::Borrowed(line),
        }
    }
    fn highlight_char(&self, line: &str, pos: usize, kind: CmdKind) -> bool {
        match &self.bracket_hl {
            Some(h) => h.highlight_char(line, pos, kind),
            None => false,
        }
    }
}

impl Validator for ScriptHelper {
    fn validate(&self, ctx: &mut ValidationContext) -> rustyline::Result<ValidationResult> {
        let input = ctx.input().to_owned();
        self.validator_calls.lock().unwrap().push(input.clone());
        if self.bracket_validator {
            return MatchingBracketValidator::new().validate(ctx);
        }
        for (c, v) in &self.verdicts {
            if input.contains(*c) {
                return match v {
                    'i' => Ok(ValidationResult::Incomplete),
                    'n' => Ok(ValidationResult::Invalid(None)),
                    'm' => Ok(ValidationResult::Invalid(Some(" <invalid>".to_string()))),
                    'v' => Ok(ValidationResult::Valid(Some(" <ok>".to_string()))),
                    'e' => Err(ReadlineError::Io(std::io::Error::new(std::io::ErrorKind::Other, "scripted"))),
                    'p' => panic!("scripted validator panic"),
                    _ => Ok(ValidationResult::Valid(None)),
                };
            }
        }
        Ok(ValidationResult::Valid(None))
    }
}

impl rustyline::Helper for ScriptHelper {}

fn show_key(k: &KeyEvent) -> String {
    let code = match k.0 {
        KeyCode::Char(c) => format!("c{}", c as u32),
        KeyCode::F(i) => format!("F{}", i),
        other => format!("{:?}", other),
    };
    format!("{}.{}", code, k.1.bits())
}

struct Recorder {
    obs: Arc<Mutex<Vec<String>>>,
    sync: Arc<Mutex<Vec<String>>>,
}

/// C02 (target `render`): when set, every `Event::Any` callback also records `line/pos/hint` and writes
/// `SYNC_MARK` to the terminal, so that the output stream can be cut exactly where the callback ran.
pub static RENDER_SYNC: std::sync::atomic::AtomicBool = std::sync::atomic::AtomicBool::new(false);
pub const SYNC_MARK: &[u8] = b"\x1b[?4242h";

impl ConditionalEventHandler for Recorder {
    fn handle(&self, evt: &Event, n: RepeatCount, positive: bool, ctx: &EventContext) -> Option<Cmd> {
        let mode = match (ctx.mode(), ctx.input_mode()) {
            (EditMode::Emacs, _) => "e",
            (EditMode::Vi, InputMode::Command) => "vc",
            (EditMode::Vi, InputMode::Insert) => "vi",
            (EditMode::Vi, InputMode::Replace) => "vr",
            _ => "?",
        };
        let key = match evt {
            Event::KeySeq(ks) => ks.iter().map(show_key).collect::<Vec<_>>().join("+"),
            _ => "?".to_string(),
        };
        if RENDER_SYNC.load(std::sync::atomic::Ordering::Relaxed) {
            self.sync.lock().unwrap().push(format!(
                "{}/{}/{}/{}/{}/{}/{}",
                enc_text(ctx.line()),
                ctx.pos(),
                ctx.hint_text().map_or("n".to_string(), enc_text),
                mode,
                key,
                n,
                enc_bool(positive)
            ));
            unsafe { libc::write(1, SYNC_MARK.as_ptr() as *const libc::c_void, SYNC_MARK.len()) };
        }
        self.obs.lock().unwrap().push(format!(
            "{}/{}/{}/{}/{}/{}/{}",
            enc_text(ctx.line()),
            ctx.pos(),
            mode,
            enc_bool(ctx.has_hint()),
            key,
            n,
            enc_bool(positive)
        ));
        None
    }
}

pub struct Req {
    pub vi: bool,
    pub cols: u16,
    pub flags: String,
    pub history: Vec<String>,
    pub left: String,
    pub right: String,
    pub helper: String,
    pub binds: String,
    pub keys: Vec<Vec<u8>>,
    /// target `ed07s` only: `set_max_len(n)` after the history has been filled
    pub trim: Option<usize>,
}

pub fn unhex(s: &str) -> Option<Vec<u8>> {
    if s.is_empty() || s.len() % 2 != 0 {
        return None;
    }
    (0..s.len()).step_by(2).map(|i| u8::from_str_radix(s.get(i..i + 2)?, 16).ok()).collect()
}

pub fn parse(f: &[&str]) -> Option<Req> {
    if f.len() < 8 {
        return None;
    }
    let vi = match f[0] {
        "e" => false,
        "v" => true,
        _ => return None,
    };
    let cols: u16 = f[1].parse().ok()?;
    if cols < 2 {
        return None;
    }
    let flags = if f[2] == "-" { String::new() } else { f[2].to_string() };
    if !flags.chars().all(|c| "tplBsrw".contains(c)) {
        return None;
    }
    let keys: Option<Vec<Vec<u8>>> = f[8..].iter().map(|k| unhex(k)).collect();
    Some(Req {
        vi,
        cols,
        flags,
        history: dec_texts(f[3])?,
        left: dec_text(f[4])?,
        right: dec_text(f[5])?,
        helper: f[6].to_string(),
        binds: f[7].to_string(),
        keys: keys?,
        trim: None,
    })
}

pub fn parse_helper(spec: &str, calls: Arc<Mutex<Vec<String>>>) -> Option<Option<ScriptHelper>> {
    if spec == "-" {
        return Some(None);
    }
    let mut h = ScriptHelper {
        candidates: None,
        verdicts: vec![],
        bracket_validator: false,
        hints: vec![],
        bracket_hl: None,
        validator_calls: calls,
        hint_panic_at: None,
        hint_calls: std::sync::atomic::AtomicUsize::new(0),
    };
    for part in spec.split('|') {
        if let Some(r) = part.strip_prefix("C=") {
            h.candidates = Some(dec_texts(r)?);
        } else if part == "Vb" {
            h.bracket_validator = true;
        } else if let Some(r) = part.strip_prefix("V=") {
            for item in r.split(';') {
                let (c, v) = item.split_once('@')?;
                let c = char::from_u32(c.parse().ok()?)?;
                let v = v.chars().next()?;
                if !"inmvep".contains(v) {
                    return None;
                }
                h.verdicts.push((c, v));
            }
        } else if let Some(r) = part.strip_prefix("H=") {
            for item in r.split(';') {
                let (c, t) = item.split_once('@')?;
                h.hints.push((char::from_u32(c.parse().ok()?)?, dec_text(t)?));
            }
        } else if let Some(r) = part.strip_prefix("Ph=") {
            let k: usize = r.parse().ok()?;
            if k == 0 {
                return None;
            }
            h.hint_panic_at = Some(k);
        } else if part == "M" {
            h.bracket_hl = Some(MatchingBracketHighlighter::new());
        } else {
            return None;
        }
    }
    Some(Some(h))
}

pub struct RunResult {
    pub callbacks: Vec<String>,
    pub outcome: String,
    pub history_after: Vec<String>,
    pub termios_restored: bool,
    pub paste_state: &'static str,
    pub output: Vec<u8>,
    pub snapshots: Vec<usize>, // output length after each key token (one-key-at-a-time mode)
    pub validator_calls: Vec<String>,
    pub printer_msgs: usize,
    pub sync_states: Vec<String>, // C02: `line/pos/hint/mode/keys/n/positive` per callback (only with RENDER_SYNC)
}

pub fn outcome_of(r: &std::thread::Result<rustyline::Result<String>>) -> String {
    match r {
        Err(_) => "panic".to_string(),
        Ok(Ok(l)) => format!("line:{}", enc_text(l)),
        Ok(Err(ReadlineError::Eof)) => "eof".to_string(),
        Ok(Err(ReadlineError::Interrupted)) => "int".to_string(),
        Ok(Err(ReadlineError::Io(e))) => {
            if e.kind() == std::io::ErrorKind::InvalidData {
                "invalid".to_string()
            } else if e.to_string().contains("scripted") {
                "helper-err".to_string()
            } else {
                "io".to_string()
            }
        }
        Ok(Err(ReadlineError::Errno(_))) => "io".to_string(),
        Ok(Err(_)) => "other".to_string(),
    }
}

fn mk_default_history(cfg: Config, hist: &[String], _trim: Option<usize>) -> DefaultHistory {
    let mut history = DefaultHistory::with_config(cfg);
    for h in hist {
        let _ = history.add(h);
    }
    history
}

fn list_default_history(h: &DefaultHistory) -> Vec<String> {
    h.iter().cloned().collect()
}

/// Runs one read on a fresh pseudo-terminal (default history back end).
pub fn run(req: &Req, prompt: &str, rows: u16) -> Option<RunResult> {
    run_with::<DefaultHistory>(req, prompt, rows, mk_default_history, list_default_history)
}

/// The same over the SQLite back end: an in-memory database (`SQLiteHistory::with_config` opens
/// `:memory:`) filled through `add` in request order, then trimmed with `set_max_len` if asked.
/// The history configuration is the crate's default (duplicates replaced through the unique
/// index, `ignore_space` off, `max_history_size` 100).
#[cfg(feature = "sqlite")]
pub fn run_sqlite(req: &Req, prompt: &str, rows: u16) -> Option<RunResult> {
    use rustyline::sqlite_history::SQLiteHistory;
    fn mk(_cfg: Config, hist: &[String], trim: Option<usize>) -> SQLiteHistory {
        // the back end gets the crate's DEFAULT history configuration (the editor's own
        // configuration turns duplicate handling off for the default back end)
        let mut history = SQLiteHistory::with_config(Config::default()).unwrap();
        for h in hist {
            let _ = history.add(h);
        }
        if let Some(n) = trim {
            let _ = history.set_max_len(n);
        }
        history
    }
    // the stored entries in row order: every answer of get(i, Forward) walking up from 0
    fn list(h: &SQLiteHistory) -> Vec<String> {
        let mut out = vec![];
        let mut i = 0;
        while i < h.len() {
            match h.get(i, rustyline::history::SearchDirection::Forward) {
                Ok(Some(r)) => {
                    out.push(r.entry.to_string());
                    i = r.idx + 1;
                }
                _ => break,
            }
        }
        out
    }
    run_with::<SQLiteHistory>(req, prompt, rows, mk, list)
}

fn run_with<I: History + 'static>(
    req: &Req,
    prompt: &str,
    rows: u16,
    mk_history: fn(Config, &[String], Option<usize>) -> I,
    list_history: fn(&I) -> Vec<String>,
) -> Option<RunResult> {
    let mut pty = Pty::open(req.cols, rows);
    if req.flags.contains('r') {
        pty.set_raw_initial();
    }
    pty.install();
    let before = pty.termios();
    let obs: Arc<Mutex<Vec<String>>> = Arc::new(Mutex::new(vec![]));
    let calls: Arc<Mutex<Vec<String>>> = Arc::new(Mutex::new(vec![]));
    let helper = parse_helper(&req.helper, calls.clone())?;
    let binds = parse_binds(&req.binds)?;
    let (tid_tx, tid_rx) = mpsc::channel::<i32>();
    let (res_tx, res_rx) = mpsc::channel::<(String, Vec<String>)>();
    let obs2 = obs.clone();
    let sync: Arc<Mutex<Vec<String>>> = Arc::new(Mutex::new(vec![]));
    let sync2 = sync.clone();
    let vi = req.vi;
    let flags = req.flags.clone();
    let hist = req.history.clone();
    let trim = req.trim;
    let (left, right) = (req.left.clone(), req.right.clone());
    let prompt = prompt.to_string();
    let with_printer = req.flags.contains('p');
    let handle = std::thread::spawn(move || {
        let cfg = Config::builder()
            .edit_mode(if vi { EditMode::Vi } else { EditMode::Emacs })
            .completion_type(if flags.contains('l') { CompletionType::List } else { CompletionType::Circular })
            .bracketed_paste(!flags.contains('B'))
            .enable_signals(flags.contains('s'))
            .grapheme_cluster_mode(rustyline::GraphemeClusterMode::Unicode)
            .history_ignore_dups(false)
            .unwrap()
            .build();
        // (the configuration of the history back end proper is the crate's default: the SQLite
        // back end then replaces duplicates; the default back end is told to keep them)
        let history = mk_history(cfg, &hist, trim);
        let mut ed: Editor<ScriptHelper, I> = Editor::with_history(cfg, history).unwrap();
        ed.set_helper(helper);
        ed.bind_sequence(Event::Any, EventHandler::Conditional(Box::new(Recorder { obs: obs2, sync: sync2 })));
        for (seq, cmd) in binds {
            ed.bind_sequence(Event::KeySeq(seq), EventHandler::Simple(cmd));
        }
        let _printer = if with_printer { ed.create_external_printer().ok() } else { None };
        tid_tx.send(gettid()).unwrap();
        let r = std::panic::catch_unwind(std::panic::AssertUnwindSafe(|| {
            if left.is_empty() && right.is_empty() {
                ed.readline(&prompt)
            } else {
                ed.readline_with_initial(&prompt, (&left, &right))
            }
        }));
        let hist_after: Vec<String> = list_history(ed.history());
        let _ = res_tx.send((outcome_of(&r), hist_after));
    });
    let tid = tid_rx.recv_timeout(Duration::from_secs(5)).ok()?;
    let mut q = Quiesce::new(tid);
    let mut out: Vec<u8> = vec![];
    let result: std::cell::RefCell<Option<(String, Vec<String>)>> = std::cell::RefCell::new(None);
    let finished = || {
        if result.borrow().is_some() {
            return true;
        }
        if let Ok(r) = res_rx.try_recv() {
            *result.borrow_mut() = Some(r);
            true
        } else {
            false
        }
    };
    let step_timeout = Duration::from_millis(1500);
    let mut snapshots = vec![];
    let mut wedged = false;
    // wait for raw mode + first prompt
    let mut w = q.wait(&pty, &mut out, false, &finished, step_timeout);
    if w == Wait::Blocked && req.flags.contains('w') {
        // a window-size signal that changes nothing, while the read waits for its first key: the read
        // must simply go on waiting.  (Only here: a signal that arrives while a multi-key command is
        // half read makes the code start that command afresh, which the model does not describe.)
        q.arm();
        unsafe {
            libc::syscall(libc::SYS_tgkill, libc::getpid(), tid, libc::SIGWINCH);
        }
        w = q.wait(&pty, &mut out, true, &finished, step_timeout);
    }
    if w == Wait::Blocked {
        if req.flags.contains('t') {
            q.arm();
            let all: Vec<u8> = req.keys.iter().flatten().cloned().collect();
            if !all.is_empty() {
                pty.write_keys(&all);
                w = q.wait(&pty, &mut out, true, &finished, step_timeout);
            }
            snapshots.push(out.len());
        } else {
            for k in &req.keys {
                q.arm();
                pty.write_keys(k);
                w = q.wait(&pty, &mut out, true, &finished, step_timeout);
                snapshots.push(out.len());
                if w != Wait::Blocked {
                    break;
                }
            }
        }
    }
    if w == Wait::Timeout {
        wedged = true;
    }
    // input exhausted: hang up if the read has not returned
    let mut hung_up = false;
    if !finished() {
        hung_up = true;
        pty.hangup();
        let t0 = std::time::Instant::now();
        while !finished() && t0.elapsed() < Duration::from_secs(3) {
            std::thread::sleep(Duration::from_micros(200));
        }
    } else {
        pty.drain(&mut out);
    }
    let (mut outcome, history_after) = match result.borrow_mut().take() {
        Some(r) => {
            let _ = handle.join();
            r
        }
        None => ("wedged-after-hangup".to_string(), vec![]),
    };
    if wedged {
        outcome = format!("wedged+{}", outcome);
    } else if hung_up {
        outcome = format!("hup+{}", outcome);
    }
    let after = pty.termios();
    // last bracketed-paste switch in the output
    let on = find_last(&out, b"\x1b[?2004h");
    let off = find_last(&out, b"\x1b[?2004l");
    let paste_state = match (on, off) {
        (None, None) => "-",
        (Some(_), None) => "on",
        (None, Some(_)) => "off",
        (Some(a), Some(b)) => {
            if a > b {
                "on"
            } else {
                "off"
            }
        }
    };
    let callbacks = obs.lock().unwrap().clone();
    let validator_calls = calls.lock().unwrap().clone();
    let sync_states = sync.lock().unwrap().clone();
    let restored = hung_up || before == after;
    pty.close();
    Some(RunResult {
        callbacks,
        outcome,
        history_after,
        termios_restored: restored,
        paste_state,
        output: out,
        snapshots,
        validator_calls,
        printer_msgs: 0,
        sync_states,
    })
}

fn find_last(hay: &[u8], needle: &[u8]) -> Option<usize> {
    if hay.len() < needle.len() {
        return None;
    }
    (0..=hay.len() - needle.len()).rev().find(|&i| &hay[i..i + needle.len()] == needle)
}

// ------------------------------------------------------------------------------------ bindings

fn parse_key(s: &str) -> Option<KeyEvent> {
    // `<code>.<modbits>` as printed by show_key
    let (code, m) = s.split_once('.')?;
    let mods = rustyline::Modifiers::from_bits(m.parse().ok()?)?;
    let code = if let Some(cp) = code.strip_prefix('c') {
        KeyCode::Char(char::from_u32(cp.parse().ok()?)?)
    } else {
        match code {
            "Up" => KeyCode::Up,
            "Down" => KeyCode::Down,
            "Left" => KeyCode::Left,
            "Right" => KeyCode::Right,
            "Home" => KeyCode::Home,
            "End" => KeyCode::End,
            "Tab" => KeyCode::Tab,
            "Enter" => KeyCode::Enter,
            "Esc" => KeyCode::Esc,
            "Backspace" => KeyCode::Backspace,
            "Delete" => KeyCode::Delete,
            _ => return None,
        }
    };
    Some(KeyEvent(code, mods))
}

pub fn parse_cmd(s: &str) -> Option<Cmd> {
    Some(match s {
        "bol" => Cmd::Move(Movement::BeginningOfLine),
        "eol" => Cmd::Move(Movement::EndOfLine),
        "killeol" => Cmd::Kill(Movement::EndOfLine),
        "killline" => Cmd::Kill(Movement::WholeLine),
        "undo" => Cmd::Undo(1),
        "yank" => Cmd::Yank(1, rustyline::Anchor::Before),
        "noop" => Cmd::Noop,
        "accept" => Cmd::AcceptLine,
        "newline" => Cmd::Newline,
        "upcase" => Cmd::UpcaseWord,
        "prev" => Cmd::PreviousHistory,
        "fwd2" => Cmd::Move(Movement::ForwardChar(2)),
        "insx" => Cmd::SelfInsert(1, 'x'),
        "insab" => Cmd::Insert(1, "ab".to_string()),
        "bwdword" => Cmd::Move(Movement::BackwardWord(1, rustyline::Word::Emacs)),
        "killword" => Cmd::Kill(Movement::ForwardWord(1, rustyline::At::AfterEnd, rustyline::Word::Emacs)),
        "delchar" => Cmd::Kill(Movement::ForwardChar(1)),
        _ => return None,
    })
}

fn parse_binds(spec: &str) -> Option<Vec<(Vec<KeyEvent>, Cmd)>> {
    if spec == "-" {
        return Some(vec![]);
    }
    let mut v = vec![];
    for item in spec.split(';') {
        let (ks, c) = item.split_once('@')?;
        let seq: Option<Vec<KeyEvent>> = ks.split('+').map(parse_key).collect();
        v.push((seq?, parse_cmd(c)?));
    }
    Some(v)
}

// ------------------------------------------------------------------------------------ target

/// Target `ed07s` (feature `sqlite` only): request and observation as `ed07`, except that the
/// history field is `[<n>!]<texts>`: the texts are handed to `SQLiteHistory::add` in order
/// (duplicates of older entries delete the older row and leave a hole in the row ids, consecutive
/// duplicates replace the newest row), then `set_max_len(n)` trims to the newest `n` rows when the
/// prefix is present (holes at the front; `n = 0` empties the table while `len()` stays > 0).
/// `H=` in the observation lists the stored entries in row order after the read.
#[cfg(feature = "sqlite")]
pub fn exec_sqlite(f: &[&str]) -> Option<String> {
    if f.len() < 8 {
        return None;
    }
    let (trim, texts) = match f[3].split_once('!') {
        Some((n, t)) => (Some(n.parse::<usize>().ok()?), t),
        None => (None, f[3]),
    };
    let mut g: Vec<&str> = f.to_vec();
    g[3] = texts;
    let mut req = parse(&g)?;
    req.trim = trim;
    let r = run_sqlite(&req, "> ", 60)?;
    Some(show_result(&r))
}

pub fn exec(f: &[&str]) -> Option<String> {
    let req = parse(f)?;
    let r = run(&req, "> ", 60)?;
    Some(show_result(&r))
}

fn show_result(r: &RunResult) -> String {
    let mut o = r.callbacks.join(" ");
    if !o.is_empty() {
        o.push(' ');
    }
    o.push_str(&format!(
        "=> {} H={} T={} P={} V={}",
        r.outcome,
        enc_texts(&r.history_after),
        enc_bool(r.termios_restored),
        r.paste_state,
        enc_texts(&r.validator_calls)
    ));
    o
}

pub fn hex(b: &[u8]) -> String {
    b.iter().map(|x| format!("{:02x}", x)).collect()
}

pub const TEXT: &[char] = &[
    'a', 'b', 'Z', '0', '_', ',', '.', '(', ')', ' ', 'é', 'ß', '漢', '\u{0301}',
    // case mappings that change the UTF-8 length (dotless i -> I, fi ligature -> FI, I with dot -> i + U+0307)
    '\u{0131}', '\u{FB01}', '\u{0130}',
];
/// targets of vi character searches (multi-byte ones included: `yf漢`)
const CS_TARGETS: &[char] = &['a', 'b', ' ', 'é', ',', '漢', 'Z', '\u{0131}'];

pub fn tok_char(c: char) -> String {
    let mut b = [0u8; 4];
    hex(c.encode_utf8(&mut b).as_bytes())
}

fn rand_text(rng: &mut Rng, max: usize, multiline: bool) -> String {
    let k = rng.below(max + 1);
    (0..k)
        .map(|_| {
            if multiline && rng.chance(1, 8) {
                '\n'
            } else {
                *rng.pick(TEXT)
            }
        })
        .collect()
}

/// one emacs-mode key press (possibly a short multi-key idiom), as tokens
pub fn emacs_key(rng: &mut Rng, out: &mut Vec<String>, helper: bool) {
    if rng.chance(1, 50) {
        // kill, yank, a character delete, yank-pop: the delete must end the yank (a stale yank size
        // would be subtracted from the cursor)
        out.push(rng.pick(&["15", "0b", "17", "1b7f"]).to_string());
        out.push("19".to_string());
        out.push(rng.pick(&["7f", "08", "04", "1b5b337e", "02"]).to_string());
        out.push("1b79".to_string());
        return;
    }
    match rng.below(100) {
        0..=34 => out.push(tok_char(*rng.pick(TEXT))),
        35..=49 => {
            // control keys
            let c = *rng.pick(b"\x01\x02\x05\x06\x04\x08\x0b\x0e\x10\x14\x15\x17\x19\x1f\x7f\x0c");
            out.push(format!("{:02x}", c));
        }
        50..=61 => {
            // meta keys, ESC-prefixed in one write
            let c = *rng.pick(b"bfdcluty<>BFDT\x7f");
            out.push(format!("1b{:02x}", c));
        }
        62..=69 => {
            // cursor keys in several encodings
            out.push(
                rng.pick(&[
                    "1b5b41", "1b5b42", "1b5b43", "1b5b44", "1b4f41", "1b4f42", "1b4f43", "1b4f44", "1b5b48", "1b5b46",
                    "1b5b337e", "1b5b313b3543", "1b5b313b3544", "1b5b313b3343", "1b5b313b3344", "1b5b317e", "1b5b347e",
                    "1b4f48", "1b4f46", "1b5b5a",
                ])
                .to_string(),
            );
        }
        70..=76 => {
            // numeric argument then a command
            if rng.chance(1, 3) {
                out.push("1b2d".to_string());
            }
            let k = rng.below(3);
            for i in 0..k {
                let d = b'0' + rng.below(10) as u8;
                if i == 0 || rng.chance(1, 2) {
                    out.push(format!("1b{:02x}", d));
                } else {
                    out.push(format!("{:02x}", d));
                }
            }
            if k == 0 && out.last().map_or(true, |l| l != "1b2d") {
                out.push(format!("1b{:02x}", b'1' + rng.below(4) as u8));
            }
            let c = *rng.pick(b"\x02\x06\x04\x08\x0b\x15\x17\x19\x1fa ");
            out.push(format!("{:02x}", c));
        }
        77..=80 => {
            // C-x C-u, C-x Backspace, C-x C-g
            out.push("18".to_string());
            out.push(rng.pick(&["15", "7f", "07", "61"]).to_string());
        }
        81..=85 => {
            // incremental search
            out.push(rng.pick(&["12", "13"]).to_string());
            let k = rng.below(3);
            for _ in 0..k {
                out.push(tok_char(*rng.pick(&['a', 'b', 'é', ' ', '('])));
            }
            match rng.below(6) {
                0 => out.push("12".to_string()),
                1 => out.push("13".to_string()),
                2 => out.push("07".to_string()),
                3 => out.push("7f".to_string()),
                4 => out.push("1b".to_string()),
                _ => {}
            }
        }
        86..=89 => {
            // quoted insert
            out.push("16".to_string());
            out.push(rng.pick(&["0a", "09", "61", "1b", "c3a9"]).to_string());
        }
        90..=94 => {
            if helper {
                out.push("09".to_string());
                let k = rng.below(4);
                for _ in 0..k {
                    out.push(rng.pick(&["09", "1b5b5a", "09"]).to_string());
                }
                if rng.chance(1, 3) {
                    out.push(rng.pick(&["1b", "07"]).to_string());
                }
            } else {
                out.push("09".to_string());
            }
        }
        95..=96 => {
            // character search C-] c / M-C-] c
            out.push(rng.pick(&["1d", "1b1d"]).to_string());
            out.push(tok_char(*rng.pick(&['a', 'b', ' '])));
        }
        97 => out.push("0a".to_string()),
        _ => out.push("0d".to_string()),
    }
}

fn vi_motion(rng: &mut Rng, out: &mut Vec<String>) {
    if rng.chance(1, 5) {
        out.push(format!("{:02x}", b'1' + rng.below(3) as u8));
    }
    let m = *rng.pick(b"hlwbeWBE0$^jk;, ");
    if rng.chance(1, 6) {
        out.push(tok_char(*rng.pick(&['f', 't', 'F', 'T'])));
        out.push(tok_char(*rng.pick(CS_TARGETS)));
    } else {
        out.push(format!("{:02x}", m));
    }
}

pub fn vi_key(rng: &mut Rng, out: &mut Vec<String>, insert_mode: &mut bool, helper: bool) {
    if *insert_mode {
        match rng.below(100) {
            0..=54 => out.push(tok_char(*rng.pick(TEXT))),
            55..=74 => {
                out.push("1b".to_string());
                // with keyseq_timeout = None a lone ESC waits for the next byte: pair it
                vi_cmd(rng, out, insert_mode, true);
            }
            75..=82 => out.push(rng.pick(&["7f", "08", "17", "15", "14", "19"]).to_string()),
            83..=88 => out.push(
                rng.pick(&["1b5b41", "1b5b42", "1b5b43", "1b5b44", "1b5b48", "1b5b46", "1b5b337e"]).to_string(),
            ),
            89..=91 => out.push(if helper { "09" } else { "12" }.to_string()),
            92..=93 => {
                out.push("16".to_string());
                out.push(rng.pick(&["0a", "61"]).to_string());
            }
            _ => out.push("0d".to_string()),
        }
    } else {
        vi_cmd(rng, out, insert_mode, false);
    }
}

/// one vi command-mode command; `fast` = the key directly follows ESC (Alt-key = fast command mode)
fn vi_cmd(rng: &mut Rng, out: &mut Vec<String>, insert_mode: &mut bool, fast: bool) {
    let mut toks: Vec<String> = vec![];
    if !fast && rng.chance(1, 6) {
        toks.push(format!("{:02x}", b'1' + rng.below(4) as u8));
        if rng.chance(1, 4) {
            toks.push(format!("{:02x}", b'0' + rng.below(10) as u8));
        }
    }
    *insert_mode = false;
    match rng.below(100) {
        0..=29 => vi_motion(rng, &mut toks),
        30..=44 => {
            let op = *rng.pick(b"dcy<>");
            toks.push(format!("{:02x}", op));
            if rng.chance(1, 5) {
                toks.push(format!("{:02x}", op));
            } else {
                vi_motion(rng, &mut toks);
            }
            if op == b'c' {
                *insert_mode = true;
            }
        }
        45..=56 => toks.push(format!("{:02x}", *rng.pick(b"xXDpPu.~"))),
        57..=66 => {
            let c = *rng.pick(b"aAiIsSCR");
            toks.push(format!("{:02x}", c));
            *insert_mode = true;
        }
        67..=70 => {
            toks.push("72".to_string());
            toks.push(tok_char(*rng.pick(&['a', 'Z', 'é', ' '])));
        }
        71..=76 => toks.push(rng.pick(&["10", "0e", "0b", "08", "7f", "1b5b41", "1b5b42"]).to_string()),
        77..=80 => {
            toks.push(rng.pick(&["12", "13"]).to_string());
            *insert_mode = true;
            toks.push(tok_char(*rng.pick(&['a', 'b'])));
            toks.push(rng.pick(&["07", "12", "0d", "61"]).to_string());
        }
        81..=84 => toks.push("1b".to_string()),
        85..=90 => toks.push(rng.pick(&["19", "14", "15", "17", "1f"]).to_string()),
        91..=93 => {
            // operator x character search from the start of the line towards a multi-byte target that
            // the typed text is likely to contain (seeded change C17-m7: `y f é` sliced inside the char)
            let target = *rng.pick(&['é', '漢', '\u{0131}', 'é']);
            if rng.chance(2, 3) {
                // make sure the target is there: `I a <target>`, ESC glued to `0`
                toks.push("49".to_string());
                toks.push("61".to_string());
                toks.push(tok_char(target));
                toks.push("1b30".to_string());
            } else {
                toks.push(rng.pick(&["30", "5e", "62"]).to_string());
            }
            let op = *rng.pick(b"yydc");
            toks.push(format!("{:02x}", op));
            toks.push(tok_char(*rng.pick(&['f', 't', 'f'])));
            toks.push(tok_char(target));
            if op == b'c' {
                *insert_mode = true;
            }
        }
        _ => toks.push("0d".to_string()),
    }
    if fast {
        // glue the first token to the preceding ESC so that it is read as Alt-<key>
        let first = toks.remove(0);
        let last = out.pop().unwrap();
        out.push(format!("{}{}", last, first));
    }
    out.extend(toks);
}

#[derive(Clone, Copy, PartialEq, Eq)]
pub enum Profile {
    General,
    Validator, // C13: a validator is always installed, Enter at arbitrary points
    Malformed, // C17: arbitrary bytes, truncated sequences, all helper kinds, printer, type-ahead
    History,   // C07: history navigation mixed with edits, multi-line entries and in-progress lines
    Search,    // C08: incremental search keys, direction changes, backspaces, aborts, terminators
    Complete,  // C14: scripted completer, Tab / Shift-Tab runs, aborts, terminators, undo probe
    Kill,      // C06: kill commands with counts and negative arguments, yank / yank-pop probes
    Undo,      // C05: editing commands with the undo probe at arbitrary points
    Doc,       // C01: every documented key in every encoding, numeric arguments, vi operator x motion x counts, custom bindings
}

/// every documented non-character key in all its byte encodings (C01)
const DOC_ESCAPES: &[&str] = &[
    "1b5b41", "1b4f41", "1b5b42", "1b4f42", "1b5b43", "1b4f43", "1b5b44", "1b4f44", // arrows CSI / SS3
    "1b5b48", "1b4f48", "1b5b317e", "1b5b377e", // Home
    "1b5b46", "1b4f46", "1b5b347e", "1b5b387e", // End
    "1b5b337e", // Delete
    "1b5b313b3343", "1b5b313b3344", "1b5b313b3943", "1b5b313b3944", "1b1b5b43", "1b1b5b44", "1b1b4f43", "1b1b4f44", // Alt-arrows
    "1b5b313b3543", "1b5b313b3544", "1b5b3543", "1b5b3544", "1b4f63", "1b4f64", // Ctrl-arrows
    "1b7f", "1b08", "1b4f4d",
];

fn doc_emacs_cmd(rng: &mut Rng) -> String {
    // a command that takes a count
    match rng.below(10) {
        0..=4 => format!("{:02x}", *rng.pick(b"\x02\x06\x04\x08\x7f\x0b\x15\x17\x01\x05\x14")),
        5..=6 => format!("1b{:02x}", *rng.pick(b"bfdBFDulc\x7f")),
        7 => rng.pick(&["1b5b43", "1b5b44", "1b5b337e", "1b5b313b3343", "1b5b313b3544", "1b4f43"]).to_string(),
        _ => tok_char(*rng.pick(TEXT)),
    }
}

fn doc_emacs_key(rng: &mut Rng, out: &mut Vec<String>) {
    match rng.below(100) {
        0..=29 => out.push(tok_char(*rng.pick(TEXT))),
        30..=47 => out.push(format!(
            "{:02x}",
            *rng.pick(b"\x01\x02\x05\x06\x04\x08\x7f\x0b\x15\x17\x14\x01\x02\x06\x0c")
        )),
        48..=59 => out.push(format!("1b{:02x}", *rng.pick(b"bfdclutBFDCLUT"))),
        60..=71 => out.push(rng.pick(DOC_ESCAPES).to_string()),
        72..=87 => {
            // numeric argument: M-[-]d1..dk, digits with or without Meta
            let neg = rng.chance(1, 3);
            if neg {
                out.push("1b2d".to_string());
            }
            let k = if neg { rng.below(4) } else { 1 + rng.below(5) };
            for i in 0..k {
                let d = if rng.chance(1, 3) { b'1' + rng.below(3) as u8 } else { b'0' + rng.below(10) as u8 };
                if (i == 0 && !neg) || rng.chance(1, 3) {
                    out.push(format!("1b{:02x}", d));
                } else {
                    out.push(format!("{:02x}", d));
                }
            }
            out.push(doc_emacs_cmd(rng));
        }
        88..=90 => {
            out.push("16".to_string());
            out.push(rng.pick(&["0a", "09", "61", "c3a9", "01", "e6bca2"]).to_string());
        }
        91..=92 => {
            out.push("18".to_string());
            out.push(rng.pick(&["15", "7f", "07", "61", "62"]).to_string());
        }
        93..=94 => out.push(rng.pick(&["0f", "1b67", "0f"]).to_string()),
        95..=96 => out.push(rng.pick(&["19", "1f", "10", "0e", "1b79"]).to_string()),
        97 => out.push("03".to_string()),
        98 => out.push("0a".to_string()),
        _ => out.push("0d".to_string()),
    }
}

fn doc_vi_motion(rng: &mut Rng, out: &mut Vec<String>) {
    if rng.chance(1, 3) {
        out.push(format!("{:02x}", b'1' + rng.below(3) as u8));
        if rng.chance(1, 6) {
            out.push(format!("{:02x}", b'0' + rng.below(3) as u8));
        }
    }
    if rng.chance(1, 5) {
        out.push(tok_char(*rng.pick(&['f', 't', 'F', 'T'])));
        out.push(tok_char(*rng.pick(CS_TARGETS)));
    } else {
        out.push(format!("{:02x}", *rng.pick(b"hlwbeWBE0$^;, jk\x08\x7f")));
    }
}

/// one vi command-mode command out of the README table
fn doc_vi_cmd(rng: &mut Rng, toks: &mut Vec<String>, insert_mode: &mut bool, fast: bool) {
    if !fast && rng.chance(1, 4) {
        toks.push(format!("{:02x}", b'1' + rng.below(4) as u8));
        if rng.chance(1, 5) {
            toks.push(format!("{:02x}", b'0' + rng.below(10) as u8));
        }
    }
    *insert_mode = false;
    match rng.below(100) {
        0..=27 => {
            if rng.chance(1, 5) {
                toks.push(tok_char(*rng.pick(&['f', 't', 'F', 'T'])));
                toks.push(tok_char(*rng.pick(CS_TARGETS)));
            } else {
                toks.push(format!("{:02x}", *rng.pick(b"hlwbeWBE0$^;, \x08\x7f")));
            }
        }
        28..=57 => {
            let op = *rng.pick(b"dcyddc");
            toks.push(format!("{:02x}", op));
            if rng.chance(1, 5) {
                toks.push(format!("{:02x}", op));
            } else {
                doc_vi_motion(rng, toks);
            }
            if op == b'c' {
                *insert_mode = true;
            } else if op == b'y' && rng.chance(2, 3) {
                // what was copied is only visible through a put
                toks.push(rng.pick(&["50", "70"]).to_string());
            }
        }
        58..=67 => toks.push(format!("{:02x}", *rng.pick(b"xXDxX\x0b"))),
        68..=77 => {
            toks.push(format!("{:02x}", *rng.pick(b"aAiIsSC")));
            *insert_mode = true;
        }
        78..=82 => {
            toks.push("72".to_string());
            toks.push(tok_char(*rng.pick(&['a', 'Z', 'é', ' ', '漢'])));
        }
        83..=87 => toks.push(rng.pick(DOC_ESCAPES).to_string()),
        88..=91 => toks.push(rng.pick(&["14", "15", "17", "04", "1b5b337e"]).to_string()),
        92 => toks.push(rng.pick(&["70", "50", "75", "2e", "6a", "6b", "10", "0e"]).to_string()),
        96 if rng.chance(1, 3) => toks.push("03".to_string()),
        96 => {
            // a count before the operator AND before the motion (they multiply), from the start of
            // the line so that the text is long enough to tell 2x3 from 3
            toks.push("30".to_string());
            toks.push(format!("{:02x}", b'2' + rng.below(2) as u8));
            let op = *rng.pick(b"dyc");
            toks.push(format!("{:02x}", op));
            toks.push(format!("{:02x}", b'2' + rng.below(2) as u8));
            toks.push(format!("{:02x}", *rng.pick(b"lwlw ")));
            if op == b'c' {
                *insert_mode = true;
            } else if op == b'y' {
                toks.push("50".to_string());
            }
        }
        93..=95 | 97 | 98 => {
            // operator x character search from the start (forward) or the end (backward) of the line,
            // so that the target is likely to be found; multi-byte targets included
            let fwd = rng.chance(1, 2);
            let target = *rng.pick(&['é', '漢', '\u{0131}', 'é', '漢', ',', 'a', ' ']);
            if rng.chance(2, 3) {
                // make sure the target exists: append / prepend it first, leave insert mode with
                // Esc glued to `0` / `$` (fast command mode)
                toks.push(if fwd { "41" } else { "49" }.to_string());
                toks.push(tok_char(target));
                toks.push(if fwd { "1b30" } else { "1b24" }.to_string());
            } else {
                toks.push(if fwd { "30" } else { "24" }.to_string());
            }
            let op = *rng.pick(b"dcyyy");
            toks.push(format!("{:02x}", op));
            if rng.chance(1, 5) {
                toks.push("32".to_string());
            }
            toks.push(tok_char(*rng.pick(if fwd { &['f', 'f', 't'] } else { &['F', 'F', 'T'] })));
            toks.push(tok_char(target));
            if op == b'c' {
                *insert_mode = true;
            } else if op == b'y' {
                toks.push(rng.pick(&["50", "70"]).to_string());
            }
        }
        _ => toks.push("0d".to_string()),
    }
}

fn doc_vi_key(rng: &mut Rng, out: &mut Vec<String>, insert_mode: &mut bool) {
    if *insert_mode {
        match rng.below(100) {
            0..=49 => out.push(tok_char(*rng.pick(TEXT))),
            50..=74 => {
                // ESC glued to a command key (with keyseq_timeout = None a lone ESC waits for the next byte)
                let mut toks = vec![];
                doc_vi_cmd(rng, &mut toks, insert_mode, true);
                let first = toks.remove(0);
                out.push(format!("1b{}", first));
                out.extend(toks);
            }
            75..=82 => out.push(rng.pick(&["7f", "08", "17", "15", "14", "04"]).to_string()),
            83..=90 => out.push(rng.pick(DOC_ESCAPES).to_string()),
            91..=93 => {
                out.push("16".to_string());
                out.push(rng.pick(&["0a", "61", "c3a9"]).to_string());
            }
            94..=95 => out.push("03".to_string()),
            _ => out.push("0d".to_string()),
        }
    } else {
        let mut toks = vec![];
        doc_vi_cmd(rng, &mut toks, insert_mode, false);
        out.extend(toks);
    }
}

fn doc_binds(rng: &mut Rng) -> String {
    let k = 1 + rng.below(3);
    let mut seen: Vec<&str> = vec![];
    let mut items = vec![];
    for _ in 0..k {
        // C-o, M-g, C-a (a documented key rebound), `z`; two-key: C-o a, C-o C-o, C-x b
        let key = *rng.pick(&["c79.8", "c103.4", "c65.8", "c122.0", "c79.8+c97.0", "c79.8+c79.8", "c88.8+c98.0"]);
        let first = key.split('+').next().unwrap();
        // a key is either bound itself or the prefix of sequences, not both
        if seen.iter().any(|s| s.split('+').next().unwrap() == first) {
            continue;
        }
        seen.push(key);
        let cmd = *rng.pick(&[
            "bol", "eol", "killeol", "killline", "noop", "accept", "newline", "upcase", "fwd2", "bwdword", "killword",
            "delchar", "undo", "insx",
        ]);
        items.push(format!("{}@{}", key, cmd));
    }
    items.join(";")
}

fn kill_keys(rng: &mut Rng, vi: bool, insert_mode: &mut bool, out: &mut Vec<String>) {
    if vi {
        if *insert_mode {
            match rng.below(10) {
                // the emacs kill / yank keys that vi insert mode keeps: C-w, C-u, C-y
                0..=2 => out.push(rng.pick(&["17", "17", "15", "19"]).to_string()),
                3 => out.push(tok_char(*rng.pick(TEXT))),
                _ => {
                    out.push(format!("1b{:02x}", *rng.pick(b"hb0")));
                    *insert_mode = false;
                }
            }
            return;
        }
        if rng.chance(1, 12) {
            // a line-wise kill that has nothing to remove (no line above / below), then a
            // character delete, then a put: the failed kill must not leave the ring "killing"
            out.push("64".to_string());
            out.push(format!("{:02x}", *rng.pick(b"kj-+")));
            out.push(format!("{:02x}", *rng.pick(b"xX")));
            out.push(rng.pick(&["70", "50"]).to_string());
            return;
        }
        if rng.chance(4, 10) {
            // a run of kills with nothing in between (character searches in both directions
            // over-represented: their direction decides append / prepend; C-w / C-u / C-k / D are
            // kills whatever the oracle can see of them), sometimes with one non-kill command
            // inside the run (a character delete, a copy, a motion), then a paste probe
            let k = 2 + rng.below(2);
            for i in 0..k {
                match rng.below(14) {
                    0..=4 => {
                        out.push("64".to_string());
                        out.push(tok_char(*rng.pick(&['f', 't', 'F', 'T', 'F', 'T'])));
                        out.push(tok_char(*rng.pick(CS_TARGETS)));
                    }
                    5..=8 => {
                        out.push("64".to_string());
                        vi_motion(rng, out);
                    }
                    9 => out.push("44".to_string()),
                    10 | 11 => out.push(rng.pick(&["17", "15", "0b"]).to_string()),
                    12 => {
                        out.push("64".to_string());
                        out.push("64".to_string());
                    }
                    _ => {
                        // c + motion, back to command mode at once (Alt-<key> = fast command mode)
                        out.push("63".to_string());
                        out.push(format!("{:02x}", *rng.pick(b"wbe$0")));
                        out.push(format!("1b{:02x}", *rng.pick(b"lh")));
                    }
                }
                if i + 1 < k && rng.chance(1, 6) {
                    match rng.below(3) {
                        0 => out.push(rng.pick(&["78", "58", "1b5b337e"]).to_string()),
                        1 => {
                            out.push("79".to_string());
                            out.push(format!("{:02x}", *rng.pick(b"wbe$0y")));
                        }
                        _ => out.push(format!("{:02x}", *rng.pick(b"hl0$"))),
                    }
                }
            }
            out.push(rng.pick(&["50", "70"]).to_string());
            if rng.chance(1, 3) {
                out.push("75".to_string());
            }
            return;
        }
        match rng.below(10) {
            0..=4 => {
                if rng.chance(1, 4) {
                    out.push(format!("{:02x}", b'1' + rng.below(3) as u8));
                }
                out.push("64".to_string());
                if rng.chance(1, 5) {
                    out.push("64".to_string());
                } else {
                    vi_motion(rng, out);
                }
            }
            5 => out.push("44".to_string()),
            6 | 7 => {
                if rng.chance(1, 4) {
                    out.push(format!("{:02x}", b'2' + rng.below(2) as u8));
                }
                out.push(rng.pick(&["50", "70"]).to_string());
            }
            8 => out.push(format!("{:02x}", *rng.pick(b"xXhlwb0$"))),
            _ => out.push("50".to_string()),
        }
        return;
    }
    match rng.below(100) {
        0..=39 => {
            // a run of kill commands
            let k = 1 + rng.below(4);
            for _ in 0..k {
                if rng.chance(1, 5) {
                    if rng.chance(1, 2) {
                        out.push("1b2d".to_string());
                    }
                    out.push(format!("1b{:02x}", b'1' + rng.below(3) as u8));
                }
                out.push(rng.pick(&["0b", "15", "17", "1b64", "1b7f", "0b", "17"]).to_string());
            }
            if rng.chance(3, 4) {
                // sometimes a counted yank (n copies): the yank-pop after it has to replace all of them
                if rng.chance(1, 4) {
                    out.push(format!("1b{:02x}", b'2' + rng.below(2) as u8));
                }
                out.push("19".to_string());
                let pops = rng.below(4);
                for _ in 0..pops {
                    out.push("1b79".to_string());
                }
            }
        }
        40..=49 => out.push(rng.pick(&["04", "7f", "08", "1b5b337e"]).to_string()),
        50..=59 => out.push("19".to_string()),
        60..=64 => out.push("1b79".to_string()),
        65..=79 => out.push(rng.pick(&["01", "05", "02", "06", "1b62", "1b66"]).to_string()),
        80..=82 => out.push("0c".to_string()),
        83..=89 => {
            // a kill or a yank, then an incremental search (or a completion) that is aborted, or
            // left with a kill / yank-pop / yank key: the sub-loop must not keep the kill sequence open
            out.push(rng.pick(&["17", "0b", "15", "19", "1b64"]).to_string());
            out.push(rng.pick(&["12", "12", "13", "09"]).to_string());
            if rng.chance(2, 3) {
                out.push(tok_char(*rng.pick(&['a', 'b', ' ', ','])));
            }
            out.push(rng.pick(&["07", "07", "17", "0b", "1b79", "19", "1b64"]).to_string());
            if rng.chance(1, 2) {
                out.push(rng.pick(&["17", "0b"]).to_string());
            }
            out.push("19".to_string());
            if rng.chance(1, 3) {
                out.push("1b79".to_string());
            }
        }
        _ => out.push(tok_char(*rng.pick(TEXT))),
    }
}

/// C05 in vi mode: insert sessions (one open undo group each) with the Undo probe C-_ inside them,
/// `u` / counted `u` / `.` between them, operators that open their own groups
fn vi_undo_keys(rng: &mut Rng, insert_mode: &mut bool, out: &mut Vec<String>) {
    if *insert_mode {
        match rng.below(100) {
            0..=49 => out.push(tok_char(*rng.pick(&['a', 'b', 'Z', '0', ' ', ',', 'é', '漢']))),
            50..=69 => {
                out.push("1f".to_string());
                if rng.chance(1, 2) {
                    out.push("1f".to_string());
                }
            }
            70..=75 => out.push(rng.pick(&["7f", "08", "17", "15", "19"]).to_string()),
            76..=79 => {
                // a grouped command that changes nothing (C-t on fewer than two clusters, a search
                // that finds nothing, left with C-g): an EMPTY group inside the open session
                match rng.below(3) {
                    0 => out.push("14".to_string()),
                    1 => {
                        out.push("12".to_string());
                        out.push("71".to_string());
                        out.push("07".to_string());
                    }
                    _ => {
                        // D47: a key that leaves insert mode INSIDE the search (Alt-X closes the
                        // session's undo group below the search's mark), abort in command mode, undo
                        out.push("12".to_string());
                        out.push(tok_char(*rng.pick(&['a', 'q', 'Z'])));
                        out.push("1b58".to_string());
                        out.push("07".to_string());
                        out.push("75".to_string());
                        *insert_mode = false;
                    }
                }
            }
            _ => {
                // leave insert mode: ESC glued to a command key
                let c = *rng.pick(b"hb0ulxhb0");
                out.push(format!("1b{:02x}", c));
                *insert_mode = false;
            }
        }
    } else {
        match rng.below(100) {
            0..=19 => out.push("75".to_string()),
            20..=24 => {
                out.push(format!("{:02x}", b'2' + rng.below(2) as u8));
                out.push("75".to_string());
            }
            25..=49 => {
                out.push(format!("{:02x}", *rng.pick(b"aAiIsSC")));
                *insert_mode = true;
            }
            50..=59 => {
                out.push("63".to_string());
                out.push(format!("{:02x}", *rng.pick(b"wbe$0l")));
                *insert_mode = true;
            }
            60..=71 => {
                out.push("64".to_string());
                out.push(format!("{:02x}", *rng.pick(b"wbe$0ldh")));
            }
            72..=79 => {
                let c = *rng.pick(b"xXDpP~");
                if (c == b'p' || c == b'P') && rng.chance(1, 2) {
                    // counted put: n copies, one undo unit
                    out.push(format!("{:02x}", b'2' + rng.below(2) as u8));
                }
                out.push(format!("{:02x}", c));
            }
            80..=84 => out.push("2e".to_string()),
            85..=89 => out.push("1f".to_string()),
            _ => out.push(format!("{:02x}", *rng.pick(b"hlwb0$"))),
        }
    }
}

fn undo_keys(rng: &mut Rng, out: &mut Vec<String>) {
    match rng.below(100) {
        0..=29 => out.push(tok_char(*rng.pick(&['a', 'b', 'Z', '0', ' ', ',', 'é', '漢']))),
        30..=44 => out.push("1f".to_string()),
        45..=54 => out.push(rng.pick(&["7f", "04", "08"]).to_string()),
        55..=64 => out.push(rng.pick(&["17", "0b", "15", "1b64", "1b7f"]).to_string()),
        65..=70 => out.push("19".to_string()),
        71..=76 => out.push(rng.pick(&["14", "1b74", "1b75", "1b6c", "1b63"]).to_string()),
        77..=86 => out.push(rng.pick(&["01", "05", "02", "06", "1b62", "1b66"]).to_string()),
        87..=89 => {
            out.push("16".to_string());
            out.push(rng.pick(&["61", "0a", "20"]).to_string());
        }
        90..=92 => out.push("1b5b3230307e6162201b5b3230317e".to_string()), // bracketed paste of "ab "
        93..=95 => {
            out.push("12".to_string());
            out.push(tok_char(*rng.pick(&['a', 'b'])));
            out.push("07".to_string());
        }
        96..=97 => {
            // a counted yank is ONE edit: a kill, M-n C-y, then the undo probe (seeded change C05-m7)
            out.push(rng.pick(&["17", "0b", "15"]).to_string());
            out.push(format!("1b{:02x}", b'2' + rng.below(2) as u8));
            out.push("19".to_string());
            out.push("1f".to_string());
        }
        _ => {
            out.push("1b32".to_string());
            out.push("1f".to_string());
        }
    }
}

fn history_key(rng: &mut Rng, vi: bool, insert_mode: &mut bool, out: &mut Vec<String>) {
    if !vi {
        match rng.below(100) {
            0..=17 => out.push("10".to_string()),     // C-p
            18..=31 => out.push("0e".to_string()),    // C-n
            32..=43 => out.push(rng.pick(&["1b5b41", "1b4f41"]).to_string()), // Up
            44..=53 => out.push(rng.pick(&["1b5b42", "1b4f42"]).to_string()), // Down
            54..=59 => out.push("1b3c".to_string()),  // M-<
            60..=65 => out.push("1b3e".to_string()),  // M->
            66..=79 => out.push(tok_char(*rng.pick(TEXT))),
            80..=87 => out.push(rng.pick(&["01", "05", "02", "06", "7f", "04", "0b", "15", "17", "1f"]).to_string()),
            88..=91 => {
                out.push("16".to_string());
                out.push("0a".to_string());
            }
            92..=94 => {
                out.push("12".to_string());
                out.push(tok_char(*rng.pick(&['a', 'b'])));
            }
            _ => out.push(rng.pick(&["1b62", "1b66", "1b5b48", "1b5b46"]).to_string()),
        }
    } else if *insert_mode {
        match rng.below(100) {
            0..=29 => out.push(tok_char(*rng.pick(TEXT))),
            30..=44 => out.push(rng.pick(&["1b5b41", "1b5b42"]).to_string()),
            45..=54 => {
                out.push("16".to_string());
                out.push("0a".to_string());
            }
            _ => {
                // ESC glued to a command key (Alt-key = fast command mode)
                let c = *rng.pick(b"kjkj-+hl0$");
                out.push(format!("1b{:02x}", c));
                *insert_mode = false;
            }
        }
    } else {
        match rng.below(100) {
            0..=24 => out.push("6b".to_string()),
            25..=44 => out.push("6a".to_string()),
            45..=52 => out.push(rng.pick(&["2d", "2b", "10", "0e", "1b5b41", "1b5b42"]).to_string()),
            53..=60 => {
                out.push(format!("{:02x}", b'1' + rng.below(3) as u8));
                out.push(rng.pick(&["6b", "6a"]).to_string());
            }
            61..=72 => out.push(format!("{:02x}", *rng.pick(b"hl0$wbxX"))),
            73..=84 => {
                out.push(format!("{:02x}", *rng.pick(b"iaAI")));
                *insert_mode = true;
            }
            _ => out.push(rng.pick(&["64 64", "75", "70"]).replace(' ', " ")),
        }
    }
}

fn search_keys(rng: &mut Rng, out: &mut Vec<String>) {
    out.push("12".to_string());
    let k = rng.below(7);
    for _ in 0..k {
        match rng.below(10) {
            0..=4 => out.push(tok_char(*rng.pick(&['a', 'b', 'é', ' ', '(', '.', '漢', '*']))),
            5..=6 => out.push("12".to_string()),
            7 => out.push("13".to_string()),
            _ => out.push(rng.pick(&["7f", "08"]).to_string()),
        }
    }
    match rng.below(8) {
        0 | 1 => out.push("07".to_string()),
        2 => out.push("1b".to_string()),
        3 => out.push("0d".to_string()),
        4 => out.push(rng.pick(&["01", "05", "02", "1b5b44", "10", "0e", "0b", "1f"]).to_string()),
        5 => out.push("09".to_string()),
        _ => {}
    }
}

fn complete_keys(rng: &mut Rng, out: &mut Vec<String>) {
    out.push(rng.pick(&["09", "09", "09"]).to_string());
    let k = rng.below(6);
    for _ in 0..k {
        out.push(rng.pick(&["09", "09", "1b5b5a", "09"]).to_string());
    }
    match rng.below(8) {
        0 | 1 => out.push("07".to_string()),
        2 => out.push("1b".to_string()),
        3 | 4 => out.push("1f".to_string()), // the undo probe
        5 => out.push(rng.pick(&["61", "20", "7f", "01"]).to_string()),
        _ => {}
    }
}

fn random_helper(rng: &mut Rng, flags: &mut String, profile: Profile, cols: u16) -> String {
    let mut parts: Vec<String> = vec![];
    if profile == Profile::Complete || rng.chance(2, 3) {
        let k = if profile == Profile::Complete { 1 + rng.below(4) } else { rng.below(4) };
        let mut cands: Vec<String> =
            (0..k)
                .map(|_| {
                    rng.pick(&["ab", "abc", "abé", "b", "", "a b", "aZ", "漢a", "漢ab", "éc", "éco", "écoute", "abé", "ab本", "ab朝"]).to_string()
                })
                .collect();
        let wide = cols <= 20 && rng.chance(1, 4);
        if wide {
            // candidates about as wide as the terminal (the listing's column arithmetic)
            for _ in 0..(1 + rng.below(2)) {
                let w = (cols as usize).saturating_sub(3) + rng.below(6);
                let mut c = String::from("ab");
                while c.chars().count() < w {
                    c.push(*rng.pick(&['x', 'y', '漢', 'z']));
                }
                cands.push(c);
            }
        }
        parts.push(format!("C={}", enc_texts(&cands)));
        if rng.chance(1, 3) || (wide && rng.chance(2, 3)) {
            // (the wide ones matter in the listing only)
            flags.push('l');
        }
    }
    let vk = if profile == Profile::Validator { rng.below(2) } else { rng.below(4) };
    match vk {
        0 => parts.push("Vb".to_string()),
        1 => parts.push(format!(
            "V={}@{};{}@{};{}@{}",
            'a' as u32,
            rng.pick(&['i', 'n', 'm', 'v']),
            '(' as u32,
            rng.pick(&['i', 'm', 'e', 'v']),
            'Z' as u32,
            rng.pick(&['m', 'i', 'n'])
        )),
        _ => {}
    }
    if rng.chance(1, 3) {
        parts.push(format!("H={}@{};{}@{}", 'a' as u32, enc_text("bc"), ' ' as u32, enc_text("漢 x")));
    }
    if parts.is_empty() {
        "-".to_string()
    } else {
        parts.join("|")
    }
}

fn malformed_token(rng: &mut Rng, big_used: &mut bool) -> String {
    match rng.below(10) {
        0 => {
            let k = 1 + rng.below(4);
            hex(&(0..k).map(|_| rng.below(256) as u8).collect::<Vec<u8>>())
        }
        1 => rng.pick(&["1b5b", "1b5b31", "1b5b313b", "1b4f", "1b1b", "1b5b323030", "1b5b3230307e", "1b5b3230317e"]).to_string(),
        2 => rng.pick(&["00", "c280", "c29b", "c285", "ff", "c0af", "eda080", "f4908080", "e2"]).to_string(),
        3 => {
            // very large numeric argument — once per script: a second one multiplies (a yank of a
            // yanked text, 9999 x 9999 characters), which tests nothing but memory
            let mut s = String::from("1b39");
            let more = if *big_used { rng.below(2) } else { rng.below(8) };
            for _ in 0..more {
                s.push_str("39");
            }
            *big_used = true;
            s
        }
        4 => rng.pick(&["1b5b3939393b39393952", "1b5b313b3252", "1b5b3130307e", "1b5b31353b357e"]).to_string(),
        5 => "1b5b3230307e61620d63".to_string(), // paste start without end
        6 => rng.pick(&["1c", "1d", "1e", "1a", "03", "04", "11", "13"]).to_string(),
        _ => tok_char(*rng.pick(TEXT)),
    }
}

pub fn gen_profile(ctx: &GenCtx, tag: &str, profile: Profile, sink: &mut dyn FnMut(String)) {
    let mut rng = Rng::new(ctx.seed ^ 0xED ^ ((profile as u64) << 8));
    if profile == Profile::Kill {
        // more separate kills than the ring holds (60): k words typed and killed one by one (each kill
        // separated from the next by typing), then a yank and a few yank-pops around the wrap point
        for (k, pops) in [(59usize, 2usize), (60, 1), (61, 1), (61, 3), (62, 2), (63, 3)] {
            let mut req = format!("{} e 80 - ~ - - - -", tag);
            for i in 0..k {
                let c = b'a' + (i % 26) as u8;
                req.push_str(&format!(" {:02x} {:02x} 17", c, b'0' + (i / 26) as u8));
            }
            req.push_str(" 19");
            for _ in 0..pops {
                req.push_str(" 1b79");
            }
            req.push_str(" 0d");
            sink(req);
        }
    }
    let n = match (profile, ctx.thorough) {
        (_, true) => 60_000,
        (Profile::General, false) => 3_000,
        (Profile::Doc, false) => 4_000,
        (_, false) => 2_500,
    };
    for _ in 0..n {
        let vi = match profile {
            Profile::Undo => rng.chance(1, 4),
            Profile::Kill => rng.chance(1, 4),
            Profile::Doc => rng.chance(1, 2),
            _ => rng.chance(2, 5),
        };
        let mut flags = String::new();
        if rng.chance(1, 8) {
            flags.push('t');
        }
        if (profile == Profile::Malformed || profile == Profile::General) && rng.chance(1, 8) {
            flags.push('w');
        }
        let pprob = if profile == Profile::Malformed || profile == Profile::Doc { 4 } else { 10 };
        if rng.chance(1, pprob) {
            flags.push('p');
        }
        let mut helper = String::from("-");
        let hprob = match profile {
            Profile::General => 3,
            Profile::Validator | Profile::Complete => 1,
            Profile::Malformed => 2,
            Profile::History | Profile::Search | Profile::Kill => 6,
            Profile::Undo => 3,
            Profile::Doc => 8,
        };
        let cols = *rng.pick(&[80u16, 80, 20, 10]);
        if rng.chance(1, hprob) {
            helper = random_helper(&mut rng, &mut flags, profile, cols);
        }
        let nh = match profile {
            Profile::History | Profile::Search => 1 + rng.below(5),
            _ => rng.below(4),
        };
        let hist: Vec<String> = (0..nh)
            .map(|_| {
                let mut t = rand_text(&mut rng, 5, true);
                if t.is_empty() {
                    t.push('a');
                }
                t
            })
            .collect();
        let (left, right) = if profile == Profile::Doc && rng.chance(1, 3) {
            (rand_text(&mut rng, 6, true), rand_text(&mut rng, 10, true))
        } else if rng.chance(1, 4) {
            (rand_text(&mut rng, 4, true), rand_text(&mut rng, 4, true))
        } else {
            (String::new(), String::new())
        };
        let binds = if profile == Profile::Doc && rng.chance(1, 5) { doc_binds(&mut rng) } else { "-".to_string() };
        let mut req = format!(
            "{} {} {} {} {} {} {} {} {}",
            tag,
            if vi { "v" } else { "e" },
            cols,
            if flags.is_empty() { "-" } else { &flags },
            enc_texts(&hist),
            enc_text(&left),
            enc_text(&right),
            helper,
            binds
        );
        let k = 1 + rng.below(if ctx.thorough { 30 } else { 14 });
        let mut toks: Vec<String> = vec![];
        let mut insert_mode = true;
        let mut big_used = false;
        if flags.contains('l') && helper.contains("C=") && rng.chance(1, 2) {
            // the listing itself: a second Tab on an ambiguous completion
            if rng.chance(1, 2) {
                toks.push("61".to_string());
            }
            toks.push("09".to_string());
            toks.push("09".to_string());
        }
        for _ in 0..k {
            if profile == Profile::Malformed && rng.chance(1, 3) {
                toks.push(malformed_token(&mut rng, &mut big_used));
                continue;
            }
            if profile == Profile::Validator && rng.chance(1, 5) {
                toks.push(rng.pick(&["0d", "0d", "0a", "28", "29", "61", "5a"]).to_string());
                continue;
            }
            if profile == Profile::History && rng.chance(3, 4) {
                history_key(&mut rng, vi, &mut insert_mode, &mut toks);
                continue;
            }
            if profile == Profile::Search && (!vi || insert_mode) && rng.chance(1, 2) {
                search_keys(&mut rng, &mut toks);
                continue;
            }
            if profile == Profile::Complete && (!vi || insert_mode) && rng.chance(1, 2) {
                complete_keys(&mut rng, &mut toks);
                continue;
            }
            if profile == Profile::Kill && rng.chance(3, 4) {
                kill_keys(&mut rng, vi, &mut insert_mode, &mut toks);
                continue;
            }
            if profile == Profile::Doc && rng.chance(5, 6) {
                if binds != "-" && rng.chance(1, 4) {
                    // a custom-bound key (or its two-key sequence); ESC-glued in vi insert mode it is Alt-<key>
                    toks.push(rng.pick(&["0f", "1b67", "01", "7a", "0f 61", "0f 0f", "18 62", "0f 62"]).replace(' ', " "));
                    continue;
                }
                if vi {
                    doc_vi_key(&mut rng, &mut toks, &mut insert_mode);
                } else {
                    doc_emacs_key(&mut rng, &mut toks);
                }
                continue;
            }
            if profile == Profile::Undo && !vi && helper.contains("C=") && rng.chance(1, 5) {
                // a completion cycled through some or all of its candidates (and back to the
                // original text), aborted, then the Undo probe: as if it had never been started
                for _ in 0..(1 + rng.below(5)) {
                    toks.push(rng.pick(&["09", "09", "09", "1b5b5a"]).to_string());
                }
                toks.push(rng.pick(&["07", "07", "1b"]).to_string());
                toks.push("1f".to_string());
                if rng.chance(1, 2) {
                    toks.push("1f".to_string());
                }
                continue;
            }
            if profile == Profile::Undo && !vi && rng.chance(4, 5) {
                undo_keys(&mut rng, &mut toks);
                continue;
            }
            if profile == Profile::Undo && vi && rng.chance(4, 5) {
                vi_undo_keys(&mut rng, &mut insert_mode, &mut toks);
                continue;
            }
            if vi {
                vi_key(&mut rng, &mut toks, &mut insert_mode, helper != "-");
            } else {
                emacs_key(&mut rng, &mut toks, helper != "-");
            }
        }
        if rng.chance(3, 4) {
            toks.push("0d".to_string());
        }
        for t in toks {
            req.push(' ');
            req.push_str(&t);
        }
        sink(req);
    }
}

pub fn gen(ctx: &GenCtx, sink: &mut dyn FnMut(String)) {
    gen_profile(ctx, "ed", Profile::General, sink)
}
