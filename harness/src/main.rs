//! Correspondence harness: runs the real rustyline code on generated requests and prints
//! `request<TAB>observation` lines (preceded by the `charinfo` lines the request needs).
mod common;
mod completion;
mod direct;
mod ed;
mod hint;
mod hist;
mod hl;
mod histfile;
mod keys;
mod lb;
mod printer;
mod pty;
mod rawmode;
mod sessions;
mod render;
#[cfg(feature = "sqlite")]
mod ed_sqlite;
#[cfg(feature = "sqlite")]
mod sqlite;

use common::CharInfoEmitter;
use std::io::{BufRead, Write};
use std::panic::{catch_unwind, AssertUnwindSafe};

pub struct GenCtx {
    pub seed: u64,
    pub thorough: bool,
    pub shard: usize,
    pub nshards: usize,
}

fn exec_line(req: &str) -> String {
    let f: Vec<&str> = req.split(' ').collect();
    let r = catch_unwind(AssertUnwindSafe(|| match f.first().copied() {
        Some("hist") => hist::exec(&f[1..]),
        Some("hint") => hint::exec(&f[1..]),
        Some("hl") => hl::exec(&f[1..]),
        Some("hf") => histfile::exec(&f[1..]),
        Some("sess") => sessions::exec(&f[1..]),
        Some("sessx") => sessions::exec_x(&f[1..]),
        #[cfg(feature = "sqlite")]
        Some("ed07s") => ed::exec_sqlite(&f[1..]),
        #[cfg(not(feature = "sqlite"))]
        Some("ed07s") => None,
        Some(t) if t.starts_with("ed") => ed::exec(&f[1..]),
        Some("keys") => keys::exec(&f[1..]),
        Some("lb") | Some("lb4") => lb::exec(&f[1..]),
        Some("raw") => rawmode::exec(&f[1..]),
        Some("render") => render::exec(&f[1..]),
        #[cfg(feature = "sqlite")]
        Some("sqlite") => sqlite::exec(&f[1..]),
        Some("pr") => printer::exec(&f[1..]),
        Some("pr-raw") => printer::raw(&f[1..]),
        Some(t @ ("direct" | "seg")) => direct::exec(t, &f[1..]),
        Some(t @ ("comp" | "clcp" | "cfs")) => completion::exec(t, &f[1..]),
        _ => None,
    }));
    match r {
        Ok(Some(o)) => o,
        Ok(None) => "bad-request".to_string(),
        Err(_) => "panic".to_string(),
    }
}

fn main() {
    // keep panic messages off stderr: panics are observations here
    // (set RLH_PANIC_MSG=1 to see them when investigating a replay by hand)
    let show = std::env::var_os("RLH_PANIC_MSG").is_some();
    std::panic::set_hook(Box::new(move |info| {
        if show {
            eprintln!("{info}");
        }
    }));
    let args: Vec<String> = std::env::args().collect();
    // the protocol streams are moved away from fd 0/1: the editor targets re-plumb those onto a pty
    use std::os::unix::io::FromRawFd;
    let (in_fd, out_fd) = unsafe { (libc::dup(0), libc::dup(1)) };
    pty::ignore_job_control();
    let proto_in = unsafe { std::fs::File::from_raw_fd(in_fd) };
    let proto_out = unsafe { std::fs::File::from_raw_fd(out_fd) };
    let mut out = std::io::BufWriter::new(proto_out);
    let mut ci = CharInfoEmitter::default();
    let noexec = std::env::var_os("RLH_NOEXEC").is_some();
    let mut emit = |req: String, out: &mut dyn Write| {
        if req.starts_with("hf ") || req.starts_with("sess ") {
            // unescaping a history file produces line feed / carriage return / backslash even
            // when the request does not mention them
            for l in ci.lines_for("10 13 92") {
                writeln!(out, "{}", l).unwrap();
            }
        }
        for l in ci.lines_for(&req) {
            writeln!(out, "{}", l).unwrap();
        }
        // RLH_NOEXEC=1: print the requests only (to look at what a generator produces)
        let obs = if noexec { "-".to_string() } else { exec_line(&req) };
        writeln!(out, "{}\t{}", req, obs).unwrap();
    };
    match args.get(1).map(String::as_str) {
        Some("gen") => {
            let target = args.get(2).expect("target");
            let mut ctx = GenCtx { seed: 1, thorough: false, shard: 0, nshards: 1 };
            let mut i = 3;
            while i < args.len() {
                match args[i].as_str() {
                    "--seed" => {
                        ctx.seed = args[i + 1].parse().unwrap();
                        i += 1
                    }
                    "--tier" => {
                        ctx.thorough = args[i + 1] == "thorough";
                        i += 1
                    }
                    "--shard" => {
                        let (a, b) = args[i + 1].split_once('/').unwrap();
                        ctx.shard = a.parse().unwrap();
                        ctx.nshards = b.parse().unwrap();
                        i += 1
                    }
                    _ => panic!("bad arg"),
                }
                i += 1;
            }
            let mut n: usize = 0;
            let mut sink = |req: String| {
                // requests are dealt round-robin to shards so that every shard sees the same
                // deterministic stream
                if n % ctx.nshards == ctx.shard {
                    emit(req, &mut out);
                }
                n += 1;
            };
            match target.as_str() {
                "hist" => hist::gen(&ctx, &mut sink),
                "hint" => hint::gen(&ctx, &mut sink),
                "hl" => hl::gen(&ctx, &mut sink),
                "hf10" => histfile::gen10(&ctx, &mut sink),
                "sess" => sessions::gen(&ctx, &mut sink),
                "sessx" => sessions::gen_x(&ctx, &mut sink),
                "hf12" => histfile::gen12(&ctx, &mut sink),
                "ed" => ed::gen(&ctx, &mut sink),
                "ed13" => ed::gen_profile(&ctx, "ed13", ed::Profile::Validator, &mut sink),
                "ed17" => ed::gen_profile(&ctx, "ed17", ed::Profile::Malformed, &mut sink),
                "ed07" => ed::gen_profile(&ctx, "ed07", ed::Profile::History, &mut sink),
                #[cfg(feature = "sqlite")]
                "ed07s" => ed_sqlite::gen(&ctx, &mut sink),
                "ed08" => ed::gen_profile(&ctx, "ed08", ed::Profile::Search, &mut sink),
                "ed14" => ed::gen_profile(&ctx, "ed14", ed::Profile::Complete, &mut sink),
                "ed06" => ed::gen_profile(&ctx, "ed06", ed::Profile::Kill, &mut sink),
                "ed05" => ed::gen_profile(&ctx, "ed05", ed::Profile::Undo, &mut sink),
                "ed01" => ed::gen_profile(&ctx, "ed01", ed::Profile::Doc, &mut sink),
                "keys" => keys::gen(&ctx, &mut sink),
                "lb" | "lb4" => lb::gen(&ctx, target, &mut sink),
                "raw" => rawmode::gen(&ctx, &mut sink),
                "render" => render::gen(&ctx, &mut sink),
                #[cfg(feature = "sqlite")]
                "sqlite" => sqlite::gen(&ctx, &mut sink),
                "pr" => printer::gen(&ctx, &mut sink),
                "direct" => direct::gen_direct(&ctx, &mut sink),
                "seg" => direct::gen_seg(&ctx, &mut sink),
                "comp" => completion::gen_pure(&ctx, &mut sink),
                "clcp" => completion::gen_lcp(&ctx, &mut sink),
                "cfs" => completion::gen_fs(&ctx, &mut sink),
                _ => {
                    eprintln!("unknown target");
                    std::process::exit(2)
                }
            }
        }
        // hidden: one worker process of target `sessx`
        Some("sess-child") => {
            drop(out);
            sessions::child(&args[2..]);
            return;
        }
        // hidden: the child of target `direct` (stdin is the pipe under test)
        Some("direct-child") => {
            drop(out);
            direct::child(&args[2..]);
            return;
        }
        Some("exec") => {
            for line in std::io::BufReader::new(proto_in).lines() {
                let line = line.unwrap();
                let req = line.split('\t').next().unwrap().to_string();
                if req.is_empty() || req.starts_with("charinfo ") {
                    continue;
                }
                emit(req, &mut out);
            }
        }
        _ => {
            eprintln!("usage: rlharness gen <target> [--seed N] [--tier quick|thorough] [--shard i/n] | exec");
            std::process::exit(2);
        }
    }
    completion::cleanup();
    out.flush().unwrap();
}
