//! Target `render` (C02): the real `Editor::readline` on a pseudo-terminal of a given width; the
//! observation is what every `Event::Any` callback saw (`line/pos/hint`) and the bytes the editor wrote
//! to the terminal, cut exactly at the callbacks (the recorder writes a private-mode marker to the
//! terminal from inside the callback; all output of earlier keys has been written when it runs).
//!
//! request: `render <prompt> <mode> <cols> <flags> <hist> <left> <right> <helper> <binds> key…`
//!   prompt = text; the other fields as for target `ed` (see ed.rs)
//! observation: `<line>/<pos>/<hint|n> … => <outcome> O=<seg>|<seg>|…` (seg = hex bytes, `-` = none):
//!   segment 0 is everything written before the first callback, segment i what was written between
//!   callbacks i-1 and i, the last one what was written after the last callback (incl. the final newline).
use crate::common::*;
use crate::ed;
use crate::GenCtx;
use std::sync::atomic::Ordering;

const ROWS: u16 = 60;

fn split_marks(out: &[u8]) -> Vec<Vec<u8>> {
    let m = ed::SYNC_MARK;
    let mut segs = vec![];
    let mut cur = vec![];
    let mut i = 0;
    while i < out.len() {
        if out[i..].starts_with(m) {
            segs.push(std::mem::take(&mut cur));
            i += m.len();
        } else {
            cur.push(out[i]);
            i += 1;
        }
    }
    segs.push(cur);
    segs
}

pub fn exec(f: &[&str]) -> Option<String> {
    if f.len() < 9 {
        return None;
    }
    let prompt = dec_text(f[0])?;
    let req = ed::parse(&f[1..])?;
    ed::RENDER_SYNC.store(true, Ordering::SeqCst);
    let r = ed::run(&req, &prompt, ROWS);
    ed::RENDER_SYNC.store(false, Ordering::SeqCst);
    let r = r?;
    let segs: Vec<String> =
        split_marks(&r.output).iter().map(|s| if s.is_empty() { "-".to_string() } else { ed::hex(s) }).collect();
    let mut o = r.sync_states.join(" ");
    if !o.is_empty() {
        o.push(' ');
    }
    o.push_str(&format!("=> {} O={}", r.outcome, segs.join("|")));
    Some(o)
}

// ------------------------------------------------------------------------------------ generator

const NARROW: &[char] = &['a', 'b', 'Z', '0', '_', ',', '.', ' ', 'é', 'ß'];
const BRACKETS: &[char] = &['(', ')', '[', ']'];

fn text_char(rng: &mut Rng, brackets: bool) -> char {
    match rng.below(20) {
        0..=11 => *rng.pick(NARROW),
        12..=14 => '漢',
        15 => '\u{0301}',
        16 => '😀',
        _ => {
            if brackets {
                *rng.pick(BRACKETS)
            } else {
                'a'
            }
        }
    }
}

fn rand_line(rng: &mut Rng, max: usize, multiline: bool) -> String {
    let k = rng.below(max + 1);
    (0..k)
        .map(|_| if multiline && rng.chance(1, 9) { '\n' } else { text_char(rng, true) })
        .collect()
}

/// one emacs-mode key press (possibly a short idiom), as tokens; weighted towards what moves text
/// across the right margin
fn emacs_key(rng: &mut Rng, out: &mut Vec<String>, helper: bool, brackets: bool) {
    match rng.below(100) {
        0..=39 => out.push(ed::tok_char(text_char(rng, brackets))),
        40..=42 => {
            // a run of the same character: crosses the margin in steps of the fast path
            let c = ed::tok_char(*rng.pick(&['a', '漢', 'b', ' ']));
            for _ in 0..(2 + rng.below(6)) {
                out.push(c.clone());
            }
        }
        43..=56 => {
            // cursor motion: C-a C-e C-b C-f, arrows, Home/End, M-b M-f, M-< M->
            out.push(
                rng.pick(&[
                    "01", "05", "02", "02", "06", "06", "1b5b44", "1b5b43", "1b5b48", "1b5b46", "1b62", "1b66",
                    "1b3c", "1b3e", "1b5b41", "1b5b42", "1b5b313b3544", "1b5b313b3543",
                ])
                .to_string(),
            );
        }
        57..=66 => {
            // deletions and kills: Backspace C-d(h) C-k C-u C-w M-d M-Backspace Delete
            out.push(rng.pick(&["7f", "7f", "08", "0b", "15", "17", "1b64", "1b7f", "1b5b337e"]).to_string());
        }
        67..=71 => out.push(rng.pick(&["19", "19", "1b79", "14", "1b74"]).to_string()), // C-y M-y C-t M-t
        72..=74 => out.push(rng.pick(&["1b75", "1b6c", "1b63"]).to_string()),          // M-u M-l M-c
        75..=78 => out.push(rng.pick(&["1f", "1f", "18" /* C-x C-u */]).to_string()),
        79..=81 => out.push("0c".to_string()), // C-l
        82..=86 => out.push(rng.pick(&["10", "0e", "10", "1b3c", "1b3e"]).to_string()), // history
        87..=90 => {
            // line break in the text: C-v C-j
            out.push("16".to_string());
            out.push("0a".to_string());
        }
        91..=94 => {
            // numeric argument then a command
            if rng.chance(1, 4) {
                out.push("1b2d".to_string());
            }
            out.push(format!("1b{:02x}", b'1' + rng.below(5) as u8));
            if rng.chance(1, 4) {
                out.push(format!("{:02x}", b'0' + rng.below(3) as u8));
            }
            out.push(rng.pick(&["02", "06", "7f", "61", "e6bca2", "0b", "19", "20"]).to_string());
        }
        95..=96 => {
            if helper {
                out.push("09".to_string());
                for _ in 0..rng.below(3) {
                    out.push("09".to_string());
                }
            } else {
                out.push("05".to_string());
            }
        }
        97 => out.push("0a".to_string()),
        _ => out.push("1b5b43".to_string()), // Right: completes a hint when at the end
    }
    // `18` (C-x) needs its second key
    if out.last().map_or(false, |l| l == "18") {
        out.push("15".to_string());
    }
}

const PROMPTS: &[&str] = &[
    "> ", "> ", "", "p\n", "prompt> ", "漢字> ", "é» ", "a-rather-long-prompt>> ", "1\n2> ", "abcdefghij",
    // colour sequences (zero width), every digit and `;` in the parameters
    "\x1b[91m> \x1b[0m", "\x1b[38;5;196mx\x1b[39m> ", "\x1b[1;32mok\x1b[0m ", "\x1b[7m\x1b[48;5;240m$\x1b[m ",
];

const WIDTHS_QUICK: &[u16] = &[2, 3, 4, 5, 6, 7, 8, 9, 10, 11, 12, 13, 14, 15, 16, 20, 24, 31, 40, 80];

fn helper_spec(rng: &mut Rng) -> String {
    let mut parts: Vec<String> = vec![];
    if rng.chance(1, 4) {
        let cands = ["ab", "abc", "abé", "b", "a b", "aZ", "漢a"];
        let k = 1 + rng.below(3);
        let cs: Vec<String> = (0..k).map(|_| rng.pick(&cands).to_string()).collect();
        parts.push(format!("C={}", enc_texts(&cs)));
    }
    // hints and the bracket highlighter are exercised separately: the editor model does not model
    // `MatchingBracketHighlighter::highlight_char` (a repaint that drops the hint from the screen)
    let hints = rng.chance(1, 2);
    if hints {
        parts.push(format!(
            "H={}@{};{}@{};{}@{}",
            'a' as u32,
            enc_text("bc"),
            ' ' as u32,
            enc_text("漢 x"),
            'b' as u32,
            enc_text(" a long hint that wraps, 漢字")
        ));
    }
    if !hints {
        parts.push("M".to_string());
    }
    if parts.is_empty() {
        "M".to_string()
    } else {
        parts.join("|")
    }
}

/// vi keys come from the `ed` generator; idioms that leave the main loop's display (incremental search)
/// or put control characters into the text are rejected
fn vi_group(rng: &mut Rng, insert_mode: &mut bool, helper: bool) -> Vec<String> {
    for _ in 0..20 {
        let saved = *insert_mode;
        let mut g = vec![];
        ed::vi_key(rng, &mut g, insert_mode, helper);
        let bad = g.iter().any(|t| {
            t == "12" || t == "13" || t.ends_with("12") && t.starts_with("1b") || t.ends_with("13") && t.starts_with("1b")
                || (t == "09" && !helper)
        });
        if !bad {
            return g;
        }
        *insert_mode = saved;
    }
    vec!["61".to_string()]
}

/// an incremental search in emacs mode: C-r (sometimes C-s first, which does nothing outside a search), then
/// typed characters (mostly taken from the stored entries so that searches succeed, sometimes not), direction
/// changes, Backspace, and an exit by every kind of key: abort, motions that move / do not move, commands
/// that repaint nothing (yank from an empty ring, transpose at column 0, undo with nothing to undo), edits,
/// history recall, clear screen, a quoted insert, Enter
fn search_idiom(rng: &mut Rng, hist: &[String], out: &mut Vec<String>, helper: bool) {
    if rng.chance(1, 8) {
        out.push("13".to_string());
    }
    out.push("12".to_string());
    let pool: Vec<char> = hist.iter().flat_map(|h| h.chars()).filter(|c| *c != '\n').collect();
    for _ in 0..rng.below(6) {
        match rng.below(10) {
            0..=4 => {
                let c = if !pool.is_empty() && rng.chance(4, 5) { *rng.pick(&pool) } else { text_char(rng, false) };
                out.push(ed::tok_char(c));
            }
            5..=6 => out.push("12".to_string()),
            7 => out.push("13".to_string()),
            _ => out.push(rng.pick(&["7f", "08"]).to_string()),
        }
    }
    let exits: &[&str] = &[
        "07", "07", "19", "19", "14", "1f", "1b79", "1b5b43", "1b5b44", "01", "05", "02", "06", "1b62", "1b66",
        "0b", "15", "17", "1b64", "1b5b337e", "10", "0e", "1b3c", "1b3e", "1b5b41", "1b5b42", "0c", "0d", "1b75",
        "1b74", "04", "1b5b48", "1b5b46",
    ];
    let e = rng.pick(exits).to_string();
    if e == "0d" && rng.chance(1, 2) {
        // a quoted insert ends the search too
        out.push("16".to_string());
        out.push("0a".to_string());
    } else if helper && rng.chance(1, 10) {
        out.push("09".to_string());
    } else {
        out.push(e);
    }
}

fn one(rng: &mut Rng, cols: u16, thorough: bool, sink: &mut dyn FnMut(String)) {
    let vi = rng.chance(1, 3);
    let mut flags = String::new();
    if rng.chance(1, 10) {
        flags.push('t');
    }
    let helper = if rng.chance(2, 5) { helper_spec(rng) } else { "-".to_string() };
    let has_completer = helper.contains("C=");
    let brackets = helper.contains('M');
    let nh = rng.below(4);
    let hist: Vec<String> = (0..nh)
        .map(|_| {
            let mut t = rand_line(rng, 3 * cols.min(20) as usize, true);
            if t.is_empty() {
                t.push('a');
            }
            t
        })
        .collect();
    let (left, right) = if rng.chance(1, 4) {
        (rand_line(rng, 2 * cols.min(20) as usize, true), rand_line(rng, cols.min(20) as usize, true))
    } else {
        (String::new(), String::new())
    };
    let prompt = *rng.pick(PROMPTS);
    let mut req = format!(
        "render {} {} {} {} {} {} {} {} -",
        enc_text(prompt),
        if vi { "v" } else { "e" },
        cols,
        if flags.is_empty() { "-" } else { &flags },
        enc_texts(&hist),
        enc_text(&left),
        enc_text(&right),
        helper
    );
    let k = 1 + rng.below(if thorough { 40 } else { 18 });
    let mut toks: Vec<String> = vec![];
    let mut insert_mode = true;
    for _ in 0..k {
        if vi {
            toks.extend(vi_group(rng, &mut insert_mode, has_completer));
        } else if !hist.is_empty() && rng.chance(1, 7) {
            search_idiom(rng, &hist, &mut toks, has_completer);
        } else {
            emacs_key(rng, &mut toks, has_completer, brackets);
        }
    }
    // thorough tier: always end with Enter — under the load of a long parallel run the delivery of the last key
    // can race with the hang-up that ends a read without Enter (seen: 1 case in 60000, not reproducible alone)
    // the read ends (Enter / hang-up) inside a search.  (Random keys are not generated inside a search: a numeric
    // argument there repaints the own prompt for one callback, which the callbacks do not reveal when it is `M-1`.)
    if !vi && !hist.is_empty() && rng.chance(1, 12) {
        toks.push("12".to_string());
        for _ in 0..rng.below(3) {
            toks.push(ed::tok_char(text_char(rng, false)));
        }
    }
    if thorough || rng.chance(3, 4) {
        toks.push("0d".to_string());
    }
    for t in toks {
        req.push(' ');
        req.push_str(&t);
    }
    sink(req);
}

pub fn gen(ctx: &GenCtx, sink: &mut dyn FnMut(String)) {
    let mut rng = Rng::new(ctx.seed ^ 0xC02);
    // regression seeds: one per mechanism (append at the margin, wide character at the margin, line
    // break at the margin, cursor motion across rows, kill of wrapped text, hint, clear screen)
    for cols in [4u16, 5, 10] {
        for keys in [
            "61 61 61 61 61 61 0d",
            "61 e6bca2 e6bca2 e6bca2 0d",
            "61 61 61 61 16 0a 62 01 05 0d",
            "61 61 61 61 61 61 61 01 06 06 06 06 06 0b 0d",
            "61 62 61 62 61 62 0c 02 02 02 78 0d",
            "61 61 61 16 0a 02 02 0d",
        ] {
            sink(format!("render {} e {} - ~ - - - - {}", enc_text("> "), cols, keys));
        }
    }
    // incremental search (D42): left by a command that repaints nothing, then a cursor-only move; aborted;
    // failed search, direction changes, Backspace; left by Enter
    for (cols, keys) in [
        (40u16, "12 61 19 1b5b43 62"),
        (40, "12 62 14 02 78 0d"),
        (12, "12 61 12 13 7a 7f 07 61 0d"),
        (8, "12 63 1f 1b5b44 1b5b44 0d"),
        (20, "61 12 62 0d"),
        (6, "12 12 12 13 13 13 61 01 0d"),
    ] {
        sink(format!(
            "render {} e {} - {} - - - - {}",
            enc_text("> "),
            cols,
            enc_texts(&["abc".to_string(), "b c\nd".to_string()]),
            keys
        ));
    }
    let n = if ctx.thorough { 60_000 } else { 2_400 };
    for i in 0..n {
        let cols = if ctx.thorough && rng.chance(1, 2) {
            2 + rng.below(39) as u16
        } else {
            WIDTHS_QUICK[i % WIDTHS_QUICK.len()]
        };
        one(&mut rng, cols, ctx.thorough, sink);
    }
}
