//! Target `sqlite`: `SQLiteHistory` (feature `with-sqlite-history`) on a temporary database file,
//! through the public API only, plus `HistoryHinter` on top of it.
//!
//! request: `sqlite <max> <ignoreSpace> <ignoreDups> op…`
//! ops (one observation token each):
//!   add:<text>                      -> 0 | 1 | err:<class>
//!   max:<n>  dups:<b>  space:<b>    -> u | err:<class>
//!   reopen:<max>:<isp>:<idp>        -> u | err:<class>      (drop, then open the same file)
//!   crash:<max>:<isp>:<idp>:<texts> -> <0|1|e per text>     (drop; a forked child opens the file, adds the
//!                                      texts and `_exit`s without dropping anything; the parent reopens)
//!   len                             -> <n>
//!   get:<i>:<F|R>                   -> n | <idx>/<text> | err:<class>
//!   walk                            -> W/<down>/<up>   (the editor's previous-history walk from the newest
//!                                      entry to the oldest, then next-history back; items `idx=text` joined by `;`)
//!   search:<t>:<start>:<F|R>, sw:…  -> n | <idx>/<text>/<pos> | err:<class>
//!   hint:<t>                        -> n | s<text> | panic   (HistoryHinter on a fresh Context)
//! After a failed `reopen` the history is closed and every op answers `x`.
use crate::common::*;
use crate::GenCtx;
use rustyline::hint::{Hinter, HistoryHinter};
use rustyline::history::{History, SearchDirection, SearchResult};
use rustyline::sqlite_history::SQLiteHistory;
use rustyline::{Config, Context};
use std::panic::{catch_unwind, AssertUnwindSafe};
use std::path::PathBuf;
use std::sync::atomic::{AtomicUsize, Ordering};

static COUNTER: AtomicUsize = AtomicUsize::new(0);

fn dir(s: &str) -> Option<SearchDirection> {
    match s {
        "F" => Some(SearchDirection::Forward),
        "R" => Some(SearchDirection::Reverse),
        _ => None,
    }
}

fn err_class(e: &rustyline::error::ReadlineError) -> String {
    let m = e.to_string();
    let c = if m.contains("UNIQUE constraint") {
        "unique"
    } else if m.contains("malformed MATCH") {
        "match"
    } else if m.contains("Invalid column type") {
        "type"
    } else {
        if std::env::var_os("RLH_SQLITE_DEBUG").is_some() {
            eprintln!("sqlite error: {}", m);
        }
        "other"
    };
    format!("err:{}", c)
}

fn config(mx: &str, isp: &str, idp: &str) -> Option<Config> {
    Some(
        Config::builder()
            .max_history_size(mx.parse().ok()?)
            .ok()?
            .history_ignore_space(dec_bool(isp)?)
            .history_ignore_dups(dec_bool(idp)?)
            .ok()?
            .build(),
    )
}

fn show_found(r: rustyline::Result<Option<SearchResult>>) -> String {
    match r {
        Ok(None) => "n".to_string(),
        Ok(Some(sr)) => format!("{}/{}/{}", sr.idx, enc_text(&sr.entry), sr.pos),
        Err(e) => err_class(&e),
    }
}

fn unit(r: rustyline::Result<()>) -> String {
    match r {
        Ok(()) => "u".to_string(),
        Err(e) => err_class(&e),
    }
}

/// `State::edit_history_next` (src/edit.rs) restricted to the history index: previous-history
/// until it stops moving, then next-history until the index is back at `len`.
fn walk(h: &SQLiteHistory) -> String {
    let mut down: Vec<String> = vec![];
    let mut up: Vec<String> = vec![];
    let mut hi = h.len();
    let mut fuel = 10_000;
    // prev = true
    loop {
        fuel -= 1;
        if fuel == 0 || h.is_empty() || hi == 0 {
            break;
        }
        let idx = hi - 1;
        if idx < h.len() {
            match h.get(idx, SearchDirection::Reverse) {
                Ok(Some(r)) => {
                    hi = r.idx;
                    down.push(format!("{}={}", r.idx, enc_text(&r.entry)));
                }
                Ok(None) => break,
                Err(e) => {
                    down.push(err_class(&e));
                    break;
                }
            }
        } else {
            break;
        }
    }
    // prev = false
    loop {
        fuel -= 1;
        if fuel <= 0 || h.is_empty() || hi == h.len() {
            break;
        }
        hi += 1;
        let idx = hi;
        if idx < h.len() {
            match h.get(idx, SearchDirection::Forward) {
                Ok(Some(r)) => {
                    hi = r.idx;
                    up.push(format!("{}={}", r.idx, enc_text(&r.entry)));
                }
                Ok(None) => break,
                Err(e) => {
                    up.push(err_class(&e));
                    break;
                }
            }
        } else {
            break; // the saved line is restored: back at the line being edited
        }
    }
    let j = |v: Vec<String>| if v.is_empty() { "~".to_string() } else { v.join(";") };
    format!("W/{}/{}", j(down), j(up))
}

/// The child of `crash`: opens the database, adds the lines, reports the outcomes on `fd` and
/// terminates with `_exit` — no destructor runs, no connection is closed.
fn crash_child(path: &PathBuf, cfg: Config, texts: &[String], fd: i32) -> ! {
    let mut rep = String::new();
    match SQLiteHistory::open(cfg, path) {
        Ok(mut h) => {
            for t in texts {
                rep.push(match h.add(t) {
                    Ok(true) => '1',
                    Ok(false) => '0',
                    Err(_) => 'e',
                });
            }
            std::mem::forget(h);
        }
        Err(_) => rep.push('E'),
    }
    unsafe {
        libc::write(fd, rep.as_ptr() as *const libc::c_void, rep.len());
        libc::_exit(0)
    }
}

fn crash(path: &PathBuf, cfg: Config, texts: &[String]) -> Option<String> {
    let mut fds = [0i32; 2];
    unsafe {
        if libc::pipe(fds.as_mut_ptr()) != 0 {
            return None;
        }
        let pid = libc::fork();
        if pid < 0 {
            return None;
        }
        if pid == 0 {
            libc::close(fds[0]);
            crash_child(path, cfg, texts, fds[1]);
        }
        libc::close(fds[1]);
        let mut buf = vec![0u8; 4096];
        let mut got = vec![];
        loop {
            let n = libc::read(fds[0], buf.as_mut_ptr() as *mut libc::c_void, buf.len());
            if n <= 0 {
                break;
            }
            got.extend_from_slice(&buf[..n as usize]);
        }
        libc::close(fds[0]);
        let mut st = 0;
        libc::waitpid(pid, &mut st, 0);
        let s = String::from_utf8(got).ok()?;
        Some(if s.is_empty() { "-".to_string() } else { s })
    }
}

struct Guard(PathBuf);
impl Drop for Guard {
    fn drop(&mut self) {
        let _ = std::fs::remove_file(&self.0);
        for suf in ["-journal", "-wal", "-shm"] {
            let mut p = self.0.clone().into_os_string();
            p.push(suf);
            let _ = std::fs::remove_file(PathBuf::from(p));
        }
    }
}

pub fn exec(f: &[&str]) -> Option<String> {
    if f.len() < 3 {
        return None;
    }
    let cfg = config(f[0], f[1], f[2])?;
    let path = std::env::temp_dir().join(format!(
        "rlh-{}-sq-{}.db",
        std::process::id(),
        COUNTER.fetch_add(1, Ordering::Relaxed)
    ));
    let _g = Guard(path.clone());
    let _ = std::fs::remove_file(&path);
    let mut h: Option<SQLiteHistory> = match SQLiteHistory::open(cfg, &path) {
        Ok(h) => Some(h),
        Err(_) => return Some("open-failed".to_string()),
    };
    let mut obs: Vec<String> = vec![];
    for op in &f[3..] {
        let p: Vec<&str> = op.split(':').collect();
        // ops that replace the connection
        match p.as_slice() {
            ["reopen", mx, isp, idp] => {
                let cfg = config(mx, isp, idp)?;
                drop(h.take());
                obs.push(match SQLiteHistory::open(cfg, &path) {
                    Ok(n) => {
                        h = Some(n);
                        "u".to_string()
                    }
                    Err(e) => err_class(&e),
                });
                continue;
            }
            ["crash", mx, isp, idp, ts] => {
                let cfg = config(mx, isp, idp)?;
                let texts = dec_texts(ts)?;
                if h.is_none() {
                    obs.push("x".to_string());
                    continue;
                }
                drop(h.take());
                let rep = crash(&path, cfg, &texts)?;
                obs.push(match SQLiteHistory::open(cfg, &path) {
                    Ok(n) => {
                        h = Some(n);
                        rep
                    }
                    Err(e) => format!("{}{}", rep, err_class(&e)),
                });
                continue;
            }
            _ => {}
        }
        let o = match (p.as_slice(), h.as_mut()) {
            (["add", t], hh) => {
                let t = dec_text(t)?;
                match hh {
                    None => "x".to_string(),
                    Some(h) => match h.add(&t) {
                        Ok(b) => enc_bool(b).to_string(),
                        Err(e) => err_class(&e),
                    },
                }
            }
            (["max", n], hh) => {
                let n: usize = n.parse().ok()?;
                hh.map_or("x".to_string(), |h| unit(h.set_max_len(n)))
            }
            (["dups", b], hh) => {
                let b = dec_bool(b)?;
                hh.map_or("x".to_string(), |h| unit(h.ignore_dups(b)))
            }
            (["space", b], hh) => {
                let b = dec_bool(b)?;
                hh.map_or("x".to_string(), |h| {
                    h.ignore_space(b);
                    "u".to_string()
                })
            }
            (["len"], hh) => hh.map_or("x".to_string(), |h| format!("{}", h.len())),
            (["get", i, d], hh) => {
                let i: usize = i.parse().ok()?;
                let d = dir(d)?;
                hh.map_or("x".to_string(), |h| match h.get(i, d) {
                    Ok(None) => "n".to_string(),
                    Ok(Some(sr)) => format!("{}/{}", sr.idx, enc_text(&sr.entry)),
                    Err(e) => err_class(&e),
                })
            }
            (["walk"], hh) => hh.map_or("x".to_string(), |h| walk(h)),
            (["search", t, s, d], hh) => {
                let (t, s, d) = (dec_text(t)?, s.parse::<usize>().ok()?, dir(d)?);
                hh.map_or("x".to_string(), |h| show_found(h.search(&t, s, d)))
            }
            (["sw", t, s, d], hh) => {
                let (t, s, d) = (dec_text(t)?, s.parse::<usize>().ok()?, dir(d)?);
                hh.map_or("x".to_string(), |h| show_found(h.starts_with(&t, s, d)))
            }
            (["hint", t], hh) => {
                let t = dec_text(t)?;
                match hh {
                    None => "x".to_string(),
                    Some(h) => {
                        let h: &SQLiteHistory = h;
                        let r = catch_unwind(AssertUnwindSafe(|| {
                            let ctx = Context::new(h);
                            HistoryHinter::new().hint(&t, t.len(), &ctx)
                        }));
                        match r {
                            Ok(None) => "n".to_string(),
                            Ok(Some(s)) => format!("s{}", enc_text(&s)),
                            Err(_) => "panic".to_string(),
                        }
                    }
                }
            }
            _ => return None,
        };
        obs.push(o);
    }
    drop(h);
    Some(obs.join(" "))
}

/// alphabet of the search texts (DESIGN 5, C20): letters in both cases, FTS query syntax, blanks,
/// punctuation, a two-byte letter
const TEXT_ALPHABET: &[char] = &['a', 'b', 'A', '"', '\'', '(', ')', '*', '-', ':', '^', '!', ' ', 'é'];

/// stores the search texts are run against: every character of the alphabet occurs, at the start,
/// inside and at the end of a token, in both cases
const STORES: &[&[&str]] = &[
    &["ab", "a b", "-a", "a\"b", "(a)", "a:b", "b*", "^a!", "é a", "A'b", "!!", "a-b é", "Ab"],
    &["b", "B a", "\"a\"", "a(b", "*", "a^b", "ba", "É", "aé", " ab", "a  b", "b:", "'a' -b", "abA"],
];

fn cfgs() -> Vec<(usize, u8, u8)> {
    vec![(100, 0, 1), (100, 0, 0), (2, 1, 1)]
}

fn mutators() -> Vec<String> {
    let mut m = vec![];
    for l in ["", "a", " a", "b", "A b"] {
        m.push(format!("add:{}", enc_text(l)));
    }
    for n in 0..3 {
        m.push(format!("max:{}", n));
    }
    for b in 0..2 {
        m.push(format!("dups:{}", b));
        m.push(format!("space:{}", b));
    }
    m.push("reopen:100:0:1".to_string());
    m.push("reopen:100:0:0".to_string());
    m.push("reopen:0:1:1".to_string());
    m.push(format!("crash:100:0:1:{}", enc_texts(&["a", "b", "a"])));
    m.push(format!("crash:100:1:0:{}", enc_texts(&["b", "b", " c"])));
    m
}

fn probes() -> Vec<String> {
    let mut p = vec!["len".to_string(), "walk".to_string()];
    for i in 0..5 {
        p.push(format!("get:{}:F", i));
        p.push(format!("get:{}:R", i));
    }
    for t in ["a", "b", "A", " ", "a b", "\""] {
        for s in 0..4 {
            for d in ["F", "R"] {
                p.push(format!("search:{}:{}:{}", enc_text(t), s, d));
                p.push(format!("sw:{}:{}:{}", enc_text(t), s, d));
            }
        }
        p.push(format!("hint:{}", enc_text(t)));
    }
    p.push("walk".to_string());
    p
}

fn all_texts(maxlen: usize) -> Vec<String> {
    let mut out: Vec<String> = vec![String::new()];
    let mut from = 0;
    for _ in 0..maxlen {
        let to = out.len();
        for i in from..to {
            for c in TEXT_ALPHABET {
                let mut t = out[i].clone();
                t.push(*c);
                out.push(t);
            }
        }
        from = to;
    }
    out
}

fn rand_text(rng: &mut Rng, maxlen: usize) -> String {
    let k = rng.below(maxlen + 1);
    (0..k)
        .map(|_| {
            if rng.chance(1, 12) {
                *rng.pick(&['\t', '漢', 'ß', 'Z', '0', '_', '\\', 'İ', 'K', 'ſ'])
            } else {
                *rng.pick(TEXT_ALPHABET)
            }
        })
        .collect()
}

pub fn gen(ctx: &GenCtx, sink: &mut dyn FnMut(String)) {
    // 1. store: every sequence of mutators up to a bound, `walk` after every step, probe battery
    let muts = mutators();
    let maxlen = if ctx.thorough { 3 } else { 2 };
    let battery = probes().join(" ");
    for len in 0..=maxlen {
        let mut idx = vec![0usize; len];
        'outer: loop {
            for (mx, isp, idp) in cfgs() {
                let mut req = format!("sqlite {} {} {}", mx, isp, idp);
                for &i in &idx {
                    req.push(' ');
                    req.push_str(&muts[i]);
                    req.push_str(" walk");
                }
                req.push(' ');
                req.push_str(&battery);
                sink(req);
            }
            let mut k = len;
            loop {
                if k == 0 {
                    break 'outer;
                }
                k -= 1;
                idx[k] += 1;
                if idx[k] < muts.len() {
                    break;
                }
                idx[k] = 0;
            }
        }
    }
    // 2. search texts: every text up to a length bound over the alphabet, both searches, both
    //    directions, and the hinter, against the fixed stores (12 texts per request)
    let texts = all_texts(if ctx.thorough { 4 } else { 3 });
    for (si, store) in STORES.iter().enumerate() {
        let n = store.len();
        for (ci, chunk) in texts.chunks(12).enumerate() {
            let mut req = format!("sqlite 100 0 {}", (si + ci) % 2);
            for e in store.iter() {
                req.push_str(&format!(" add:{}", enc_text(e)));
            }
            if ci % 3 == 1 {
                req.push_str(" reopen:100:0:1");
            }
            for (ti, t) in chunk.iter().enumerate() {
                let e = enc_text(t);
                let mid = (ci + ti) % n;
                req.push_str(&format!(
                    " search:{e}:0:F search:{e}:{}:R sw:{e}:0:F sw:{e}:{}:R search:{e}:{mid}:F sw:{e}:{mid}:R hint:{e}",
                    n - 1,
                    n - 1
                ));
            }
            sink(req);
        }
    }
    // 3. random: long mixed sequences; search texts are mostly pieces of stored lines, with the
    //    case of letters flipped now and then and FTS syntax sprinkled in
    let mut rng = Rng::new(ctx.seed ^ 0xC20);
    let nrand = if ctx.thorough { 60_000 } else { 3_000 };
    for _ in 0..nrand {
        let mut req = format!("sqlite {} {} {}", rng.pick(&[0usize, 1, 3, 100, 100]), rng.below(2), rng.below(2));
        let n = 1 + rng.below(if ctx.thorough { 50 } else { 25 });
        let mut added: Vec<String> = vec![];
        for _ in 0..n {
            let tok = match rng.below(24) {
                0..=8 => {
                    let l = if rng.chance(1, 3) && !added.is_empty() {
                        rng.pick(&added).clone()
                    } else {
                        rand_text(&mut rng, 5)
                    };
                    added.push(l.clone());
                    format!("add:{}", enc_text(&l))
                }
                9 => format!("max:{}", rng.below(6)),
                10 => format!("dups:{}", rng.below(2)),
                11 => format!("space:{}", rng.below(2)),
                12 => format!("reopen:{}:{}:{}", rng.pick(&[0usize, 2, 100, 100]), rng.below(2), rng.below(2)),
                13 => {
                    let k = rng.below(4);
                    let ls: Vec<String> = (0..k)
                        .map(|_| {
                            if rng.chance(1, 2) && !added.is_empty() {
                                rng.pick(&added).clone()
                            } else {
                                rand_text(&mut rng, 4)
                            }
                        })
                        .collect();
                    added.extend(ls.iter().cloned());
                    format!("crash:{}:{}:{}:{}", rng.pick(&[1usize, 100, 100]), rng.below(2), rng.below(2), enc_texts(&ls))
                }
                14 => "len".to_string(),
                15 | 16 => "walk".to_string(),
                17 => format!("get:{}:{}", rng.below(12), if rng.chance(1, 2) { "F" } else { "R" }),
                k => {
                    let mut t: String = if !added.is_empty() && rng.chance(3, 4) {
                        let l: Vec<char> = rng.pick(&added).chars().collect();
                        if l.is_empty() {
                            String::new()
                        } else {
                            let a = if rng.chance(1, 2) { 0 } else { rng.below(l.len()) };
                            let b = a + 1 + rng.below(l.len() - a);
                            l[a..b].iter().collect()
                        }
                    } else {
                        rand_text(&mut rng, 4)
                    };
                    if rng.chance(1, 3) {
                        t = t
                            .chars()
                            .map(|c| if c.is_ascii_lowercase() { c.to_ascii_uppercase() } else { c.to_ascii_lowercase() })
                            .collect();
                    }
                    if rng.chance(1, 8) {
                        t.push(*rng.pick(&['!', '"', '*', ' ', 'x']));
                    }
                    if k == 23 {
                        format!("hint:{}", enc_text(&t))
                    } else {
                        format!(
                            "{}:{}:{}:{}",
                            if rng.chance(1, 2) { "search" } else { "sw" },
                            enc_text(&t),
                            rng.below(14),
                            if rng.chance(1, 2) { "F" } else { "R" }
                        )
                    }
                }
            };
            req.push(' ');
            req.push_str(&tok);
        }
        req.push_str(" walk");
        sink(req);
    }
}
