//! Targets `direct` and `seg` (property C18, and the non-terminal clause of C13).
//!
//! `direct <v> <script> <term> tok…` — the byte stream (tokens `cp` or `cpxN` = N copies of `cp`,
//! concatenated, valid UTF-8 by construction) is written to the stdin *pipe* of a child process
//! (this binary, hidden subcommand `direct-child`) that calls `Editor::readline` until it reports
//! end-of-file.  `v`: `0` no validator, `1` `MatchingBracketValidator`, `2` scripted validator
//! (`script` = string of verdict digits, the verdict of a text is `script[(Σ code points) mod len]`:
//! `0` Valid(None) `1` Invalid(Some) `2` Invalid(None) `3` Incomplete `4` Err `5` Valid(Some)).
//! `term`: `0` TERM=xterm-256color (path "stdin is not a tty"), `1` TERM=dumb (path "unsupported
//! terminal").  Observation: one token per call: `l<text>`, `eof`, `io`, `other`, `panic`.
//!
//! `seg cp…` — cluster lengths (in characters) of `unicode-segmentation`'s extended graphemes.
use crate::common::*;
use crate::GenCtx;
use rustyline::completion::Completer;
use rustyline::highlight::Highlighter;
use rustyline::hint::Hinter;
use rustyline::history::DefaultHistory;
use rustyline::validate::{MatchingBracketValidator, ValidationContext, ValidationResult, Validator};
use rustyline::{Editor, Helper};
use std::io::{Read, Write};
use std::process::{Command, Stdio};

const MAX_REPEAT: usize = 100_000;

fn parse_stream(toks: &[&str]) -> Option<String> {
    let mut s = String::new();
    for t in toks {
        let (cp, n) = match t.split_once('x') {
            Some((a, b)) => (a, b.parse::<usize>().ok()?),
            None => (*t, 1),
        };
        let digits = |s: &str| !s.is_empty() && s.bytes().all(|b| b.is_ascii_digit());
        if n > MAX_REPEAT || !digits(cp) || !t.split('x').all(digits) {
            return None;
        }
        let c = char::from_u32(cp.parse::<u32>().ok()?)?;
        for _ in 0..n {
            s.push(c);
        }
    }
    Some(s)
}

fn parse_script(s: &str) -> Option<Vec<u8>> {
    if s == "-" {
        return Some(vec![]);
    }
    let v: Vec<u8> = s.bytes().map(|b| b.wrapping_sub(b'0')).collect();
    if v.iter().all(|d| *d <= 5) {
        Some(v)
    } else {
        None
    }
}

// ------------------------------------------------------------------ child

enum Mode {
    Brackets(MatchingBracketValidator),
    Script(Vec<u8>),
}
struct H(Mode);
impl Completer for H {
    type Candidate = String;
}
impl Hinter for H {
    type Hint = String;
}
impl Highlighter for H {}
impl Helper for H {}
impl Validator for H {
    fn validate(&self, ctx: &mut ValidationContext) -> rustyline::Result<ValidationResult> {
        match &self.0 {
            Mode::Brackets(v) => v.validate(ctx),
            Mode::Script(s) => {
                let sum: u64 = ctx.input().chars().map(|c| c as u64).sum();
                match s[(sum % s.len() as u64) as usize] {
                    0 => Ok(ValidationResult::Valid(None)),
                    1 => Ok(ValidationResult::Invalid(Some("m".to_string()))),
                    2 => Ok(ValidationResult::Invalid(None)),
                    3 => Ok(ValidationResult::Incomplete),
                    4 => Err(rustyline::error::ReadlineError::Io(std::io::Error::other("scripted"))),
                    _ => Ok(ValidationResult::Valid(Some("ok".to_string()))),
                }
            }
        }
    }
}

/// `rlharness direct-child <v> <script>`: stdin is the pipe under test; results go to stdout.
pub fn child(args: &[String]) {
    let v = args.first().map(String::as_str).unwrap_or("0");
    let script = args.get(1).and_then(|s| parse_script(s)).unwrap_or_default();
    let mut rl: Editor<H, DefaultHistory> = match Editor::new() {
        Ok(e) => e,
        Err(_) => {
            println!("noeditor");
            return;
        }
    };
    match v {
        "1" => rl.set_helper(Some(H(Mode::Brackets(MatchingBracketValidator::new())))),
        "2" if !script.is_empty() => rl.set_helper(Some(H(Mode::Script(script)))),
        _ => {}
    }
    let mut out = std::io::stdout();
    loop {
        let r = std::panic::catch_unwind(std::panic::AssertUnwindSafe(|| rl.readline("")));
        let (tok, stop) = match r {
            Err(_) => ("panic".to_string(), true),
            Ok(Ok(l)) => (format!("l{}", enc_text(&l)), false),
            Ok(Err(rustyline::error::ReadlineError::Eof)) => ("eof".to_string(), true),
            Ok(Err(rustyline::error::ReadlineError::Io(_))) => ("io".to_string(), false),
            Ok(Err(_)) => ("other".to_string(), false),
        };
        let _ = writeln!(out, "{}", tok);
        let _ = out.flush();
        if stop {
            break;
        }
    }
}

// ------------------------------------------------------------------ exec

fn run_child(v: &str, script: &str, dumb: bool, stream: String) -> Option<String> {
    let exe = std::env::current_exe().ok()?;
    let mut ch = Command::new(exe)
        .arg("direct-child")
        .arg(v)
        .arg(script)
        .env("TERM", if dumb { "dumb" } else { "xterm-256color" })
        .stdin(Stdio::piped())
        .stdout(Stdio::piped())
        .stderr(Stdio::null())
        .spawn()
        .ok()?;
    let mut stdin = ch.stdin.take()?;
    let w = std::thread::spawn(move || {
        let _ = stdin.write_all(stream.as_bytes());
        // dropping `stdin` closes the pipe: end of file for the child
    });
    let mut outp = String::new();
    ch.stdout.take()?.read_to_string(&mut outp).ok()?;
    let _ = w.join();
    let status = ch.wait().ok()?;
    let mut toks: Vec<&str> = outp.split('\n').filter(|l| !l.is_empty()).collect();
    let complete = matches!(toks.last(), Some(&"eof") | Some(&"panic"));
    if !status.success() || !complete {
        // the child died outside `catch_unwind` (abort, stack overflow, …)
        toks.push("panic");
    }
    Some(toks.join(" "))
}

pub fn exec(target: &str, f: &[&str]) -> Option<String> {
    match target {
        "seg" => {
            use unicode_segmentation::UnicodeSegmentation;
            let s = parse_stream(f)?;
            if f.iter().any(|t| t.contains('x')) {
                return None;
            }
            let l: Vec<String> = s.graphemes(true).map(|g| g.chars().count().to_string()).collect();
            Some(if l.is_empty() { "-".to_string() } else { l.join(",") })
        }
        "direct" => {
            if f.len() < 3 {
                return None;
            }
            let script = parse_script(f[1])?;
            match f[0] {
                "0" | "1" => {
                    if f[1] != "-" {
                        return None;
                    }
                }
                "2" => {
                    if script.is_empty() {
                        return None;
                    }
                }
                _ => return None,
            }
            let dumb = dec_bool(f[2])?;
            let stream = parse_stream(&f[3..])?;
            run_child(f[0], f[1], dumb, stream)
        }
        _ => None,
    }
}

// ------------------------------------------------------------------ generators

fn tok(c: char) -> String {
    format!("{}", c as u32)
}

/// alphabet of the segmenter agreement check: DESIGN 2.2 plus backspace and one character of each
/// further class `gcb_class` knows (regional indicators, emoji modifier, VS16, spacing mark,
/// prepend, a second pictograph)
const SEG_EXTRA: &[char] = &[
    '\u{8}', '\u{1F1E6}', '\u{1F1FA}', '\u{1F3FB}', '\u{FE0F}', '\u{0903}', '\u{0600}', '\u{2764}',
];
/// Hangul syllable parts (GB6-8), Indic conjunct parts (GB9c: consonants of two scripts, virama,
/// nukta), ZWNJ, a Hebrew accent, Thai SARA AM
const SEG_EXTRA2: &[char] = &[
    '\u{1100}', '\u{1161}', '\u{11A8}', '\u{AC00}', '\u{AC01}', '\u{0915}', '\u{0937}', '\u{094D}', '\u{093C}',
    '\u{0995}', '\u{09CD}', '\u{200C}', '\u{059A}', '\u{0E33}', '\u{0D4D}', '\u{0D15}',
];

/// a random scalar value from the blocks where the cluster classes live
fn rand_scalar(rng: &mut Rng) -> char {
    loop {
        let (lo, hi) = *rng.pick(&[
            (0x0000u32, 0x0FFFu32),
            (0x0900, 0x0DFF),
            (0x1000, 0x2FFF),
            (0xA800, 0xD7FF),
            (0x1F000, 0x1FAFF),
            (0x11000, 0x11FFF),
            (0xE0000, 0xE01EF),
            (0xFE00, 0xFFFF),
        ]);
        if let Some(c) = char::from_u32(lo + rng.below((hi - lo + 1) as usize) as u32) {
            return c;
        }
    }
}

pub fn gen_seg(ctx: &GenCtx, sink: &mut dyn FnMut(String)) {
    // exhaustive over the DESIGN alphabet
    let maxlen = if ctx.thorough { 5 } else { 4 };
    let al: Vec<String> = ALPHABET.iter().map(|c| tok(*c)).collect();
    for len in 0..=maxlen {
        let mut idx = vec![0usize; len];
        'outer: loop {
            let mut req = String::from("seg");
            for &i in &idx {
                req.push(' ');
                req.push_str(&al[i]);
            }
            sink(req);
            let mut k = len;
            loop {
                if k == 0 {
                    break 'outer;
                }
                k -= 1;
                idx[k] += 1;
                if idx[k] < al.len() {
                    break;
                }
                idx[k] = 0;
            }
        }
    }
    // exhaustive up to 3 over the class representatives (emoji sequences, flags, …)
    let mut al2: Vec<String> = SEG_EXTRA.iter().map(|c| tok(*c)).collect();
    for c in ['a', '\n', '\r', '😀', '\u{0301}', '\u{200D}'] {
        al2.push(tok(c));
    }
    let maxlen2 = if ctx.thorough { 5 } else { 4 };
    // the same over Hangul / Indic conjunct parts, with the joiners and an extender
    let mut al3: Vec<String> = SEG_EXTRA2.iter().map(|c| tok(*c)).collect();
    for c in ['a', '\u{0301}', '\u{200D}'] {
        al3.push(tok(c));
    }
    for (al2, maxlen2) in [(al2, maxlen2), (al3, if ctx.thorough { 4 } else { 3 })] {
    for len in 1..=maxlen2 {
        let mut idx = vec![0usize; len];
        'outer2: loop {
            let mut req = String::from("seg");
            for &i in &idx {
                req.push(' ');
                req.push_str(&al2[i]);
            }
            sink(req);
            let mut k = len;
            loop {
                if k == 0 {
                    break 'outer2;
                }
                k -= 1;
                idx[k] += 1;
                if idx[k] < al2.len() {
                    break;
                }
                idx[k] = 0;
            }
        }
    }
    }
    // random longer strings over both
    let mut rng = Rng::new(ctx.seed ^ 0x5E6);
    let mut all: Vec<char> = ALPHABET.to_vec();
    all.extend_from_slice(SEG_EXTRA);
    let n = if ctx.thorough { 200_000 } else { 20_000 };
    for _ in 0..n {
        let len = 5 + rng.below(12);
        let mut req = String::from("seg");
        for _ in 0..len {
            req.push(' ');
            // combining marks, joiners and pictographs are over-represented
            let c = if rng.chance(1, 3) {
                *rng.pick(&['\u{0301}', '\u{200D}', '😀', '\u{2764}', '\u{FE0F}', '\u{1F3FB}', '\u{1F1E6}', '\r', '\n'])
            } else if rng.chance(1, 4) {
                *rng.pick(SEG_EXTRA2)
            } else if rng.chance(1, 4) {
                rand_scalar(&mut rng)
            } else {
                *rng.pick(&all)
            };
            req.push_str(&tok(c));
        }
        sink(req);
    }
}

const SMALL: &[char] = &['a', '\n', '\r', '\u{8}', '(', ')'];
const RICH: &[char] = &[
    'a', 'b', 'Z', ' ', '(', ')', '[', ']', '{', '}', '\n', '\n', '\n', '\r', '\u{8}', '\u{8}', '\u{8}', 'é', '漢',
    '😀', '\u{0301}', '\u{200D}', 'e', '\u{2764}', '\u{FE0F}', '\u{1F1E6}',
    // spacing marks and a prepend character: clusters that exist only under the EXTENDED rules
    // (seeded change C18-m8: `graphemes(input, false)` in apply_backspace_direct)
    '\u{0915}', '\u{093E}', '\u{0903}', '\u{0E33}', '\u{0600}',
];

fn rand_script(rng: &mut Rng) -> String {
    let n = 2 + rng.below(6);
    // verdict 0 (valid) and 3 (incomplete) dominate; errors are rare
    (0..n).map(|_| *rng.pick(&['0', '0', '3', '3', '3', '1', '2', '5', '4'])).collect()
}

pub fn gen_direct(ctx: &GenCtx, sink: &mut dyn FnMut(String)) {
    // regression seeds: D12 (cluster of 261 bytes, then backspace) and neighbours
    for k in [1usize, 126, 127, 128, 130, 200, 255, 256] {
        for v in ["0 -", "1 -"] {
            sink(format!("direct {} 0 97 98 101 769x{} 8 90 10", v, k));
            sink(format!("direct {} 0 40 101 769x{} 10 8 8 41 10", v, k));
        }
    }
    sink("direct 0 - 0 97 128512 8205x300 8 8 98".to_string());
    sink("direct 1 - 1 40 91 41 10 8 10 10 13 10 93 41".to_string()); // the repo's own test literal
    // D25: the text kept after an Invalid verdict ends in CR and the next line is empty
    sink("direct 2 01 0 13 13 10 10".to_string());
    sink("direct 1 - 0 91 41 13 13 10 10 8 10 93 10".to_string());
    sink("direct 2 1110 1 97 13 13 10 10 98 10".to_string());
    // exhaustive: every stream of length <= 3 (thorough: 4) over {a LF CR BS ( )}, without and with
    // the bracket validator, alternating the two non-terminal paths
    let maxlen = if ctx.thorough { 4 } else { 3 };
    let al: Vec<String> = SMALL.iter().map(|c| tok(*c)).collect();
    let mut alt = 0;
    for len in 0..=maxlen {
        let mut idx = vec![0usize; len];
        'outer: loop {
            for v in ["0 -", "1 -", "2 30"] {
                alt += 1;
                let mut req = format!("direct {} {}", v, alt % 2);
                for &i in &idx {
                    req.push(' ');
                    req.push_str(&al[i]);
                }
                sink(req);
            }
            let mut k = len;
            loop {
                if k == 0 {
                    break 'outer;
                }
                k -= 1;
                idx[k] += 1;
                if idx[k] < al.len() {
                    break;
                }
                idx[k] = 0;
            }
        }
    }
    // structured: streams built line by line (contents with nested brackets, backspaces, lone CRs,
    // multi-byte characters; terminators LF / CRLF / CR CR LF / none for the last line), so that the
    // bracket validator accumulates several lines and then accepts, and kept text often ends in CR
    let mut rng = Rng::new(ctx.seed ^ 0x5C18);
    let ns = if ctx.thorough { 40_000 } else { 2_400 };
    for _ in 0..ns {
        let head = match rng.below(10) {
            0 | 1 => "0 -".to_string(),
            2..=6 => "1 -".to_string(),
            _ => format!("2 {}", rand_script(&mut rng)),
        };
        let mut req = format!("direct {} {}", head, rng.below(2));
        let nlines = 1 + rng.below(6);
        let mut open: Vec<char> = vec![];
        for li in 0..nlines {
            let k = rng.below(6);
            for _ in 0..k {
                let c = match rng.below(16) {
                    0..=2 => {
                        let o = *rng.pick(&['(', '[', '{']);
                        open.push(o);
                        o
                    }
                    3..=5 => match open.pop() {
                        // mostly the matching closer, sometimes a wrong one
                        Some(o) if !rng.chance(1, 8) => match o {
                            '(' => ')',
                            '[' => ']',
                            _ => '}',
                        },
                        _ => *rng.pick(&[')', ']', '}']),
                    },
                    6 | 7 => '\u{8}',
                    8 => '\r',
                    9 => 'é',
                    10 => '漢',
                    11 => '\u{0301}',
                    12 => '😀',
                    13 => '\u{200D}',
                    _ => *rng.pick(&['a', 'b', ' ', 'e']),
                };
                req.push(' ');
                req.push_str(&tok(c));
            }
            let last = li + 1 == nlines;
            match rng.below(20) {
                0..=8 => req.push_str(" 10"),
                9..=15 => req.push_str(" 13 10"),
                16 | 17 => req.push_str(" 13 13 10"),
                _ => {
                    if !last {
                        req.push_str(" 10")
                    }
                }
            }
        }
        sink(req);
    }
    // random streams over the rich alphabet
    let mut rng = Rng::new(ctx.seed ^ 0xC18);
    let n = if ctx.thorough { 40_000 } else { 1_600 };
    for _ in 0..n {
        let head = match rng.below(5) {
            0 | 1 => "0 -".to_string(),
            2 | 3 => "1 -".to_string(),
            _ => format!("2 {}", rand_script(&mut rng)),
        };
        let mut req = format!("direct {} {}", head, rng.below(2));
        let len = rng.below(if ctx.thorough { 60 } else { 28 });
        for _ in 0..len {
            req.push(' ');
            if rng.chance(1, 12) {
                // a long cluster: base + many combining marks / joiners (up to ~800 bytes)
                let reps = *rng.pick(&[2usize, 5, 60, 126, 127, 128, 129, 200, 400]);
                req.push_str(&format!("101 {}x{}", if rng.chance(3, 4) { 769 } else { 8205 }, reps));
            } else {
                req.push_str(&tok(*rng.pick(RICH)));
            }
        }
        if rng.chance(2, 3) {
            req.push_str(" 10");
        }
        sink(req);
    }
}
