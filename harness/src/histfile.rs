//! Target `hf`: the history *file* (`FileHistory::{save, append, load, iter}`) on real temporary
//! files, for properties C10 (round trip) and C12 (torn / foreign files).
//!
//! request: `hf <max> <ignoreSpace> <ignoreDups> op…` with ops
//!   `e:<text>` add            -> `0|1`
//!   `s` save, `a` append      -> status (`ok|invalid-data|io|other|panic`)
//!   `N` new session (fresh history, same settings)              -> `u`
//!   `L` new session that loads the file, `l` load into the live history -> status
//!   `r` raw file bytes        -> `m` (missing) | `e` (empty) | atoms `c<cp>` / `x<byte>` joined by `,`
//!   `d` entries               -> text list
//!   `x` remove the file       -> `u`
//!   `c:<k>` truncate the file to its first k bytes (no-op if k >= size) -> `u`
//!   `p:<atoms>` replace the file by these bytes                  -> `u`
//! Outside events (`x`, `c`, `p`) give the file a distinct, old modification time so that a live
//! handle deterministically sees "changed since I last looked".
use crate::common::*;
use crate::GenCtx;
use rustyline::error::ReadlineError;
use rustyline::history::{FileHistory, History};
use rustyline::Config;
use std::fs::{self, OpenOptions};
use std::panic::{catch_unwind, AssertUnwindSafe};
use std::path::{Path, PathBuf};
use std::sync::atomic::{AtomicU64, Ordering};
use std::time::{Duration, SystemTime};

static COUNTER: AtomicU64 = AtomicU64::new(0);

fn tmp_path() -> PathBuf {
    let n = COUNTER.fetch_add(1, Ordering::Relaxed);
    std::env::temp_dir().join(format!("rlh-{}-hf-{}", std::process::id(), n))
}

fn atoms_of(bytes: &[u8]) -> String {
    if bytes.is_empty() {
        return "e".to_string();
    }
    let mut out: Vec<String> = vec![];
    for chunk in bytes.utf8_chunks() {
        for c in chunk.valid().chars() {
            out.push(format!("c{}", c as u32));
        }
        for b in chunk.invalid() {
            out.push(format!("x{}", b));
        }
    }
    out.join(",")
}

/// bytes of an atom list; `None` if it does not parse or is not the canonical chunking of its bytes
fn bytes_of_atoms(s: &str) -> Option<Vec<u8>> {
    let mut bytes = vec![];
    if s != "e" {
        for a in s.split(',') {
            let (k, n) = a.split_at(a.char_indices().nth(1)?.0);
            match k {
                "c" => {
                    let c = char::from_u32(n.parse().ok()?)?;
                    let mut buf = [0u8; 4];
                    bytes.extend_from_slice(c.encode_utf8(&mut buf).as_bytes());
                }
                "x" => bytes.push(n.parse::<u8>().ok()?),
                _ => return None,
            }
        }
    }
    if atoms_of(&bytes) == s {
        Some(bytes)
    } else {
        None
    }
}

fn status(r: std::thread::Result<rustyline::Result<()>>) -> &'static str {
    match r {
        Err(_) => "panic",
        Ok(Ok(())) => "ok",
        Ok(Err(ReadlineError::Io(e))) => {
            if e.kind() == std::io::ErrorKind::InvalidData {
                "invalid-data"
            } else {
                "io"
            }
        }
        Ok(Err(_)) => "other",
    }
}

fn touch_old(path: &Path) {
    let n = COUNTER.fetch_add(1, Ordering::Relaxed);
    if let Ok(f) = OpenOptions::new().write(true).open(path) {
        let _ = f.set_modified(SystemTime::UNIX_EPOCH + Duration::from_secs(1_000_000 + n));
    }
}

fn run(cfg: Config, path: &Path, ops: &[&str]) -> Option<String> {
    let mut h = FileHistory::with_config(cfg);
    let mut obs: Vec<String> = vec![];
    for op in ops {
        let p: Vec<&str> = op.split(':').collect();
        let o: String = match p.as_slice() {
            ["e", t] => enc_bool(h.add(&dec_text(t)?).ok()?).to_string(),
            ["s"] => status(catch_unwind(AssertUnwindSafe(|| h.save(path)))).to_string(),
            ["a"] => status(catch_unwind(AssertUnwindSafe(|| h.append(path)))).to_string(),
            ["N"] => {
                h = FileHistory::with_config(cfg);
                "u".to_string()
            }
            ["L"] => {
                h = FileHistory::with_config(cfg);
                status(catch_unwind(AssertUnwindSafe(|| h.load(path)))).to_string()
            }
            ["l"] => status(catch_unwind(AssertUnwindSafe(|| h.load(path)))).to_string(),
            ["r"] => match fs::read(path) {
                Ok(b) => atoms_of(&b),
                Err(_) => "m".to_string(),
            },
            ["d"] => enc_texts(&h.iter().cloned().collect::<Vec<String>>()),
            ["x"] => {
                let _ = fs::remove_file(path);
                "u".to_string()
            }
            ["c", k] => {
                let k: u64 = k.parse().ok()?;
                if let Ok(md) = fs::metadata(path) {
                    if k < md.len() {
                        let f = OpenOptions::new().write(true).open(path).ok()?;
                        f.set_len(k).ok()?;
                        drop(f);
                        touch_old(path);
                    }
                }
                "u".to_string()
            }
            ["p", a] => {
                fs::write(path, bytes_of_atoms(a)?).ok()?;
                touch_old(path);
                "u".to_string()
            }
            _ => return None,
        };
        obs.push(o);
    }
    Some(obs.join(" "))
}

pub fn exec(f: &[&str]) -> Option<String> {
    if f.len() < 3 {
        return None;
    }
    let cfg = Config::builder()
        .max_history_size(f[0].parse().ok()?)
        .ok()?
        .history_ignore_space(dec_bool(f[1])?)
        .history_ignore_dups(dec_bool(f[2])?)
        .ok()?
        .build();
    let path = tmp_path();
    let _ = fs::remove_file(&path);
    let r = run(cfg, &path, &f[3..]);
    let _ = fs::remove_file(&path);
    r
}

// ------------------------------------------------------------------------------------ generators

/// the alphabet of the property: line break, carriage return, backslash, letters that look like
/// an escape, the header characters, blank, multi-byte characters
const ALPHA: &[char] = &['\n', '\r', '\\', 'n', '#', 'V', '2', ' ', 'é', 'a'];
const ALPHA_CUT: &[char] = &['\n', '\r', '\\', 'n', 'é', ' '];
const CONFIGS: &[(usize, u8, u8)] = &[(100, 0, 0), (100, 1, 1), (2, 0, 1), (1, 0, 0), (3, 1, 0), (2, 0, 0)];

/// all strings over `alpha` of length <= n
fn words(alpha: &[char], n: usize) -> Vec<String> {
    let mut all = vec![String::new()];
    let mut last = vec![String::new()];
    for _ in 0..n {
        let mut next = vec![];
        for w in &last {
            for c in alpha {
                let mut s = w.clone();
                s.push(*c);
                next.push(s);
            }
        }
        all.extend(next.iter().cloned());
        last = next;
    }
    all
}

fn adds(es: &[String]) -> String {
    es.iter().map(|e| format!("e:{}", enc_text(e))).collect::<Vec<_>>().join(" ")
}

fn join(parts: &[&str]) -> String {
    parts.iter().filter(|p| !p.is_empty()).cloned().collect::<Vec<_>>().join(" ")
}

/// the write scenarios: save, append to a missing file, append to an existing file from the same
/// session / from a new session that loaded / from a new session that did not load, cycles
const NTEMPLATES: usize = 7;
fn write_scenario(t: usize, es: &[String]) -> String {
    let k = es.len() / 2;
    let (b1, b2) = (adds(&es[..k]), adds(&es[k..]));
    let all = adds(es);
    match t % NTEMPLATES {
        0 => join(&[&all, "s"]),
        1 => join(&[&all, "a"]),
        2 => join(&[&b1, "s", &b2, "a"]),
        3 => join(&[&b1, "s", "L", &b2, "a"]),
        4 => join(&[&b1, "a", "N", &b2, "a"]),
        5 => join(&[&b1, "s", "r", "L", "d", &b2, "s", "r", "L", "d", "L", "s"]),
        _ => join(&[&b1, "a", "L", &b2, "a", "d", "L", &b1, "a"]),
    }
}

fn head(cfg: (usize, u8, u8)) -> String {
    format!("hf {} {} {}", cfg.0, cfg.1, cfg.2)
}

/// size in bytes of the file a request leaves behind (the request is run here to find out)
fn file_size_after(req: &str) -> usize {
    let full = format!("{} r", req);
    let f: Vec<&str> = full.split(' ').collect();
    let out = catch_unwind(AssertUnwindSafe(|| exec(&f[1..]))).ok().flatten().unwrap_or_default();
    match out.rsplit(' ').next() {
        Some("m") | Some("e") | None => 0,
        Some(a) => bytes_of_atoms(a).map_or(0, |b| b.len()),
    }
}

fn random_entry(rng: &mut Rng, maxlen: usize) -> String {
    let n = rng.below(maxlen + 1);
    (0..n)
        .map(|_| if rng.chance(2, 3) { *rng.pick(ALPHA) } else { *rng.pick(ALPHABET) })
        .collect()
}

fn random_bytes(rng: &mut Rng, maxlen: usize) -> Vec<u8> {
    const B: &[u8] = &[
        b'#', b'V', b'2', b'\n', b'\r', b'\\', b'n', b'r', b'a', b' ', 0xC3, 0xA9, 0xE6, 0xBC, 0xA2, 0xFF, 0x80,
        0xF0, 0x9F, 0x98,
    ];
    let mut v: Vec<u8> = vec![];
    match rng.below(4) {
        0 => v.extend_from_slice(b"#V2\n"),
        1 => v.extend_from_slice(b"#V2\r\n"),
        2 => v.extend_from_slice(if rng.chance(1, 2) { b"#V2x" } else { b"#V2" }),
        _ => {}
    }
    let n = rng.below(maxlen + 1);
    for _ in 0..n {
        v.push(*rng.pick(B));
    }
    v
}

/// generator for C10: round trips (exhaustive + random) and legacy files
pub fn gen10(ctx: &GenCtx, sink: &mut dyn FnMut(String)) {
    let mut rng = Rng::new(ctx.seed ^ 0xC10);

    // ---- C10, exhaustive: entry lists over the property's alphabet
    let w2 = words(ALPHA, 2);
    let w1 = words(ALPHA, 1);
    let mut n = 0usize;
    let mut emit_rt = |es: &[String], sink: &mut dyn FnMut(String), all_templates: bool| {
        let ts: Vec<usize> = if all_templates { (0..NTEMPLATES).collect() } else { vec![n] };
        for t in ts {
            let cfg = CONFIGS[(n / NTEMPLATES + t) % CONFIGS.len()];
            sink(join(&[&head(cfg), &write_scenario(t, es), "r", "L", "d"]));
        }
        n += 1;
    };
    // single entries of <= 3 characters
    for e in words(ALPHA, 3) {
        emit_rt(&[e], sink, ctx.thorough);
    }
    // lists of 2 entries of <= 2 characters
    for a in &w2 {
        for b in &w2 {
            emit_rt(&[a.clone(), b.clone()], sink, ctx.thorough);
        }
    }
    // lists of 3 entries of <= 1 character
    for a in &w1 {
        for b in &w1 {
            for c in &w1 {
                emit_rt(&[a.clone(), b.clone(), c.clone()], sink, true);
            }
        }
    }

    // ---- C10, random: long entries, several sessions, small limits
    let nrand = if ctx.thorough { 60_000 } else { 4_000 };
    for _ in 0..nrand {
        let cfg = (*rng.pick(&[1usize, 2, 3, 5, 100]), rng.below(2) as u8, rng.below(2) as u8);
        let mut req = head(cfg);
        let sessions = 1 + rng.below(4);
        for s in 0..sessions {
            if s > 0 || rng.chance(1, 3) {
                req.push_str(if rng.chance(3, 4) { " L" } else { " N" });
            }
            let writes = 1 + rng.below(2);
            for _ in 0..writes {
                let k = rng.below(5);
                for _ in 0..k {
                    let maxlen = if rng.chance(1, 8) { 40 } else { 5 };
                    req.push_str(&format!(" e:{}", enc_text(&random_entry(&mut rng, maxlen))));
                }
                req.push_str(if rng.chance(1, 2) { " s" } else { " a" });
                if rng.chance(1, 2) {
                    req.push_str(" r");
                }
            }
            if rng.chance(1, 3) {
                req.push_str(" d");
            }
        }
        req.push_str(" r L d");
        sink(req);
    }

    // ---- C10, legacy files: lines without line breaks / carriage returns, first line not `#V2`
    let nleg = if ctx.thorough { 20_000 } else { 2_000 };
    const LEG: &[char] = &['\\', 'n', '#', 'V', '2', ' ', 'é', 'a', '\t', '漢'];
    for i in 0..nleg {
        let cfg = (*rng.pick(&[2usize, 3, 100]), rng.below(2) as u8, rng.below(2) as u8);
        let nl = rng.below(5);
        let mut text = String::new();
        for j in 0..nl {
            let k = rng.below(5);
            let mut line: String = (0..k).map(|_| *rng.pick(LEG)).collect();
            if j > 0 && rng.chance(1, 10) {
                line = "#V2".to_string();
            }
            if j == 0 && line == "#V2" {
                line.push('a');
            }
            text.push_str(&line);
            let crlf = i % 7 == 3; // a CRLF stream now and then (the oracle abstains, the model does not)
            if j + 1 < nl || rng.chance(3, 4) {
                text.push_str(if crlf { "\r\n" } else { "\n" });
            }
        }
        let tail = if rng.chance(1, 2) {
            format!(" e:{} a r L d", enc_text(&random_entry(&mut rng, 4)))
        } else {
            String::new()
        };
        sink(format!("{} p:{} L d{}", head(cfg), atoms_of(text.as_bytes()), tail));
    }

}

/// generator for C12: every cut offset of written files; foreign bytes
pub fn gen12(ctx: &GenCtx, sink: &mut dyn FnMut(String)) {
    let mut rng = Rng::new(ctx.seed ^ 0xC12);

    // ---- C12, torn files: every cut offset of every file written by the scenarios
    let emit_cuts = |es: &[String], t: usize, cfg: (usize, u8, u8), sink: &mut dyn FnMut(String)| {
        let base = join(&[&head(cfg), &write_scenario(t, es)]);
        let len = file_size_after(&base);
        for k in 0..len {
            sink(format!("{} r c:{} r L d e:122,122 d", base, k));
        }
    };
    let wc = words(ALPHA_CUT, 2);
    let mut m = 0usize;
    for a in &wc {
        for b in &wc {
            if a.is_empty() && b.is_empty() {
                continue;
            }
            let ts: Vec<usize> = if ctx.thorough { (0..5).collect() } else { vec![m % 5] };
            for t in ts {
                emit_cuts(&[a.clone(), b.clone()], t, CONFIGS[(m / 5) % CONFIGS.len()], sink);
            }
            m += 1;
        }
    }
    let ncut = if ctx.thorough { 3_000 } else { 150 };
    for i in 0..ncut {
        let cfg = (*rng.pick(&[2usize, 3, 5, 100]), rng.below(2) as u8, rng.below(2) as u8);
        let k = 1 + rng.below(5);
        let es: Vec<String> = (0..k).map(|_| random_entry(&mut rng, if i % 5 == 0 { 20 } else { 6 })).collect();
        emit_cuts(&es, rng.below(NTEMPLATES), cfg, sink);
    }

    // ---- a live session meets a file that was cut behind its back: its next append must re-read
    // (modification time differs), cope with the torn file, and leave a loadable file
    let nlive = if ctx.thorough { 20_000 } else { 1_500 };
    for _ in 0..nlive {
        let cfg = (*rng.pick(&[2usize, 3, 5, 100]), rng.below(2) as u8, rng.below(2) as u8);
        let k = 1 + rng.below(3);
        let es: Vec<String> = (0..k).map(|_| random_entry(&mut rng, 5)).collect();
        let base = join(&[&head(cfg), &adds(&es), if rng.chance(1, 2) { "s" } else { "a" }]);
        let len = file_size_after(&base);
        let cut = rng.below(len + 2);
        let more: Vec<String> = (0..1 + rng.below(2)).map(|_| random_entry(&mut rng, 4)).collect();
        let ext = match rng.below(4) {
            0 => "x".to_string(),
            _ => format!("c:{}", cut),
        };
        sink(format!("{} r {} r {} a r d L d", base, ext, adds(&more)));
    }

    // ---- C12, foreign bytes
    // exhaustive: every byte string of length <= 3 over a small byte alphabet after each header variant
    const EB: &[u8] = &[b'\n', b'\r', b'\\', b'n', b'a', 0xC3, 0xA9, 0xFF];
    let heads: &[&[u8]] = &[b"#V2\n", b"", b"#V2\r\n", b"#V2"];
    let depth = if ctx.thorough { 4 } else { 3 };
    let mut idx: Vec<usize> = vec![];
    loop {
        for (hi, hd) in heads.iter().enumerate() {
            let mut v = hd.to_vec();
            v.extend(idx.iter().map(|&i| EB[i]));
            let cfg = CONFIGS[(hi + idx.len()) % CONFIGS.len()];
            sink(format!("{} p:{} r L d e:122 d", head(cfg), atoms_of(&v)));
        }
        // next
        let mut k = idx.len();
        loop {
            if k == 0 {
                idx = vec![0; idx.len() + 1];
                break;
            }
            k -= 1;
            idx[k] += 1;
            if idx[k] < EB.len() {
                break;
            }
            idx[k] = 0;
        }
        if idx.len() > depth {
            break;
        }
    }
    let nraw = if ctx.thorough { 300_000 } else { 20_000 };
    for _ in 0..nraw {
        let cfg = (*rng.pick(&[0usize, 1, 2, 3, 100]), rng.below(2) as u8, rng.below(2) as u8);
        let mut req = head(cfg);
        // sometimes the history already holds entries, so "what was loaded before stays usable" is visible
        let pre = if rng.chance(1, 2) { rng.below(3) } else { 0 };
        for _ in 0..pre {
            req.push_str(&format!(" e:{}", enc_text(&random_entry(&mut rng, 3))));
        }
        let bytes = random_bytes(&mut rng, 14);
        req.push_str(&format!(" p:{} r {} d e:122 d", atoms_of(&bytes), if pre > 0 || rng.chance(1, 2) { "l" } else { "L" }));
        if rng.chance(1, 3) {
            req.push_str(if rng.chance(1, 2) { " a r L d" } else { " s r L d" });
        }
        sink(req);
    }
}
