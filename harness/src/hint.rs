//! Target `hint`: `rustyline::hint::HistoryHinter` through the public API
//! (`Context::new(&history)` + `Hinter::hint`).
use crate::common::*;
use crate::GenCtx;
use rustyline::hint::{Hinter, HistoryHinter};
use rustyline::history::{FileHistory, History, MemHistory};
use rustyline::{Config, Context};

fn run<H: History>(h: &mut H, line: &str, pos: usize, entries: &[&str]) -> Option<String> {
    for e in entries {
        h.add(&dec_text(e)?).ok()?;
    }
    let ctx = Context::new(&*h);
    Some(match HistoryHinter::new().hint(line, pos, &ctx) {
        None => "n".to_string(),
        Some(s) => format!("s{}", enc_text(&s)),
    })
}

/// request: `hint <mem|file> <max> <ignoreSpace> <ignoreDups> <line> <pos> entry…`
pub fn exec(f: &[&str]) -> Option<String> {
    if f.len() < 6 {
        return None;
    }
    let cfg = Config::builder()
        .max_history_size(f[1].parse().ok()?)
        .ok()?
        .history_ignore_space(dec_bool(f[2])?)
        .history_ignore_dups(dec_bool(f[3])?)
        .ok()?
        .build();
    let line = dec_text(f[4])?;
    let pos: usize = f[5].parse().ok()?;
    match f[0] {
        "mem" => run(&mut MemHistory::with_config(cfg), &line, pos, &f[6..]),
        "file" => run(&mut FileHistory::with_config(cfg), &line, pos, &f[6..]),
        _ => None,
    }
}

/// all texts over `alpha` of length <= n (the empty text first)
fn texts(alpha: &[char], n: usize) -> Vec<String> {
    let mut all = vec![String::new()];
    let mut last = vec![String::new()];
    for _ in 0..n {
        let mut next = vec![];
        for t in &last {
            for c in alpha {
                let mut s = t.clone();
                s.push(*c);
                next.push(s);
            }
        }
        all.extend(next.iter().cloned());
        last = next;
    }
    all
}

/// all lists over `pool` of length exactly n
fn lists(pool: &[String], n: usize) -> Vec<Vec<String>> {
    let mut out: Vec<Vec<String>> = vec![vec![]];
    for _ in 0..n {
        let mut next = vec![];
        for l in &out {
            for p in pool {
                let mut l2 = l.clone();
                l2.push(p.clone());
                next.push(l2);
            }
        }
        out = next;
    }
    out
}

const CFGS: &[(usize, u8, u8)] = &[(100, 0, 0), (100, 0, 1), (2, 0, 0), (3, 1, 1)];

fn req(kind: usize, cfg: (usize, u8, u8), line: &str, pos: usize, es: &[String]) -> String {
    let mut r = format!(
        "hint {} {} {} {} {} {}",
        if kind % 2 == 0 { "mem" } else { "file" },
        cfg.0,
        cfg.1,
        cfg.2,
        enc_text(line),
        pos
    );
    for e in es {
        r.push(' ');
        r.push_str(&enc_text(e));
    }
    r
}

pub fn gen(ctx: &GenCtx, sink: &mut dyn FnMut(String)) {
    let alpha = ['a', 'b', 'é'];
    // exhaustive: entry lists of length <= 2 over every text of length <= 2 (thorough: <= 3),
    // lists of length 3 and 4 over a pool of overlapping prefixes; every line of length <= 2 and
    // two longer ones; cursor at the end of the line; every 4th case also with the cursor elsewhere
    // (before the end, past the end, inside a character). quick: one configuration per case in
    // rotation; thorough: all four.
    let pool2 = texts(&alpha, if ctx.thorough { 3 } else { 2 });
    let pool4: Vec<String> = ["a", "ab", "aé", "é", "éa"].iter().map(|s| s.to_string()).collect();
    let mut all_lists: Vec<Vec<String>> = vec![];
    for n in 0..=2 {
        all_lists.extend(lists(&pool2, n));
    }
    for n in 3..=4 {
        all_lists.extend(lists(&pool4, n));
    }
    let mut lines = texts(&alpha, 2);
    lines.push("abé".to_string());
    lines.push("éab".to_string());
    let mut k: usize = 0;
    for es in &all_lists {
        for line in &lines {
            k += 1;
            let cfgs: Vec<(usize, u8, u8)> =
                if ctx.thorough { CFGS.to_vec() } else { vec![CFGS[k % CFGS.len()]] };
            for cfg in cfgs {
                sink(req(k / 3, cfg, line, line.len(), es));
                if k % 4 == 0 {
                    for pos in [0, line.len().saturating_sub(1), line.len() + 1, line.len() + 2] {
                        if pos != line.len() {
                            sink(req(k / 3, cfg, line, pos, es));
                        }
                    }
                }
            }
        }
    }
    // random: longer lists over a richer alphabet (1-4 byte characters, blank-led entries for
    // ignore_space, repeated entries for ignore_dups, small limits for eviction); the line is mostly
    // a character-prefix of an entry, the cursor mostly at its end
    let mut rng = Rng::new(ctx.seed ^ 0xC09_4177);
    let nrand = if ctx.thorough { 120_000 } else { 5_000 };
    let chars = ['a', 'b', ' ', 'é', '漢', '😀', '\n'];
    for i in 0..nrand {
        let n = rng.below(if ctx.thorough { 12 } else { 8 });
        let mut es: Vec<String> = vec![];
        for _ in 0..n {
            let e: String = if !es.is_empty() && rng.chance(1, 4) {
                let base = rng.pick(&es).clone();
                if rng.chance(1, 2) {
                    base
                } else {
                    let mut b = base;
                    b.push(*rng.pick(&chars));
                    b
                }
            } else {
                let k = rng.below(5);
                (0..k).map(|_| *rng.pick(&chars)).collect()
            };
            es.push(e);
        }
        let line: String = if !es.is_empty() && rng.chance(4, 5) {
            let l: Vec<char> = rng.pick(&es).chars().collect();
            let b = rng.below(l.len() + 1);
            l[..b].iter().collect()
        } else {
            let k = rng.below(4);
            (0..k).map(|_| *rng.pick(&chars)).collect()
        };
        let pos = if rng.chance(4, 5) { line.len() } else { rng.below(line.len() + 4) };
        let cfg = (*rng.pick(&[0usize, 1, 2, 3, 5, 100]), rng.below(2) as u8, rng.below(2) as u8);
        sink(req(i, cfg, &line, pos, &es));
    }
}
