//! Target `raw` (property C16): what `Editor::readline` does to the terminal's line settings.
//!
//! The real editor runs on a pseudo-terminal whose slave is fd 0/1 (see `pty.rs`); the harness
//! thread reads the slave's termios with `tcgetattr` before the read, while the reader is blocked
//! waiting for a key (this observes what `enable_raw_mode` set) and after the read returned, and
//! scans everything the editor wrote for the bracketed-paste switches.
//!
//! request: `raw <mode e|v> <flags> <termios> <helper> tok…`
//!   flags   : `-` or letters: B bracketed paste off, s enable_signals
//!   termios : `iflag:oflag:cflag:lflag:line:cc:ispeed:ospeed` (hex; cc = 32 bytes) — installed on the
//!             slave with tcsetattr(TCSANOW) before the first read
//!   helper  : as for target `ed` (scripted validator: verdict `e` = Err, `p` = panic)
//!   tok     : hex bytes written to the terminal in one go (one key press), or `//` = "the next
//!             tokens belong to the next read on the same editor" (a read that ended early
//!             discards the rest of its tokens); `=<termios>` as the first token of a read = the
//!             application installs these settings before that read
//! observation: per read the tokens `b=<termios> d=<termios>[|<termios>…] a=<termios|gone>
//!   p=<paste switches written, e.g. hl; - if none> r=<outcome>`; reads separated by `//`.
//!   `d` lists the distinct consecutive samples taken each time the reader was blocked.
use crate::common::*;
use crate::ed::{hex, outcome_of, parse_helper, unhex};
use crate::pty::*;
use crate::GenCtx;
use rustyline::history::DefaultHistory;
use rustyline::{Config, EditMode, Editor};
use std::sync::mpsc;
use std::sync::{Arc, Mutex};
use std::time::Duration;

pub const NCC: usize = 32;

#[derive(Clone, PartialEq, Eq, Debug)]
pub struct Tio {
    pub iflag: u32,
    pub oflag: u32,
    pub cflag: u32,
    pub lflag: u32,
    pub line: u8,
    pub cc: [u8; NCC],
    pub ispeed: u32,
    pub ospeed: u32,
}

impl Tio {
    pub fn enc(&self) -> String {
        format!(
            "{:x}:{:x}:{:x}:{:x}:{:x}:{}:{:x}:{:x}",
            self.iflag,
            self.oflag,
            self.cflag,
            self.lflag,
            self.line,
            hex(&self.cc),
            self.ispeed,
            self.ospeed
        )
    }

    pub fn dec(s: &str) -> Option<Tio> {
        let p: Vec<&str> = s.split(':').collect();
        if p.len() != 8 {
            return None;
        }
        let h = |x: &str| -> Option<u32> {
            // canonical lower-case hex without leading zeros, so that both sides reject the same strings
            let v = u32::from_str_radix(x, 16).ok()?;
            if format!("{:x}", v) == x {
                Some(v)
            } else {
                None
            }
        };
        let ccv = unhex(p[5])?;
        if ccv.len() != NCC || hex(&ccv) != p[5] {
            return None;
        }
        let mut cc = [0u8; NCC];
        cc.copy_from_slice(&ccv);
        let line = h(p[4])?;
        if line > 255 {
            return None;
        }
        Some(Tio {
            iflag: h(p[0])?,
            oflag: h(p[1])?,
            cflag: h(p[2])?,
            lflag: h(p[3])?,
            line: line as u8,
            cc,
            ispeed: h(p[6])?,
            ospeed: h(p[7])?,
        })
    }

    fn from_libc(t: &libc::termios) -> Tio {
        let mut cc = [0u8; NCC];
        for (i, c) in t.c_cc.iter().enumerate().take(NCC) {
            cc[i] = *c;
        }
        Tio {
            iflag: t.c_iflag,
            oflag: t.c_oflag,
            cflag: t.c_cflag,
            lflag: t.c_lflag,
            line: t.c_line,
            cc,
            ispeed: t.c_ispeed,
            ospeed: t.c_ospeed,
        }
    }

    fn to_libc(&self) -> libc::termios {
        let mut t: libc::termios = unsafe { std::mem::zeroed() };
        t.c_iflag = self.iflag;
        t.c_oflag = self.oflag;
        t.c_cflag = self.cflag;
        t.c_lflag = self.lflag;
        t.c_line = self.line;
        for i in 0..NCC.min(t.c_cc.len()) {
            t.c_cc[i] = self.cc[i];
        }
        t.c_ispeed = self.ispeed;
        t.c_ospeed = self.ospeed;
        t
    }
}

pub fn get_tio(fd: i32) -> Option<Tio> {
    unsafe {
        let mut t: libc::termios = std::mem::zeroed();
        if libc::tcgetattr(fd, &mut t) != 0 {
            return None;
        }
        Some(Tio::from_libc(&t))
    }
}

pub fn set_tio(fd: i32, t: &Tio) -> bool {
    let lt = t.to_libc();
    unsafe { libc::tcsetattr(fd, libc::TCSANOW, &lt) == 0 }
}

fn show_opt(t: &Option<Tio>) -> String {
    match t {
        Some(t) => t.enc(),
        None => "gone".to_string(),
    }
}

pub struct Req {
    pub vi: bool,
    pub flags: String,
    pub tio: Tio,
    pub helper: String,
    pub reads: Vec<Vec<Vec<u8>>>,
    /// settings the application installs on the terminal before the k-th read (token `=<termios>`
    /// at the start of a read)
    pub pre: Vec<Option<Tio>>,
}

pub fn parse(f: &[&str]) -> Option<Req> {
    if f.len() < 4 {
        return None;
    }
    let vi = match f[0] {
        "e" => false,
        "v" => true,
        _ => return None,
    };
    let flags = if f[1] == "-" { String::new() } else { f[1].to_string() };
    if f[1].is_empty() || !flags.chars().all(|c| "Bs".contains(c)) {
        return None;
    }
    let tio = Tio::dec(f[2])?;
    let mut reads: Vec<Vec<Vec<u8>>> = vec![vec![]];
    let mut pre: Vec<Option<Tio>> = vec![None];
    for t in &f[4..] {
        if *t == "//" {
            reads.push(vec![]);
            pre.push(None);
        } else if let Some(ts) = t.strip_prefix('=') {
            // only as the first token of a read
            if !reads.last().unwrap().is_empty() || pre.last().unwrap().is_some() {
                return None;
            }
            *pre.last_mut().unwrap() = Some(Tio::dec(ts)?);
        } else {
            reads.last_mut().unwrap().push(unhex(t)?);
        }
    }
    Some(Req { vi, flags, tio, helper: f[3].to_string(), reads, pre })
}

const ISIG: u32 = libc::ISIG;
const IGNCR: u32 = libc::IGNCR;

/// Does the line discipline, with the settings `t`, hand at least one byte of `k` to the reader?
/// (Only used to decide whether to wait for the reader to wake up; the model has its own filter.)
fn wakes_reader(t: &Tio, k: &[u8]) -> bool {
    k.iter().any(|&b| {
        let sig = t.lflag & ISIG != 0
            && b != 0
            && (b == t.cc[libc::VINTR] || b == t.cc[libc::VQUIT] || b == t.cc[libc::VSUSP]);
        let cr = t.iflag & IGNCR != 0 && b == b'\r';
        !(sig || cr)
    })
}

fn paste_switches(out: &[u8]) -> String {
    let mut s = String::new();
    let pre = b"\x1b[?2004";
    let mut i = 0;
    while i + pre.len() < out.len() {
        if &out[i..i + pre.len()] == pre {
            match out[i + pre.len()] {
                b'h' => s.push('h'),
                b'l' => s.push('l'),
                _ => {}
            }
            i += pre.len();
        } else {
            i += 1;
        }
    }
    if s.is_empty() {
        "-".to_string()
    } else {
        s
    }
}

enum Msg {
    Go,
    Stop,
}

pub fn exec(f: &[&str]) -> Option<String> {
    let req = parse(f)?;
    let calls: Arc<Mutex<Vec<String>>> = Arc::new(Mutex::new(vec![]));
    let helper = parse_helper(&req.helper, calls)?;
    let mut pty = Pty::open(80, 60);
    if !set_tio(pty.slave, &req.tio) {
        pty.close();
        return Some("tcsetattr-failed".to_string());
    }
    pty.install();
    let (tid_tx, tid_rx) = mpsc::channel::<i32>();
    let (go_tx, go_rx) = mpsc::channel::<Msg>();
    let (res_tx, res_rx) = mpsc::channel::<String>();
    let vi = req.vi;
    let flags = req.flags.clone();
    let handle = std::thread::spawn(move || {
        let cfg = Config::builder()
            .edit_mode(if vi { EditMode::Vi } else { EditMode::Emacs })
            .bracketed_paste(!flags.contains('B'))
            .enable_signals(flags.contains('s'))
            .grapheme_cluster_mode(rustyline::GraphemeClusterMode::Unicode)
            .build();
        let history = DefaultHistory::with_config(cfg);
        let mut ed: Editor<crate::ed::ScriptHelper, DefaultHistory> = Editor::with_history(cfg, history).unwrap();
        ed.set_helper(helper);
        tid_tx.send(gettid()).unwrap();
        while let Ok(Msg::Go) = go_rx.recv() {
            let r = std::panic::catch_unwind(std::panic::AssertUnwindSafe(|| ed.readline("> ")));
            if res_tx.send(outcome_of(&r)).is_err() {
                break;
            }
        }
    });
    let tid = tid_rx.recv_timeout(Duration::from_secs(5)).ok()?;
    let mut q = Quiesce::new(tid);
    let step_timeout = Duration::from_millis(1500);
    let mut obs: Vec<String> = vec![];
    let mut gone = false;
    for (ri, keys) in req.reads.iter().enumerate() {
        if gone {
            break;
        }
        if ri > 0 {
            obs.push("//".to_string());
        }
        if let Some(t) = &req.pre[ri] {
            // the application changes the terminal settings between two reads
            if !set_tio(pty.slave, t) {
                obs.push("tcsetattr-failed".to_string());
                break;
            }
        }
        let before = get_tio(pty.slave);
        let mut out: Vec<u8> = vec![];
        let result: std::cell::RefCell<Option<String>> = std::cell::RefCell::new(None);
        let finished = || {
            if result.borrow().is_some() {
                return true;
            }
            if let Ok(r) = res_rx.try_recv() {
                *result.borrow_mut() = Some(r);
                true
            } else {
                false
            }
        };
        go_tx.send(Msg::Go).ok()?;
        let mut during: Vec<Tio> = vec![];
        let sample = |during: &mut Vec<Tio>| {
            if let Some(t) = get_tio(pty.slave) {
                if during.last() != Some(&t) {
                    during.push(t);
                }
            }
        };
        let mut w = q.wait(&pty, &mut out, false, &finished, step_timeout);
        if w == Wait::Blocked {
            sample(&mut during);
            for k in keys {
                let cur = during.last().cloned();
                let wakes = cur.as_ref().map_or(true, |t| wakes_reader(t, k));
                q.arm();
                pty.write_keys(k);
                if !wakes {
                    // the line discipline swallows the whole key: nothing will wake the reader
                    std::thread::sleep(Duration::from_millis(2));
                }
                w = q.wait(&pty, &mut out, wakes, &finished, step_timeout);
                if w != Wait::Blocked {
                    break;
                }
                sample(&mut during);
            }
        }
        let wedged = w == Wait::Timeout;
        let mut hung_up = false;
        if !finished() {
            hung_up = true;
            gone = true;
            pty.hangup();
            let t0 = std::time::Instant::now();
            while !finished() && t0.elapsed() < Duration::from_secs(3) {
                std::thread::sleep(Duration::from_micros(200));
            }
        } else {
            pty.drain(&mut out);
        }
        let mut outcome = match result.borrow_mut().take() {
            Some(r) => r,
            None => "wedged-after-hangup".to_string(),
        };
        if wedged {
            outcome = format!("wedged+{}", outcome);
        } else if hung_up {
            outcome = format!("hup+{}", outcome);
        }
        let after = if hung_up { None } else { get_tio(pty.slave) };
        let d: Vec<String> = during.iter().map(|t| t.enc()).collect();
        obs.push(format!("b={}", show_opt(&before)));
        obs.push(format!("d={}", if d.is_empty() { "-".to_string() } else { d.join("|") }));
        obs.push(format!("a={}", show_opt(&after)));
        obs.push(format!("p={}", paste_switches(&out)));
        obs.push(format!("r={}", outcome));
        if outcome.contains("wedged-after-hangup") {
            // the reader thread is stuck: do not join it
            pty.close();
            return Some(obs.join(" "));
        }
    }
    let _ = go_tx.send(Msg::Stop);
    drop(go_tx);
    let _ = handle.join();
    pty.close();
    Some(obs.join(" "))
}

// ------------------------------------------------------------------------------------ generator

/// what the kernel keeps of `t` on a pty (tcsetattr then tcgetattr on a scratch terminal), so that a
/// request carries exactly the settings the read will find
fn normalise(scratch: &Pty, t: &Tio) -> Option<Tio> {
    if !set_tio(scratch.slave, t) {
        return None;
    }
    get_tio(scratch.slave)
}

fn cooked(scratch: &Pty) -> Tio {
    // a fresh pty has the kernel's default (cooked) settings
    let p = Pty::open(80, 60);
    let t = get_tio(p.slave).unwrap();
    let mut p = p;
    p.close();
    normalise(scratch, &t).unwrap()
}

fn raw_of(scratch: &Pty, t: &Tio) -> Tio {
    let mut lt = t.to_libc();
    unsafe { libc::cfmakeraw(&mut lt) };
    normalise(scratch, &Tio::from_libc(&lt)).unwrap()
}

/// named single tweaks of the initial settings (OLCUC is left out: it would upper-case the paste
/// switch the harness scans for; VINTR/VQUIT/VSUSP/VEOF stay at their defaults because the editor
/// model hard-wires the default key map)
fn tweak(t: &mut Tio, k: usize) {
    match k {
        0 => t.lflag &= !libc::ECHO,
        1 => t.iflag &= !libc::ICRNL,
        2 => t.iflag |= libc::IXON,
        3 => t.iflag &= !libc::IXON,
        4 => t.lflag &= !libc::ISIG,
        5 => t.cc[libc::VMIN] = 0,
        6 => t.cc[libc::VTIME] = 5,
        7 => t.lflag &= !libc::ICANON,
        8 => t.lflag &= !libc::IEXTEN,
        9 => t.iflag |= libc::BRKINT | libc::INPCK,
        10 => t.iflag |= libc::ISTRIP,
        11 => t.iflag |= libc::IUCLC, // not in nix's InputFlags
        12 => t.lflag |= libc::XCASE, // not in nix's LocalFlags
        13 => t.oflag |= libc::OFILL, // not in nix's OutputFlags
        14 => t.oflag &= !libc::OPOST,
        15 => t.oflag &= !libc::ONLCR,
        16 => t.oflag |= libc::OCRNL | libc::TAB3,
        17 => t.iflag |= libc::INLCR,
        18 => t.iflag |= libc::IGNCR,
        19 => t.iflag |= libc::PARMRK,
        20 => t.iflag |= libc::IXOFF | libc::IXANY,
        21 => t.iflag ^= libc::IUTF8,
        22 => t.iflag ^= libc::IMAXBEL,
        23 => t.lflag |= libc::NOFLSH | libc::TOSTOP,
        24 => t.lflag ^= libc::ECHOE | libc::ECHOK | libc::ECHOCTL | libc::ECHOKE,
        25 => t.lflag |= libc::ECHONL | libc::ECHOPRT,
        26 => t.cc[libc::VERASE] = 8,
        27 => t.cc[libc::VEOL] = b';',
        28 => t.cflag ^= libc::HUPCL | libc::CLOCAL,
        29 => t.iflag |= libc::IGNBRK | libc::IGNPAR,
        30 => t.cc[libc::VMIN] = 7,
        31 => t.cc[libc::VLNEXT] = 0,
        _ => {}
    }
}
const NTWEAKS: usize = 32;

fn random_tio(rng: &mut Rng, scratch: &Pty, base: &Tio, wild: bool) -> Tio {
    let mut t = base.clone();
    let k = 1 + rng.below(5);
    for _ in 0..k {
        tweak(&mut t, rng.below(NTWEAKS));
    }
    if wild {
        // arbitrary bits, including ones no header names, in the words the pty driver leaves alone
        t.iflag ^= (rng.next() as u32) & !(libc::IGNCR | libc::INLCR);
        t.lflag ^= (rng.next() as u32) & !(libc::EXTPROC | libc::FLUSHO | libc::PENDIN);
        t.oflag ^= (rng.next() as u32) & !libc::OLCUC;
        for i in [libc::VERASE, libc::VKILL, libc::VEOL, libc::VEOL2, libc::VWERASE, libc::VREPRINT, libc::VMIN, libc::VTIME] {
            if rng.chance(1, 3) {
                t.cc[i] = rng.below(256) as u8;
            }
        }
    }
    normalise(scratch, &t).unwrap_or_else(|| base.clone())
}

pub const HELPER: &str = "V=35@p;33@e;64@i";

/// the terminating events of the property, as key tokens (emacs and vi-insert alike):
/// Enter, C-d on an empty line, C-c, an invalid UTF-8 byte, helper Err, helper panic (at its
/// k-th call: `@` makes the validator answer Incomplete k-1 times first)
fn terminators(vi: bool) -> Vec<Vec<&'static str>> {
    let clear: Vec<&'static str> = if vi { vec!["1b30", "44"] } else { vec!["01", "0b"] };
    // vi: Alt-0 (ESC 0) goes to command mode at the start of the line, `D` empties it, and C-d on
    // an empty line is end-of-file in command mode too
    let mut eof = clear;
    eof.push("04");
    vec![
        vec!["0d"],
        eof,
        vec!["03"],
        vec!["ff"],
        vec!["21", "0d"],
        vec!["23", "0d"],
        vec!["40", "0d", "40", "0d", "23", "0d"],
        vec!["0a"],
        vec!["c3", "28"],
    ]
}

fn emit(sink: &mut dyn FnMut(String), vi: bool, flags: &str, tio: &Tio, reads: &[Vec<String>]) {
    emit_h(sink, vi, flags, tio, reads, HELPER)
}

fn emit_h(
    sink: &mut dyn FnMut(String),
    vi: bool,
    flags: &str,
    tio: &Tio,
    reads: &[Vec<String>],
    helper: &str,
) {
    let mut req = format!(
        "raw {} {} {} {}",
        if vi { "v" } else { "e" },
        if flags.is_empty() { "-" } else { flags },
        tio.enc(),
        helper
    );
    for (i, r) in reads.iter().enumerate() {
        if i > 0 {
            req.push_str(" //");
        }
        for t in r {
            req.push(' ');
            req.push_str(t);
        }
    }
    sink(req);
}

pub fn gen(ctx: &GenCtx, sink: &mut dyn FnMut(String)) {
    let mut rng = Rng::new(ctx.seed ^ 0xC16);
    let mut scratch = Pty::open(80, 60);
    let ck = cooked(&scratch);
    let rw = raw_of(&scratch, &ck);
    // fixed initial settings: cooked, raw, and every single tweak of cooked
    let mut fixed: Vec<Tio> = vec![ck.clone(), rw.clone()];
    for k in 0..NTWEAKS {
        let mut t = ck.clone();
        tweak(&mut t, k);
        if let Some(n) = normalise(&scratch, &t) {
            if !fixed.contains(&n) {
                fixed.push(n);
            }
        }
    }
    let all_flags = ["", "B", "s", "Bs"];
    // key scripts (one token = one key press); C-z (1a) is suspend/resume
    let emacs: Vec<&str> = vec!["61", "c3a9", "1a", "01", "0b", "19", "1b62", "1a", "12", "61", "07", "78"];
    let vis: Vec<&str> = vec!["61", "62", "1b68", "78", "1a", "69", "e6bca2", "1b30", "1a", "41", "7a"];
    // 1. every prefix x every terminator x flags x {cooked, raw} (+ a rotating tweak)
    for vi in [false, true] {
        let script = if vi { &vis } else { &emacs };
        let terms = terminators(vi);
        for n in 0..=script.len() {
            for (ti, term) in terms.iter().enumerate() {
                for (fi, fl) in all_flags.iter().enumerate() {
                    let mut tios: Vec<&Tio> = vec![&ck, &rw];
                    let extra = &fixed[2 + (n * 7 + ti * 3 + fi) % (fixed.len() - 2)];
                    tios.push(extra);
                    for tio in tios {
                        let mut toks: Vec<String> = script[..n].iter().map(|s| s.to_string()).collect();
                        // a prefix that ends inside vi command mode / a search: the terminators still apply
                        toks.extend(term.iter().map(|s| s.to_string()));
                        emit(sink, vi, fl, tio, &[toks]);
                    }
                }
            }
        }
    }
    // 2. every fixed initial setting x terminator, empty script, all flags
    for tio in &fixed {
        for vi in [false, true] {
            for term in terminators(vi) {
                for fl in all_flags {
                    let toks: Vec<String> = term.iter().map(|s| s.to_string()).collect();
                    emit(sink, vi, fl, tio, &[toks]);
                }
            }
        }
    }
    // 3. two (and three) reads in a row: every pair of terminators
    for vi in [false, true] {
        let terms = terminators(vi);
        for (i, t1) in terms.iter().enumerate() {
            for (j, t2) in terms.iter().enumerate() {
                let fl = all_flags[(i + j) % 4];
                let tio = &fixed[(i * terms.len() + j) % fixed.len()];
                let mut r1: Vec<String> = vec!["61".to_string()];
                r1.extend(t1.iter().map(|s| s.to_string()));
                let mut r2: Vec<String> = vec!["62".to_string(), "1a".to_string()];
                r2.extend(t2.iter().map(|s| s.to_string()));
                emit(sink, vi, fl, tio, &[r1.clone(), r2.clone()]);
                {
                    // the application switches the terminal to other settings between the reads
                    let other = &fixed[(i * 7 + j * 3 + 1) % fixed.len()];
                    let mut r2b = vec![format!("={}", other.enc())];
                    r2b.extend(r2.iter().cloned());
                    let mut r3b = vec![format!("={}", tio.enc()), "63".to_string(), "0d".to_string()];
                    if j % 2 == 0 {
                        r3b.remove(0);
                    }
                    emit(sink, vi, fl, tio, &[r1.clone(), r2b, r3b]);
                }
                if j % 3 == 0 {
                    emit(sink, vi, fl, tio, &[r1, r2, vec!["63".to_string(), "0d".to_string()]]);
                }
            }
        }
    }
    // 3b. a helper (the hinter) panicking at its k-th call: k = 1 is while the prompt is first drawn,
    //     before any key is read; later ones are inside the key loop
    for vi in [false, true] {
        for k in 1..=4usize {
            for (fi, fl) in all_flags.iter().enumerate() {
                let tio = &fixed[(k * 5 + fi) % fixed.len()];
                let helper = format!("{}|Ph={}", HELPER, k);
                let r1: Vec<String> = vec!["61".into(), "62".into(), "63".into(), "0d".into()];
                emit_h(sink, vi, fl, tio, &[r1.clone()], &helper);
                emit_h(sink, vi, fl, tio, &[r1.clone(), vec!["64".into(), "0d".into()]], &helper);
            }
        }
    }
    // 4. random: random settings (some with arbitrary bits), random scripts from the `ed` generators,
    //    a terminator (or none: the read then ends with the hang-up), 1..3 reads
    let n = if ctx.thorough { 40_000 } else { 1_500 };
    for _ in 0..n {
        let vi = rng.chance(2, 5);
        let base = if rng.chance(1, 4) { &rw } else { &ck };
        let tio = if rng.chance(1, 6) {
            base.clone()
        } else {
            let wild = rng.chance(1, 3);
            random_tio(&mut rng, &scratch, base, wild)
        };
        let fl = *rng.pick(&all_flags);
        let nreads = 1 + rng.below(3);
        let mut reads: Vec<Vec<String>> = vec![];
        for _ in 0..nreads {
            let mut toks: Vec<String> = vec![];
            let k = rng.below(if ctx.thorough { 16 } else { 8 });
            let mut insert_mode = true;
            for _ in 0..k {
                if rng.chance(1, 8) {
                    toks.push(rng.pick(&["1a", "03", "1c", "04", "ff", "21", "23", "40", "0a"]).to_string());
                } else if vi {
                    crate::ed::vi_key(&mut rng, &mut toks, &mut insert_mode, false);
                } else {
                    crate::ed::emacs_key(&mut rng, &mut toks, false);
                }
            }
            if rng.chance(7, 8) {
                let terms = terminators(vi);
                toks.extend(rng.pick(&terms).iter().map(|s| s.to_string()));
            }
            if !reads.is_empty() && rng.chance(1, 3) {
                let t2 = random_tio(&mut rng, &scratch, base, false);
                toks.insert(0, format!("={}", t2.enc()));
            }
            reads.push(toks);
        }
        emit(sink, vi, fl, &tio, &reads);
    }
    scratch.close();
}
