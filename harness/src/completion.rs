//! Targets `comp` (ops `esc`, `ext`), `clcp` (pure string functions of `rustyline::completion`) and `cfs`
//! (`FilenameCompleter::complete_path` on a real temporary directory) — property C15.
//!
//! requests
//!   comp esc <N|D|S> <text>            escape then unescape in the quoting context  -> `escaped/unescaped`
//!   comp ext <0|1> <line> <pos>        extract_word (escape char `\` iff 1)          -> `start/word`
//!   clcp <label> <text>…               longest_common_prefix of the candidates       -> `n` | `s<text>`
//!   cfs <label> <line> <pos> <dir>:<name>:<isdir>…   complete_path in a directory holding exactly these entries
//!        -> `start/<displays>/<replacements>/<re-completions>`; a re-completion is run from
//!           `line[..start] + replacement` (a trailing separator removed) and shown as
//!           `start2:<displays2>`, one per candidate, joined by `|` (`~` when there is none)
use crate::common::*;
use crate::GenCtx;
use rustyline::completion::{escape, extract_word, longest_common_prefix, unescape, FilenameCompleter, Quote};
use std::cell::RefCell;
use std::path::PathBuf;

/// copy of the private `default_break_chars` (unix) of src/completion.rs; `complete_path` uses the
/// real one, and its replacements are compared with the model running on this copy
fn break_chars(c: char) -> bool {
    matches!(
        c,
        ' ' | '\t' | '\n' | '"' | '\\' | '\'' | '`' | '@' | '$' | '>' | '<' | '=' | ';' | '|' | '&' | '{' | '(' | '\0'
    )
}
/// copy of the private `double_quotes_special_chars` (unix)
fn dq_special(c: char) -> bool {
    matches!(c, '"' | '$' | '\\' | '`')
}

struct Fs {
    key: String,
    root: PathBuf,
}
thread_local! {
    static CUR: RefCell<Option<Fs>> = const { RefCell::new(None) };
    static SERIAL: RefCell<u64> = const { RefCell::new(0) };
}

/// removes the temporary directory of the last `cfs` request (called once by `main` at the end)
pub fn cleanup() {
    CUR.with(|c| {
        if let Some(fs) = c.borrow_mut().take() {
            let _ = std::env::set_current_dir(std::env::temp_dir());
            let _ = std::fs::remove_dir_all(&fs.root);
        }
    });
}

/// makes the current directory a fresh directory holding exactly the declared entries
/// (kept when the declaration is the same as for the previous request)
fn enter_fs(entries: &[&str]) -> Option<()> {
    let key = entries.join(" ");
    let same = CUR.with(|c| c.borrow().as_ref().map(|f| f.key == key).unwrap_or(false));
    if same {
        return Some(());
    }
    // validate before touching the disk
    let mut decl: Vec<(String, String, bool)> = vec![];
    for e in entries {
        let p: Vec<&str> = e.split(':').collect();
        if p.len() != 3 {
            return None;
        }
        let dir = dec_text(p[0])?;
        let name = dec_text(p[1])?;
        let isdir = dec_bool(p[2])?;
        if name.is_empty() || name == "." || name == ".." || name.contains('/') || name.contains('\0') {
            return None;
        }
        if name.len() > 200 || dir.len() > 600 {
            return None;
        }
        if decl.iter().any(|(d, n, _)| *d == dir && *n == name) {
            return None;
        }
        decl.push((dir, name, isdir));
    }
    for (dir, _, _) in &decl {
        if !dir.is_empty() {
            // the parent must be a declared directory: `dir` == parentdir/name or name
            let ok = decl.iter().any(|(d, n, isd)| {
                *isd && (if d.is_empty() { n.clone() } else { format!("{}/{}", d, n) }) == *dir
            });
            if !ok {
                return None;
            }
        }
    }
    cleanup();
    let serial = SERIAL.with(|s| {
        *s.borrow_mut() += 1;
        *s.borrow()
    });
    let root = std::env::temp_dir().join(format!("rlh-{}-c15-{}", std::process::id(), serial));
    let _ = std::fs::remove_dir_all(&root);
    std::fs::create_dir_all(&root).ok()?;
    // parents first: shorter directory paths first
    let mut order: Vec<&(String, String, bool)> = decl.iter().collect();
    order.sort_by_key(|(d, _, _)| d.len());
    for (dir, name, isdir) in order {
        let p = if dir.is_empty() { root.join(name) } else { root.join(dir).join(name) };
        if *isdir {
            std::fs::create_dir(&p).ok()?;
        } else {
            std::fs::write(&p, b"").ok()?;
        }
    }
    std::env::set_current_dir(&root).ok()?;
    CUR.with(|c| *c.borrow_mut() = Some(Fs { key, root }));
    Some(())
}

fn complete_obs(line: &str, pos: usize) -> Option<(usize, Vec<(String, String)>)> {
    let c = FilenameCompleter::new();
    let (start, pairs) = c.complete_path(line, pos).ok()?;
    Some((start, pairs.into_iter().map(|p| (p.display, p.replacement)).collect()))
}

pub fn exec(target: &str, f: &[&str]) -> Option<String> {
    let (target, f) = if target == "comp" { (*f.first()?, &f[1..]) } else { (target, f) };
    match target {
        "esc" => {
            if f.len() != 2 {
                return None;
            }
            let s = dec_text(f[1])?;
            let (esc, brk, q): (Option<char>, fn(char) -> bool, Quote) = match f[0] {
                "N" => (Some('\\'), break_chars, Quote::None),
                "D" => (Some('\\'), dq_special, Quote::Double),
                "S" => (None, break_chars, Quote::Single),
                _ => return None,
            };
            let e = escape(s, esc, brk, q);
            let u = unescape(&e, esc).into_owned();
            Some(format!("{}/{}", enc_text(&e), enc_text(&u)))
        }
        "ext" => {
            if f.len() != 3 {
                return None;
            }
            let esc = if dec_bool(f[0])? { Some('\\') } else { None };
            let line = dec_text(f[1])?;
            let pos: usize = f[2].parse().ok()?;
            let (start, w) = extract_word(&line, pos, esc, break_chars);
            Some(format!("{}/{}", start, enc_text(w)))
        }
        "clcp" => {
            let f = f.get(1..)?; // f[0] is a label of the generator (E exhaustive, R random), not used
            let cands: Vec<String> = f.iter().map(|t| dec_text(t)).collect::<Option<Vec<_>>>()?;
            Some(match longest_common_prefix(&cands) {
                None => "n".to_string(),
                Some(p) => format!("s{}", enc_text(p)),
            })
        }
        "cfs" => {
            if f.len() < 3 {
                return None;
            }
            let f = &f[1..]; // f[0] is a label of the generator (F fixed tree, N/D/S context), not used
            let line = dec_text(f[0])?;
            let pos: usize = f[1].parse().ok()?;
            enter_fs(&f[2..])?;
            let (start, cands) = complete_obs(&line, pos)?;
            let mut re: Vec<String> = vec![];
            for (_, r) in &cands {
                let ins = r.strip_suffix('/').unwrap_or(r);
                let line2 = format!("{}{}", &line[..start], ins);
                let (s2, c2) = complete_obs(&line2, line2.len())?;
                let d2: Vec<&str> = c2.iter().map(|(d, _)| d.as_str()).collect();
                re.push(format!("{}:{}", s2, enc_texts(&d2)));
            }
            let ds: Vec<&str> = cands.iter().map(|(d, _)| d.as_str()).collect();
            let rs: Vec<&str> = cands.iter().map(|(_, r)| r.as_str()).collect();
            Some(format!(
                "{}/{}/{}/{}",
                start,
                enc_texts(&ds),
                enc_texts(&rs),
                if re.is_empty() { "~".to_string() } else { re.join("|") }
            ))
        }
        _ => None,
    }
}

/// the alphabet of the property: blank, both quotes, backslash, shell metacharacters, a multi-byte char
const ALPHA: &[char] = &[' ', '"', '\'', '\\', '$', '(', 'a', 'é'];

fn all_strings(maxlen: usize, f: &mut dyn FnMut(&str)) {
    let mut s = String::new();
    for len in 0..=maxlen {
        let mut idx = vec![0usize; len];
        'outer: loop {
            s.clear();
            for &i in &idx {
                s.push(ALPHA[i]);
            }
            f(&s);
            let mut k = len;
            loop {
                if k == 0 {
                    break 'outer;
                }
                k -= 1;
                idx[k] += 1;
                if idx[k] < ALPHA.len() {
                    break;
                }
                idx[k] = 0;
            }
        }
    }
}

fn boundaries(s: &str) -> Vec<usize> {
    (0..=s.len()).filter(|&i| s.is_char_boundary(i)).collect()
}

/// what may stand before a word: 1..4 segments out of blanks, bare (escaped) words, and closed
/// quoted segments that end in a run of backslashes (single quotes: literal, so the run may be odd;
/// double quotes: escaped pairs) - possibly directly before the word (D26)
fn segments(rng: &mut Rng) -> String {
    let mut s = String::new();
    for _ in 0..1 + rng.below(4) {
        match rng.below(5) {
            0 => s.push(' '),
            1 => {
                let w: String = (0..rng.below(3)).map(|_| *rng.pick(&['a', ' ', '\\', '\'', '"', 'é'])).collect();
                s.push_str(&typed('N', &w));
            }
            2 | 3 => {
                let w: String = (0..rng.below(3)).map(|_| *rng.pick(&['a', ' ', '"', 'é'])).collect();
                s.push('\'');
                s.push_str(&w);
                s.push_str(&"\\".repeat(rng.below(4)));
                s.push('\'');
            }
            _ => {
                let w: String = (0..rng.below(3)).map(|_| *rng.pick(&['a', ' ', '\'', 'é'])).collect();
                s.push('"');
                s.push_str(&w);
                s.push_str(&"\\\\".repeat(rng.below(3)));
                s.push('"');
            }
        }
    }
    s
}

/// pure functions: exhaustive over the strings of length <= 5 (`ext`: <= 6, thorough <= 7)
pub fn gen_pure(ctx: &GenCtx, sink: &mut dyn FnMut(String)) {
    all_strings(5, &mut |s| {
        for q in ["N", "D", "S"] {
            sink(format!("comp esc {} {}", q, enc_text(s)));
        }
    });
    // extract_word only looks at line[..pos]: all strings with pos = len cover every split point
    all_strings(if ctx.thorough { 7 } else { 6 }, &mut |s| {
        sink(format!("comp ext 1 {} {}", enc_text(s), s.len()));
    });
    all_strings(4, &mut |s| {
        sink(format!("comp ext 0 {} {}", enc_text(s), s.len()));
    });
    // wiring of `pos`: every position of the strings <= 3, boundary or not (not: panic), and past the end
    all_strings(3, &mut |s| {
        for p in 0..=s.len() + 1 {
            if p != s.len() {
                sink(format!("comp ext 1 {} {}", enc_text(s), p));
            }
        }
    });
    // lines made of segments (see `segments`), then a bare word; cursor at the end.  The public
    // helper is judged against its own quote-blind contract here; the completer's reading of such
    // lines is checked by `gen_fs`
    let mut rng = Rng::new(ctx.seed ^ 0xD26);
    for _ in 0..(if ctx.thorough { 100_000 } else { 10_000 }) {
        let mut s = segments(&mut rng);
        let w: String = (0..rng.below(3)).map(|_| *rng.pick(&['a', ' ', '\\', 'é'])).collect();
        s.push_str(&typed('N', &w));
        sink(format!("comp ext 1 {} {}", enc_text(&s), s.len()));
    }
    // random longer lines over a richer alphabet
    let mut rng = Rng::new(ctx.seed ^ 0xC15);
    let rich: Vec<char> = ALPHA.iter().copied().chain(['\\', '\\', ' ', 'b', '/', '=', '漢', '😀', '\t', '`']).collect();
    for _ in 0..(if ctx.thorough { 200_000 } else { 20_000 }) {
        let n = 1 + rng.below(14);
        let s: String = (0..n).map(|_| *rng.pick(&rich)).collect();
        let b = boundaries(&s);
        let p = *rng.pick(&b);
        sink(format!("comp ext {} {} {}", rng.below(8).min(1), enc_text(&s), p));
        if rng.chance(1, 4) {
            sink(format!("comp esc {} {}", rng.pick(&["N", "D", "S"]), enc_text(&s)));
        }
    }
}

/// candidate sets for the prefix function
pub fn gen_lcp(ctx: &GenCtx, sink: &mut dyn FnMut(String)) {
    // exhaustive: all sets of <= 3 candidates out of the strings <= 2 over a byte-sharing alphabet
    // (é = C3 A9, è = C3 A8, ê = C3 AA share the first byte; 漢/漣 share two of three bytes)
    let al = ['a', 'é', 'è', '漢', '漣'];
    let mut pool: Vec<String> = vec![String::new()];
    for a in al {
        pool.push(a.to_string());
        for b in al {
            pool.push(format!("{}{}", a, b));
        }
    }
    sink("clcp E".to_string());
    for a in &pool {
        sink(format!("clcp E {}", enc_text(a)));
        for b in &pool {
            sink(format!("clcp E {} {}", enc_text(a), enc_text(b)));
            if ctx.thorough {
                for c in &pool {
                    sink(format!("clcp E {} {} {}", enc_text(a), enc_text(b), enc_text(c)));
                }
            }
        }
    }
    let mut rng = Rng::new(ctx.seed ^ 0x1C9);
    let rich = ['a', 'b', 'é', 'è', 'ê', '漢', '漣', '😀', '😁', ' ', '\\', '/'];
    for _ in 0..(if ctx.thorough { 200_000 } else { 30_000 }) {
        // a common stem, then divergent tails, so that the prefix is usually non-trivial
        let stem: String = (0..rng.below(5)).map(|_| *rng.pick(&rich)).collect();
        let k = 1 + rng.below(5);
        let mut req = "clcp R".to_string();
        for _ in 0..k {
            let tail: String = (0..rng.below(3)).map(|_| *rng.pick(&rich)).collect();
            let c = if rng.chance(1, 12) { tail } else { format!("{}{}", stem, tail) };
            req.push(' ');
            req.push_str(&enc_text(&c));
        }
        sink(req);
    }
}

/// the typed form of a partial path in a quoting context, written independently of the code:
/// bare = a backslash before every word-break character, double = a backslash before `"` `$` `\` and
/// the backquote, single = as is
fn typed(ctx: char, s: &str) -> String {
    let mut o = String::new();
    for c in s.chars() {
        let esc = match ctx {
            'N' => break_chars(c),
            'D' => dq_special(c),
            _ => false,
        };
        if esc {
            o.push('\\');
        }
        o.push(c);
    }
    o
}

fn entry(dir: &str, name: &str, isdir: bool) -> String {
    format!("{}:{}:{}", enc_text(dir), enc_text(name), enc_bool(isdir))
}

/// what is typed before the partial path: typical prefixes, and prefixes whose last blank is / is not
/// escaped, after escaped backslashes, after closed quotes; the last four end in a closed quoted
/// segment that itself ends in backslashes, directly before the word (D26)
const PRES: &[&str] = &[
    "", "ls ", "x=", "a\\ b ", "\"a b\" ", "'a' ", "q\\\\ ", "q\\\\\\ ", "é\\\\\\\\ ", "'a\\' ", "\"a\\\\\" ", "a\\ ", "ls -l (",
    "'a\\'", "ls '\\\\\\'", "\"a\\\\\"", "'é \\'\\ ",
];

/// `main` deals requests to shards round-robin; a directory tree is expensive to create, so the
/// requests of one tree are kept in one shard: the shard owning the tree offers each request
/// `nshards` times in a row (exactly one of them is its turn), the other shards skip the tree.
fn emit_own(ctx: &GenCtx, sink: &mut dyn FnMut(String), req: String) {
    for _ in 0..ctx.nshards {
        sink(req.clone());
    }
}

pub fn gen_fs(ctx: &GenCtx, sink: &mut dyn FnMut(String)) {
    // (1) a fixed directory, every line of length <= 5 (thorough: 6) over the alphabet with the
    // cursor at the end (complete_path only looks at line[..pos])
    let fixed: Vec<String> = vec![
        entry("", "a", false),
        entry("", "a a", false),
        entry("", " a", true),
        entry("", "é", true),
        entry("", "aé", false),
        entry("", "a'", false),
        entry("", "\"a", false),
        entry("", "$(", false),
        entry("", "\\", false),
        entry("", "\\ a", false),
        entry("", "a\\", true),
        entry("é", "a", false),
        entry("é", "é é", false),
        entry("é", "'", true),
        entry(" a", "\\\\", false),
        entry(" a", "a\"a", false),
    ];
    let fs = fixed.join(" ");
    all_strings(if ctx.thorough { 6 } else { 5 }, &mut |s| {
        sink(format!("cfs F {} {} {}", enc_text(s), s.len(), fs));
    });
    // the same with `é/` and ` a/` typed before (directory part), bare and in both quotes
    all_strings(if ctx.thorough { 3 } else { 2 }, &mut |s| {
        for d in ["é/", "\\ a/", "\"é/", "' a/", "\" a/"] {
            let l = format!("{}{}", d, s);
            sink(format!("cfs F {} {} {}", enc_text(&l), l.len(), fs));
        }
    });
    // the fixed tree again: segment-built prefixes (closed quoted segments ending in backslash runs,
    // possibly directly before the word: D26) followed by a typed partial name, in the three contexts
    let mut srng = Rng::new(ctx.seed ^ 0xD26F);
    let fixed_names = ["a", "a a", " a", "é", "aé", "a'", "\"a", "$(", "\\", "\\ a", "a\\", "é/é é", " a/a\"a"];
    for _ in 0..(if ctx.thorough { 30_000 } else { 3_000 }) {
        let pre = segments(&mut srng);
        let n: Vec<char> = srng.pick(&fixed_names).chars().collect();
        let part: String = n[..srng.below(n.len() + 1)].iter().collect();
        let q = *srng.pick(&['N', 'N', 'D', 'S']);
        if q == 'S' && part.contains('\'') {
            continue;
        }
        let open = match q {
            'D' => "\"",
            'S' => "'",
            _ => "",
        };
        let l = format!("{}{}{}", pre, open, typed(q, &part));
        sink(format!("cfs F {} {} {}", enc_text(&l), l.len(), fs));
    }
    // cursor inside the line
    for l in ["a a", "ls a\\ a", "ls \"a a\"", "ls 'a a' é", "éa"] {
        for p in 0..=l.len() + 1 {
            sink(format!("cfs F {} {} {}", enc_text(l), p, fs));
        }
    }
    // (2) the quantifier of the property: every name of length <= 3 (thorough: 4) over the alphabet
    // lives in some directory (batches of 6 names, every third one a directory, plus a sub-directory
    // holding two of them again); each name x every split point x the three contexts x the prefixes
    let mut names: Vec<String> = vec![];
    all_strings(if ctx.thorough { 4 } else { 3 }, &mut |s| {
        if !s.is_empty() {
            names.push(s.to_string());
        }
    });
    let mut rng = Rng::new(ctx.seed ^ 0xF5);
    // deterministic shuffle so that batches mix lengths
    for i in (1..names.len()).rev() {
        names.swap(i, rng.below(i + 1));
    }
    for (bi, batch) in names.chunks(6).enumerate() {
        if bi % ctx.nshards != ctx.shard {
            continue;
        }
        let sub = "d é";
        let mut es: Vec<String> = vec![];
        for (k, n) in batch.iter().enumerate() {
            es.push(entry("", n, k % 3 == 2));
        }
        let has_sub = !batch.iter().any(|n| n == sub);
        if has_sub {
            es.push(entry("", sub, true));
            for n in batch.iter().take(2) {
                es.push(entry(sub, n, false));
            }
        }
        let fs = es.join(" ");
        for (k, n) in batch.iter().enumerate() {
            let chars: Vec<char> = n.chars().collect();
            for cut in 0..=chars.len() {
                let part: String = chars[..cut].iter().collect();
                for q in ['N', 'D', 'S'] {
                    if q == 'S' && part.contains('\'') {
                        continue;
                    }
                    // all prefixes (thorough, names of length 4: the first three, and a rotating quarter of the others)
                    for (pi, pre) in PRES.iter().enumerate() {
                        if ctx.thorough && chars.len() == 4 && pi >= 3 && (bi + k + cut + pi) % 4 != 0 {
                            continue;
                        }
                        let open = match q {
                            'D' => "\"",
                            'S' => "'",
                            _ => "",
                        };
                        let l = format!("{}{}{}", pre, open, typed(q, &part));
                        emit_own(ctx, sink, format!("cfs {} {} {} {}", q, enc_text(&l), l.len(), fs));
                        if has_sub && k < 2 && pi < 3 {
                            let l = format!("{}{}{}", pre, open, typed(q, &format!("{}/{}", sub, part)));
                            emit_own(ctx, sink, format!("cfs {} {} {} {}", q, enc_text(&l), l.len(), fs));
                        }
                    }
                }
            }
        }
    }
    // (3) random: longer names over a richer alphabet (tab, backquote, `=`, `;`, CJK, emoji, combining mark)
    let rich: Vec<char> = ALPHA
        .iter()
        .copied()
        .chain(['b', '\t', '`', '=', ';', '|', '&', '{', '<', '@', '~', '.', '-', '漢', '😀', '\u{0301}', '\\', ' '])
        .collect();
    let nfs = if ctx.thorough { 4000 } else { 400 };
    for bi in 0..nfs {
        let mine = bi % ctx.nshards == ctx.shard; // the random stream is consumed by every shard alike
        let mut ns: Vec<String> = vec![];
        while ns.len() < 5 {
            let n: String = (0..1 + rng.below(6)).map(|_| *rng.pick(&rich)).collect();
            if n == "." || n == ".." || n.starts_with('~') || ns.contains(&n) {
                continue;
            }
            ns.push(n);
        }
        let sub = ns[4].clone();
        let mut es: Vec<String> = vec![];
        for (k, n) in ns.iter().enumerate() {
            es.push(entry("", n, k >= 3));
        }
        es.push(entry(&sub, &ns[0], false));
        es.push(entry(&sub, &ns[1], true));
        let fs = es.join(" ");
        for _ in 0..25 {
            let n = rng.pick(&ns).clone();
            let chars: Vec<char> = n.chars().collect();
            let cut = rng.below(chars.len() + 1);
            let mut part: String = chars[..cut].iter().collect();
            if rng.chance(1, 4) {
                part = format!("{}/{}", sub, part);
            }
            let q = *rng.pick(&['N', 'D', 'S']);
            // inside single quotes names with a single quote are not considered; here they could even
            // make the re-completion address an absolute directory, which the listing does not describe
            if q == 'S' && ns.iter().any(|n| n.contains('\'')) {
                continue;
            }
            let pre = rng.pick(PRES);
            let open = match q {
                'D' => "\"",
                'S' => "'",
                _ => "",
            };
            let l = format!("{}{}{}", pre, open, typed(q, &part));
            if mine {
                emit_own(ctx, sink, format!("cfs {} {} {} {}", q, enc_text(&l), l.len(), fs));
            }
        }
    }
}
