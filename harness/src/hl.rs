//! Target `hl`: `rustyline::highlight::MatchingBracketHighlighter` through the public API
//! (`Highlighter::highlight_char` memorises the bracket at / before the cursor,
//! `Highlighter::highlight` wraps its partner in an ANSI colour sequence).
use crate::common::*;
use crate::GenCtx;
use rustyline::highlight::{CmdKind, Highlighter, MatchingBracketHighlighter};
use std::borrow::Cow;

/// request: `hl op…` with `op = hc:<line>:<pos>:<M|O|F>` | `hl:<line>`
pub fn exec(f: &[&str]) -> Option<String> {
    let h = MatchingBracketHighlighter::new();
    let mut obs: Vec<String> = vec![];
    for op in f {
        let p: Vec<&str> = op.split(':').collect();
        let o = match p.as_slice() {
            ["hc", t, pos, k] => {
                let kind = match *k {
                    "M" => CmdKind::MoveCursor,
                    "O" => CmdKind::Other,
                    "F" => CmdKind::ForcedRefresh,
                    _ => return None,
                };
                enc_bool(h.highlight_char(&dec_text(t)?, pos.parse().ok()?, kind)).to_string()
            }
            ["hl", t] => {
                let line = dec_text(t)?;
                match h.highlight(&line, 0) {
                    Cow::Borrowed(_) => "b".to_string(),
                    Cow::Owned(s) => format!("o{}", enc_text(&s)),
                }
            }
            _ => return None,
        };
        obs.push(o);
    }
    Some(obs.join(" "))
}

fn texts(alpha: &[char], n: usize) -> Vec<String> {
    let mut all = vec![];
    let mut last = vec![String::new()];
    for _ in 0..n {
        let mut next = vec![];
        for t in &last {
            for c in alpha {
                let mut s = t.clone();
                s.push(*c);
                next.push(s);
            }
        }
        all.extend(next.iter().cloned());
        last = next;
    }
    all
}

pub fn gen(ctx: &GenCtx, sink: &mut dyn FnMut(String)) {
    // exhaustive: every line of length 1..=4 (thorough: ..=5) over { ( ) [ x é }, every cursor
    // position 0..=len+1 (byte positions, also inside é), highlight_char then highlight of the
    // same line
    let alpha = ['(', ')', '[', 'x', 'é'];
    let kinds = ["M", "O"];
    let mut k = 0usize;
    for line in texts(&alpha, if ctx.thorough { 5 } else { 4 }) {
        for pos in 0..=line.len() + 1 {
            k += 1;
            sink(format!("hl hc:{}:{}:{} hl:{}", enc_text(&line), pos, kinds[k % 2], enc_text(&line)));
        }
    }
    // random: longer lines over all three bracket kinds and 1-4 byte characters, several calls on
    // one highlighter: mostly the same line (edited now and then: the remembered position can then
    // point anywhere, also past the end of the new line), forced refreshes in between
    let mut rng = Rng::new(ctx.seed ^ 0x41_B7AC);
    let nrand = if ctx.thorough { 150_000 } else { 12_000 };
    let chars = ['(', ')', '[', ']', '{', '}', '(', ')', 'x', ' ', 'é', '漢', '😀'];
    for _ in 0..nrand {
        let n = 1 + rng.below(if ctx.thorough { 24 } else { 12 });
        let mut line: String = (0..n).map(|_| *rng.pick(&chars)).collect();
        let mut req = String::from("hl");
        let nops = 1 + rng.below(4);
        for _ in 0..nops {
            if rng.chance(1, 6) {
                // edit: drop or add a character at the end, or a fresh short line
                match rng.below(3) {
                    0 => {
                        line.pop();
                    }
                    1 => line.push(*rng.pick(&chars)),
                    _ => {
                        let m = rng.below(4);
                        line = (0..m).map(|_| *rng.pick(&chars)).collect();
                    }
                }
            }
            let pos = if rng.chance(1, 8) { line.len() + rng.below(3) } else { rng.below(line.len() + 1) };
            let kind = match rng.below(10) {
                0 => "F",
                1..=4 => "O",
                _ => "M",
            };
            req.push_str(&format!(" hc:{}:{}:{}", enc_text(&line), pos, kind));
            if rng.chance(1, 8) {
                for _ in 0..1 + rng.below(4) {
                    line.pop();
                }
            }
            req.push_str(&format!(" hl:{}", enc_text(&line)));
        }
        sink(req);
    }
}
