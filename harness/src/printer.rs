//! Target `pr` (property C19): real threads calling `ExternalPrinter::print` against the real
//! `Editor::readline` on a pseudo-terminal.
//!
//! request: `pr <threads 1..3> <cols> <seed> item…`
//!   p:<t>:<id>:<n|l>  printing thread t prints message id with (n) / without (l) trailing line break;
//!                     asynchronous: the command is queued to the thread
//!   r                 the editing thread is told to call `readline` (asynchronous)
//!   k:<key>           a key is typed (p<cp> plain a–z | e Enter | s `M-1` digit argument | r `C-r` incremental
//!                     search (the history holds one entry) | x `C-g`), no waiting
//!   q                 wait until the reader sleeps in select / read(0) with everything typed consumed,
//!                     or until no read is running
//!   s                 wait until every issued `print` call has returned
//!   y                 a short seed-dependent pause
//! observation: the trace described in lean/Rl/Spec/Printer.lean — the terminal output stream reduced to
//!   markers and messages, merged (by stream position) with the main thread's own actions.  The order of
//!   the stream events depends on the schedule; the verdicts computed from it do not.
use crate::common::*;
use crate::pty::*;
use crate::GenCtx;
use rustyline::history::DefaultHistory;
use rustyline::{
    Cmd, ConditionalEventHandler, Config, EditMode, Editor, Event, EventContext, EventHandler, ExternalPrinter,
    RepeatCount,
};
use std::fs;
use std::sync::atomic::{AtomicUsize, Ordering};
use std::sync::mpsc;
use std::sync::Arc;
use std::time::{Duration, Instant};

#[derive(Clone, Debug, PartialEq)]
enum Item {
    Print(usize, usize, bool),
    Read,
    Key(String),
    Quiet,
    Sync,
    Pause,
}

fn parse_key(k: &str) -> Option<Vec<u8>> {
    match k {
        "e" => Some(vec![0x0d]),
        "s" => Some(vec![0x1b, b'1']),
        "r" => Some(vec![0x12]),
        "x" => Some(vec![0x07]),
        _ => {
            let cp: u32 = k.strip_prefix('p')?.parse().ok()?;
            if (97..=122).contains(&cp) && k[1..].bytes().all(|b| b.is_ascii_digit()) && !k[1..].starts_with('0') {
                Some(vec![cp as u8])
            } else {
                None
            }
        }
    }
}

fn canonical_nat(s: &str) -> Option<usize> {
    if s.is_empty() || !s.bytes().all(|b| b.is_ascii_digit()) {
        return None;
    }
    s.parse().ok()
}

fn parse_item(n: usize, tok: &str) -> Option<Item> {
    let p: Vec<&str> = tok.split(':').collect();
    match p.as_slice() {
        ["p", t, id, nl] => {
            let t = canonical_nat(t)?;
            let id = canonical_nat(id)?;
            if t < n && (*nl == "n" || *nl == "l") {
                Some(Item::Print(t, id, *nl == "n"))
            } else {
                None
            }
        }
        ["r"] => Some(Item::Read),
        ["k", k] => parse_key(k).map(|_| Item::Key(k.to_string())),
        ["q"] => Some(Item::Quiet),
        ["s"] => Some(Item::Sync),
        ["y"] => Some(Item::Pause),
        _ => None,
    }
}

struct Req {
    n: usize,
    cols: u16,
    seed: u64,
    items: Vec<Item>,
}

fn parse(f: &[&str]) -> Option<Req> {
    if f.len() < 3 {
        return None;
    }
    let n = canonical_nat(f[0])?;
    let cols = canonical_nat(f[1])?;
    let seed = canonical_nat(f[2])? as u64;
    if !(1..=3).contains(&n) || !(10..=200).contains(&cols) {
        return None;
    }
    let items: Option<Vec<Item>> = f[3..].iter().map(|t| parse_item(n, t)).collect();
    let items = items?;
    let mut ids: Vec<usize> = items.iter().filter_map(|i| if let Item::Print(_, id, _) = i { Some(*id) } else { None }).collect();
    let k = ids.len();
    ids.sort();
    ids.dedup();
    if ids.len() != k {
        return None;
    }
    let keys: Vec<&String> = items.iter().filter_map(|i| if let Item::Key(k) = i { Some(k) } else { None }).collect();
    if keys.windows(2).any(|w| w[0] == "s" && w[1] == "s") {
        return None;
    }
    Some(Req { n, cols: cols as u16, seed, items })
}

pub fn msg_text(t: usize, id: usize, nl: bool) -> String {
    format!("[[T{}M{}]]{}", t, id, if nl { "\n" } else { "" })
}

struct Counter {
    n: Arc<AtomicUsize>,
}
impl ConditionalEventHandler for Counter {
    fn handle(&self, _evt: &Event, _n: RepeatCount, _positive: bool, _ctx: &EventContext) -> Option<Cmd> {
        self.n.fetch_add(1, Ordering::SeqCst);
        None
    }
}

enum EdCmd {
    Read,
    Quit,
}

/// (state letter, syscall number, first argument) of a thread of this process
fn thread_state(tid: i32) -> (char, String, String) {
    let st = fs::read_to_string(format!("/proc/self/task/{}/stat", tid)).unwrap_or_default();
    // the state letter follows the parenthesised command name
    let state = st.rfind(')').and_then(|i| st[i + 1..].trim_start().chars().next()).unwrap_or('?');
    let sc = fs::read_to_string(format!("/proc/self/task/{}/syscall", tid)).unwrap_or_default();
    let mut it = sc.split_whitespace();
    let nr = it.next().unwrap_or("").to_string();
    let a0 = it.next().unwrap_or("").to_string();
    (state, nr, a0)
}

fn count_sub(hay: &[u8], needle: &[u8]) -> usize {
    if hay.len() < needle.len() {
        return 0;
    }
    (0..=hay.len() - needle.len()).filter(|&i| &hay[i..i + needle.len()] == needle).count()
}

const PROMPT: &str = "> ";
/// one request in six uses a prompt of two rows (the repaint after a message must not reach back
/// into the rows of the message)
fn prompt_of(seed: u64) -> &'static str {
    if seed % 6 == 5 {
        "db [main]\n> "
    } else {
        PROMPT
    }
}
/// the prompt as it appears in the output stream (OPOST stays on: LF is sent as CR LF)
fn prompt_stream(seed: u64) -> Vec<u8> {
    prompt_of(seed).replace('\n', "\r\n").into_bytes()
}

struct Run {
    pty: Pty,
    out: Vec<u8>,
    marks: Vec<(usize, String)>,
    tid: i32,
    dispatched: Arc<AtomicUsize>,
    keys_expected: usize,
    subs_expected: usize,
    reads_outstanding: usize,
    res_rx: mpsc::Receiver<String>,
    results: Vec<String>,
    done: Vec<Arc<AtomicUsize>>,
    issued: Vec<usize>,
}

impl Run {
    fn mark(&mut self, ev: String) {
        self.pty.drain(&mut self.out);
        self.marks.push((self.out.len(), ev));
    }

    fn poll_results(&mut self) {
        while let Ok(r) = self.res_rx.try_recv() {
            self.results.push(r);
            self.reads_outstanding = self.reads_outstanding.saturating_sub(1);
        }
    }

    /// `b` reader asleep in select/poll, `r` asleep in read(0), `f` no read running, `t` gave up.
    /// The stream position recorded for the event is one at which the observation held with no
    /// output before or after it in flight (same length before and after the look at /proc).
    fn quiesce(&mut self, timeout: Duration) -> char {
        let t0 = Instant::now();
        loop {
            self.pty.drain(&mut self.out);
            let p1 = self.out.len();
            self.poll_results();
            let mut verdict = None;
            if self.reads_outstanding == 0 {
                verdict = Some('f');
            } else if self.dispatched.load(Ordering::SeqCst) == self.keys_expected
                && count_sub(&self.out, b"(arg: ") == self.subs_expected
                && self.pty.pending_input() == 0
            {
                let (st, nr, a0) = thread_state(self.tid);
                if st == 'S' {
                    verdict = match nr.as_str() {
                        "0" if a0 == "0x0" => Some('r'),
                        "7" | "271" | "23" | "270" => Some('b'),
                        _ => None,
                    };
                }
            }
            if let Some(v) = verdict {
                self.pty.drain(&mut self.out);
                self.poll_results();
                let still = if v == 'f' { self.reads_outstanding == 0 } else { self.reads_outstanding > 0 };
                if self.out.len() == p1 && still && (v == 'f' || self.dispatched.load(Ordering::SeqCst) == self.keys_expected) {
                    return v;
                }
            }
            if t0.elapsed() > timeout {
                return 't';
            }
            std::thread::sleep(Duration::from_micros(if t0.elapsed() < Duration::from_millis(2) { 20 } else { 150 }));
        }
    }

    fn sync(&mut self, timeout: Duration) -> bool {
        let t0 = Instant::now();
        loop {
            self.pty.drain(&mut self.out);
            if (0..self.done.len()).all(|t| self.done[t].load(Ordering::SeqCst) == self.issued[t]) {
                return true;
            }
            if t0.elapsed() > timeout {
                return false;
            }
            std::thread::sleep(Duration::from_micros(50));
        }
    }
}

fn run(req: &Req, raw: bool) -> Option<String> {
    let pty = Pty::open(req.cols, 60);
    pty.install();
    let mut rng = Rng::new(req.seed ^ 0xC19);
    let dispatched = Arc::new(AtomicUsize::new(0));
    let (setup_tx, setup_rx) = mpsc::channel();
    let (cmd_tx, cmd_rx) = mpsc::channel::<EdCmd>();
    let (res_tx, res_rx) = mpsc::channel::<String>();
    let n = req.n;
    let disp2 = dispatched.clone();
    let prompt = prompt_of(req.seed);
    let ed_handle = std::thread::spawn(move || {
        let cfg = Config::builder().edit_mode(EditMode::Emacs).build();
        let mut ed: Editor<(), DefaultHistory> = match Editor::with_config(cfg) {
            Ok(e) => e,
            Err(_) => return,
        };
        ed.bind_sequence(Event::Any, EventHandler::Conditional(Box::new(Counter { n: disp2 })));
        // one history entry, so that `C-r` enters the incremental-search sub-loop
        let _ = ed.add_history_entry("hello world");
        let printers: Vec<_> = (0..n).filter_map(|_| ed.create_external_printer().ok()).collect();
        let _ = setup_tx.send((gettid(), printers));
        while let Ok(EdCmd::Read) = cmd_rx.recv() {
            let r = std::panic::catch_unwind(std::panic::AssertUnwindSafe(|| ed.readline(prompt)));
            let s = match r {
                Err(_) => "panic".to_string(),
                Ok(Ok(l)) => enc_text(&l),
                Ok(Err(_)) => "err".to_string(),
            };
            if res_tx.send(s).is_err() {
                break;
            }
        }
    });
    let (tid, printers) = setup_rx.recv_timeout(Duration::from_secs(5)).ok()?;
    if printers.len() != n {
        return None;
    }
    let mut done = vec![];
    let mut ptx = vec![];
    let mut phandles = vec![];
    for mut p in printers {
        let d = Arc::new(AtomicUsize::new(0));
        done.push(d.clone());
        let (tx, rx) = mpsc::channel::<(String, u64)>();
        ptx.push(tx);
        phandles.push(std::thread::spawn(move || {
            while let Ok((text, spin)) = rx.recv() {
                let t0 = Instant::now();
                while (t0.elapsed().as_nanos() as u64) < spin {
                    std::hint::spin_loop();
                }
                let _ = p.print(text);
                d.fetch_add(1, Ordering::SeqCst);
            }
        }));
    }
    let mut r = Run {
        pty,
        out: vec![],
        marks: vec![],
        tid,
        dispatched,
        keys_expected: 0,
        subs_expected: 0,
        reads_outstanding: 0,
        res_rx,
        results: vec![],
        done,
        issued: vec![0; n],
    };
    let mut texts: Vec<(usize, usize, bool)> = vec![];
    let step = Duration::from_millis(1500);
    for it in &req.items {
        match it {
            Item::Print(t, id, nl) => {
                r.mark(format!("I:{}:{}", t, id));
                texts.push((*t, *id, *nl));
                r.issued[*t] += 1;
                let spin = if rng.chance(1, 2) { 0 } else { rng.below(60_000) as u64 };
                let _ = ptx[*t].send((msg_text(*t, *id, *nl), spin));
            }
            Item::Read => {
                r.mark("R".to_string());
                r.reads_outstanding += 1;
                let _ = cmd_tx.send(EdCmd::Read);
            }
            Item::Key(k) => {
                r.mark(format!("K:{}", k));
                if k == "s" {
                    r.subs_expected += 1;
                } else {
                    r.keys_expected += 1;
                }
                r.pty.write_keys(&parse_key(k)?);
                r.mark("D".to_string());
            }
            Item::Quiet => {
                let v = r.quiesce(step);
                r.marks.push((r.out.len(), format!("Q:{}", v)));
            }
            Item::Sync => {
                let ok = r.sync(step);
                r.mark(format!("S:{}", enc_bool(ok)));
            }
            Item::Pause => {
                let us = rng.below(400) as u64;
                let t0 = Instant::now();
                while (t0.elapsed().as_micros() as u64) < us {
                    std::thread::yield_now();
                }
            }
        }
    }
    // tear down: a read still running is ended by a hang-up; printers blocked in `send` are released
    // when the editor (and with it the receiving end) is dropped
    r.pty.drain(&mut r.out);
    r.poll_results();
    let _ = cmd_tx.send(EdCmd::Quit);
    if r.reads_outstanding > 0 {
        r.pty.hangup();
    }
    let t0 = Instant::now();
    while !ed_handle.is_finished() && t0.elapsed() < Duration::from_secs(3) {
        std::thread::sleep(Duration::from_micros(200));
    }
    if ed_handle.is_finished() {
        let _ = ed_handle.join();
    }
    drop(ptx);
    let t0 = Instant::now();
    for h in phandles {
        while !h.is_finished() && t0.elapsed() < Duration::from_secs(2) {
            std::thread::sleep(Duration::from_micros(200));
        }
        if h.is_finished() {
            let _ = h.join();
        }
    }
    r.pty.close();
    if raw {
        return Some(format!("{:?}", String::from_utf8_lossy(&r.out)));
    }
    Some(render(&r.out, &r.marks, &texts, &r.results, req.seed))
}

fn starts_with_at(hay: &[u8], i: usize, needle: &[u8]) -> bool {
    hay.len() >= i + needle.len() && &hay[i..i + needle.len()] == needle
}

fn ends_with_at(hay: &[u8], i: usize, needle: &[u8]) -> bool {
    i >= needle.len() && &hay[i - needle.len()..i] == needle
}

/// `[[T<t>M<id>]]` at `i`: (t, id, end)
fn message_at(out: &[u8], i: usize) -> Option<(usize, usize, usize)> {
    if !starts_with_at(out, i, b"[[T") {
        return None;
    }
    let mut j = i + 3;
    let s = j;
    while j < out.len() && out[j].is_ascii_digit() {
        j += 1;
    }
    if j == s || j >= out.len() || out[j] != b'M' {
        return None;
    }
    let t: usize = std::str::from_utf8(&out[s..j]).ok()?.parse().ok()?;
    j += 1;
    let s2 = j;
    while j < out.len() && out[j].is_ascii_digit() {
        j += 1;
    }
    if j == s2 || !starts_with_at(out, j, b"]]") {
        return None;
    }
    let id: usize = std::str::from_utf8(&out[s2..j]).ok()?.parse().ok()?;
    Some((t, id, j + 2))
}

/// Reduces the output stream to events and merges them with the main thread's marks.
fn render(out: &[u8], marks: &[(usize, String)], texts: &[(usize, usize, bool)], results: &[String], seed: u64) -> String {
    let mut evs: Vec<(usize, String)> = vec![];
    let mut i = 0;
    let mut await_prompt = false;
    let pstream = prompt_stream(seed);
    let first_draw: Vec<u8> = [&b"\r\x1b[K"[..], &pstream[..]].concat();
    // stream intervals during which the read is known to wait inside a sub-loop (digit argument,
    // incremental search): from the first quiescence seen after the key that starts the loop to the
    // next key.  A message shown there (the unchanged code shows none: D21) must be followed by a
    // repaint under the sub-loop's own prompt.
    let mut windows: Vec<(usize, usize)> = vec![];
    {
        let mut armed = false;
        let mut start: Option<usize> = None;
        for (pos, m) in marks {
            if m == "K:s" || m == "K:r" {
                if let Some(s0) = start.take() {
                    windows.push((s0, *pos));
                }
                armed = true;
            } else if m.starts_with("K:") {
                if let Some(s0) = start.take() {
                    windows.push((s0, *pos));
                }
                armed = false;
            } else if armed && start.is_none() && (m == "Q:r" || m == "Q:b") {
                start = Some(*pos);
            }
        }
        if let Some(s0) = start {
            windows.push((s0, usize::MAX));
        }
    }
    let in_sub = |i: usize| windows.iter().any(|(a, b)| *a <= i && i < *b);
    while i < out.len() {
        if starts_with_at(out, i, b"\x1b[?2004h") {
            evs.push((i, "+".to_string()));
            await_prompt = true;
            i += 8;
        } else if await_prompt && starts_with_at(out, i, &first_draw) {
            evs.push((i, "P".to_string()));
            await_prompt = false;
            i += first_draw.len();
        } else if starts_with_at(out, i, b"\x1b[?2004l") {
            evs.push((i, "-".to_string()));
            i += 8;
        } else if let Some((t, id, end)) = message_at(out, i) {
            let shown = ends_with_at(out, i, b"\r\x1b[K");
            let nl = texts.iter().find(|x| x.0 == t && x.1 == id).map_or(false, |x| x.2);
            let brk = starts_with_at(out, end, b"\r\n");
            let wf = if shown {
                // line break, then the repaint: row cleared, prompt, and nothing but line text / cursor
                // movement up to the next event
                brk && starts_with_at(out, end + 2, b"\r\x1b[K")
                    && if in_sub(i) {
                        starts_with_at(out, end + 6, b"(arg: ")
                            || starts_with_at(out, end + 6, b"(reverse-i-search)")
                            || starts_with_at(out, end + 6, b"(failed reverse-i-search)")
                    } else {
                        starts_with_at(out, end + 6, &pstream)
                    }
            } else {
                !nl || brk
            };
            evs.push((i, format!("M:{}:{}:{}:{}", if shown { "s" } else { "d" }, t, id, enc_bool(wf))));
            i = end;
        } else if starts_with_at(out, i, b"[[T") || starts_with_at(out, i, b"]]") {
            evs.push((i, "X".to_string()));
            i += 2;
        } else {
            i += 1;
        }
    }
    let mut toks: Vec<String> = vec![];
    let mut k = 0;
    for (pos, m) in marks {
        while k < evs.len() && evs[k].0 < *pos {
            toks.push(evs[k].1.clone());
            k += 1;
        }
        toks.push(m.clone());
    }
    while k < evs.len() {
        toks.push(evs[k].1.clone());
        k += 1;
    }
    let lines: Vec<String> = results.to_vec();
    format!("{} => L={}", toks.join(" "), if lines.is_empty() { "~".to_string() } else { lines.join(";") })
}

pub fn exec(f: &[&str]) -> Option<String> {
    let req = parse(f)?;
    run(&req, false)
}

/// debugging aid: the raw stream of one request (`rlharness pr-raw <request tokens>`)
pub fn raw(f: &[&str]) -> Option<String> {
    let req = parse(f)?;
    run(&req, true)
}

// ------------------------------------------------------------------------------------ generator

struct G<'a> {
    rng: &'a mut Rng,
    n: usize,
    next_id: usize,
    toks: Vec<String>,
}

impl G<'_> {
    fn print(&mut self) {
        let t = self.rng.below(self.n);
        let nl = if self.rng.chance(1, 2) { "n" } else { "l" };
        self.toks.push(format!("p:{}:{}:{}", t, self.next_id, nl));
        self.next_id += 1;
        if self.rng.chance(1, 4) {
            self.toks.push("y".to_string());
        }
    }
    fn prints(&mut self, max: usize) {
        let k = self.rng.below(max + 1);
        for _ in 0..k {
            self.print();
        }
    }
    fn plain(&mut self) {
        let c = b'a' + self.rng.below(26) as u8;
        self.toks.push(format!("k:p{}", c));
    }
    fn push(&mut self, s: &str) {
        self.toks.push(s.to_string());
    }
}

/// one scenario: 1–3 reads; prints before / racing with the start / during (keys one at a time or as
/// type-ahead) / racing with the end / after each read; a final read with a barrier before its Enter
fn scenario(rng: &mut Rng, n: usize, subloops: bool, big: bool) -> Vec<String> {
    let mut g = G { rng, n, next_id: 0, toks: vec![] };
    let reads = 1 + g.rng.below(if big { 3 } else { 2 });
    for _ in 0..reads {
        // between reads
        g.prints(2);
        if g.rng.chance(1, 3) {
            g.push("s");
            g.push("q");
        }
        // racing with the start of the read
        g.prints(1);
        g.push("r");
        g.prints(2);
        g.push("q");
        let phases = 1 + g.rng.below(if big { 5 } else { 3 });
        for _ in 0..phases {
            match g.rng.below(10) {
                0..=3 => {
                    // keys one at a time, prints in between
                    let k = 1 + g.rng.below(3);
                    for _ in 0..k {
                        g.plain();
                        g.push("q");
                        g.prints(2);
                    }
                }
                4..=6 => {
                    // type-ahead racing with prints
                    let k = 2 + g.rng.below(if big { 24 } else { 6 });
                    for _ in 0..k {
                        g.plain();
                        if g.rng.chance(1, 3) {
                            g.print();
                        }
                    }
                    g.push("q");
                }
                7 => {
                    g.prints(3);
                    g.push("s");
                    g.push("q");
                }
                8 if subloops => {
                    // a message sent while the digit-argument sub-loop waits (D21)
                    // … or the incremental-search sub-loop (left with C-g only: the line is restored)
                    let search = g.rng.chance(1, 2);
                    g.push(if search { "k:r" } else { "k:s" });
                    g.push("q");
                    if g.rng.chance(2, 3) {
                        g.print();
                        g.push("s");
                        g.push("q");
                    }
                    if !search && g.rng.chance(1, 2) {
                        g.plain();
                    } else {
                        g.push("k:x");
                    }
                    g.push("q");
                }
                _ => {
                    g.push("k:x");
                    g.prints(1);
                    g.push("q");
                }
            }
        }
        // clean point, then Enter racing with prints
        g.push("s");
        g.push("q");
        g.prints(1);
        g.push("k:e");
        g.prints(2);
        g.push("q");
    }
    // final read: everything sent so far must be on the terminal when it waits
    g.push("r");
    g.push("q");
    g.push("s");
    g.push("q");
    g.push("k:e");
    g.push("q");
    g.toks
}

pub fn gen(ctx: &GenCtx, sink: &mut dyn FnMut(String)) {
    let mut rng = Rng::new(ctx.seed ^ 0xC19C19);
    // fixed regression scenarios first
    for s in [
        "pr 1 80 1 r q p:0:0:n s q k:e q",
        "pr 1 80 2 r q p:0:0:l s q k:e q",
        "pr 1 80 3 p:0:0:l p:0:1:n s r q k:p97 q p:0:2:n p:0:3:l s q k:e q",
        "pr 2 10 4 r q k:p97 k:p98 k:p99 k:p100 k:p101 k:p102 k:p103 k:p104 k:p105 k:p106 k:p107 k:p108 q p:0:0:n p:1:1:l p:0:2:l s q k:e q",
        "pr 3 80 5 p:0:0:n r p:1:1:n p:2:2:l q s q k:e p:0:3:n p:1:4:l q r q s q k:e q",
        // D21: a message sent while the digit-argument sub-loop waits
        "pr 1 80 6 r q k:s q p:0:0:n s q k:p97 q s q k:e q",
        // the same while an incremental search waits
        "pr 1 80 7 r q k:p97 q k:r q p:0:0:n s q k:x q s q k:e q",
    ] {
        sink(s.to_string());
    }
    let n = if ctx.thorough { 12_000 } else { 1_400 };
    for i in 0..n {
        let threads = 1 + rng.below(3);
        let cols = *rng.pick(&[80usize, 80, 20, 10]);
        let seed = rng.below(1_000_000);
        let subloops = i % 16 == 7;
        let big = ctx.thorough && rng.chance(1, 4);
        let toks = scenario(&mut rng, threads, subloops, big);
        sink(format!("pr {} {} {} {}", threads, cols, seed, toks.join(" ")));
    }
}
