#!/usr/bin/env python3
"""Writes MANIFEST.json from tools/props.py (so the two never drift)."""
import json, os, sys
ROOT = os.path.dirname(os.path.dirname(os.path.abspath(__file__)))
sys.path.insert(0, os.path.join(ROOT, "tools"))
from props import PROPS, NOT_APPLICABLE

import subprocess
HOOK_COMMITS = subprocess.run(["git", "-C", "/repo", "log", "--format=%H", "--grep=^hook:"], stdout=subprocess.PIPE, text=True).stdout.split()
checks = []
for pid in sorted(PROPS):
    c = PROPS[pid]
    checks.append({
        "property_id": pid,
        "quick_cmd": f"./check {pid} --tier quick",
        "thorough_cmd": f"./check {pid} --tier thorough",
        "evidence_file": f"evidence/{pid}.json",
        "replay_cmd_template": f"./check {pid} --replay {{path}}",
        "engine": "lean-model+rust-harness",
        "level_claimed": {
            "category": "proof",
            "text": c["level_text"],
            "design_ref": c.get("design_ref", f"DESIGN.md section 5, {pid}"),
        },
        "level_note": c["level_note"],
        "technique": c.get("technique", "Lean 4 theorems about a hand-written model + differential correspondence check against /repo"),
    })
m = {
    "version": 1,
    "setup_cmd": "./tools/setup.sh",
    "hooks": {
        "guard": "kkawakam_rustyline_verif",
        "enable": "RUSTFLAGS=--cfg kkawakam_rustyline_verif (set by tools/orchestrate.py and tools/setup.sh for every harness build); the one hook re-exports layout::{Layout, Position} so that LineBuffer::move_to_line_up/down can be called from the harness",
        "baseline_off_cmd": "cd /repo && cargo test --workspace --no-fail-fast --offline",
        "source_commits": HOOK_COMMITS,
        "add_only": True,
    },
    "engines": [
        {"name": "lean-model", "path": "lean", "serves_properties": sorted(PROPS),
         "kind_free_text": "Lean 4 library Rl: executable models of the rustyline code, declarative specs, property theorems (Rl/Props/Cxx.lean), compiled driver rldrv"},
        {"name": "rust-harness", "path": "harness", "serves_properties": sorted(PROPS),
         "kind_free_text": "Rust crate with a path dependency on /repo: runs the real code on generated requests; its observations are diffed with the Lean driver's (correspondence) and fed to the executable specs (oracle)"},
    ],
    "checks": checks,
    "not_applicable": [{"property_id": k, "reason": v} for k, v in sorted(NOT_APPLICABLE.items())],
    "notes": "Every check: (1) rebuilds the harness against /repo's working tree, (2) builds Rl.Props.Cxx and audits every theorem with #print axioms, (3) runs the correspondence model<->implementation, (4) runs the executable spec oracle on the implementation's observations, (5) classifies. See DESIGN.md.",
}
json.dump(m, open(os.path.join(ROOT, "MANIFEST.json"), "w"), indent=1)
print("wrote MANIFEST.json with", len(checks), "checks;", len(m["not_applicable"]), "not applicable")
