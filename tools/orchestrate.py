#!/usr/bin/env python3
"""Orchestrator for the rustyline verification checks.

  ./check Cxx [--tier quick|thorough] [--replay file]

Per check (DESIGN.md section 4):
  1. rebuild the Rust harness against /repo's current working tree, rebuild the Lean library
  2. proof obligations: build Rl.Props.Cxx, `#print axioms` audit of every theorem, source scan
  3. corpus replay + correspondence: real code vs executable Lean model on generated requests
  4. spec oracle: the property's executable spec evaluated on the implementation's observations
  5. classification (known findings / VIOLATION / no-failing-input-found) and shrinking
  6. evidence/Cxx.json

This file contains orchestration and diffing only; models, specs and theorems live in lean/,
the code under test is driven by harness/.
"""
import hashlib
import json
import os
import re
import subprocess
import sys
import time
from concurrent.futures import ThreadPoolExecutor

ROOT = os.path.dirname(os.path.dirname(os.path.abspath(__file__)))
LEAN = os.path.join(ROOT, "lean")
HARNESS = os.path.join(ROOT, "harness")
EVID = os.path.join(ROOT, "evidence")
REPLAYS = os.path.join(EVID, "replays")
WORK = os.path.join(ROOT, ".work")
DRV = os.path.join(LEAN, ".lake", "build", "bin", "rldrv")
ALLOWED_AXIOMS = {"propext", "Classical.choice", "Quot.sound"}
FORBIDDEN = ["sorry", "admit", "native_decide", "bv_decide", "implemented_by", "unsafe ",
             "maxHeartbeats 0"]

sys.path.insert(0, os.path.join(ROOT, "tools"))
from props import PROPS  # noqa: E402


def env_offline():
    e = dict(os.environ)
    e["CARGO_NET_OFFLINE"] = "true"
    e.setdefault("RUSTFLAGS", "")
    return e


def sh(cmd, cwd=None, env=None, check=True, stdin=None, timeout=None):
    r = subprocess.run(cmd, cwd=cwd, env=env, stdout=subprocess.PIPE, stderr=subprocess.STDOUT,
                       text=True, input=stdin, timeout=timeout)
    if check and r.returncode != 0:
        print(r.stdout[-4000:])
        raise SystemExit(f"FRAMEWORK ERROR: {' '.join(cmd)} failed ({r.returncode})")
    return r


# ---------------------------------------------------------------------------- builds

def harness_bin(features):
    return os.path.join(HARNESS, "target" + ("-" + features if features else ""), "debug", "rlharness")


def build_harness(features=""):
    """cargo build against /repo's working tree (path dependency, so any edit is picked up)."""
    cmd = ["cargo", "build", "--offline", "--quiet"]
    env = env_offline()
    if features:
        cmd += ["--features", features, "--target-dir", os.path.join(HARNESS, "target-" + features)]
    # hooks guard: on for the harness build (no hooks are currently needed; kept for MANIFEST.hooks)
    env["RUSTFLAGS"] = (env.get("RUSTFLAGS", "") + " --cfg kkawakam_rustyline_verif -A warnings").strip()
    t0 = time.time()
    r = sh(cmd, cwd=HARNESS, env=env, check=False)
    if r.returncode != 0:
        # the tree under test does not compile: not a property violation we can replay
        print(r.stdout[-6000:])
        raise SystemExit("FRAMEWORK ERROR: harness does not build against /repo's working tree")
    return time.time() - t0


def build_lean(modules):
    t0 = time.time()
    r = sh(["lake", "build", "rldrv"] + modules, cwd=LEAN, check=False)
    return r.returncode == 0, r.stdout, time.time() - t0


# ---------------------------------------------------------------------------- proof audit

def strip_lean_comments(src):
    out = []
    i = 0
    depth = 0
    n = len(src)
    while i < n:
        if src.startswith("/-", i):
            depth += 1
            i += 2
        elif depth and src.startswith("-/", i):
            depth -= 1
            i += 2
        elif depth:
            i += 1
        elif src.startswith("--", i):
            while i < n and src[i] != "\n":
                i += 1
        else:
            out.append(src[i])
            i += 1
    return "".join(out)


def lean_sources():
    res = []
    for d, _, fs in os.walk(LEAN):
        if ".lake" in d:
            continue
        for f in fs:
            if f.endswith(".lean"):
                res.append(os.path.join(d, f))
    return sorted(res)


def source_scan():
    hits = []
    for p in lean_sources():
        code = strip_lean_comments(open(p).read())
        for tok in FORBIDDEN:
            if tok in code:
                hits.append(f"{os.path.relpath(p, ROOT)}: {tok.strip()}")
        if re.search(r"^\s*axiom\s", code, re.M):
            hits.append(f"{os.path.relpath(p, ROOT)}: axiom")
    return hits


def theorems_of(module):
    path = os.path.join(LEAN, *module.split(".")) + ".lean"
    code = strip_lean_comments(open(path).read())
    return re.findall(r"^\s*theorem\s+([A-Za-z0-9_.']+)", code, re.M)


def audit(pid, module):
    """#print axioms on every theorem of the property module."""
    names = theorems_of(module)
    os.makedirs(WORK, exist_ok=True)
    f = os.path.join(WORK, f"audit_{pid}.lean")
    with open(f, "w") as fh:
        fh.write(f"import {module}\n")
        for n in names:
            fh.write(f"#print axioms {n}\n")
    r = sh(["lake", "env", "lean", f], cwd=LEAN, check=False)
    res = {}
    text = r.stdout
    for n in names:
        m = re.search(r"'" + re.escape(n) + r"' depends on axioms: \[([^\]]*)\]", text, re.S)
        if m:
            res[n] = sorted(a.strip() for a in m.group(1).replace("\n", " ").split(",") if a.strip())
        elif re.search(r"'" + re.escape(n) + r"' does not depend on any axioms", text):
            res[n] = []
        else:
            res[n] = None  # did not check
    return names, res, text


# ---------------------------------------------------------------------------- correspondence

def _big_stack():
    """the driver recurses over the text of a line: give it the largest stack the sandbox allows"""
    import resource
    try:
        soft, hard = resource.getrlimit(resource.RLIMIT_STACK)
        resource.setrlimit(resource.RLIMIT_STACK, (hard, hard))
    except Exception:
        pass


def run_driver(lines):
    r = subprocess.run([DRV], input="\n".join(lines) + "\n", stdout=subprocess.PIPE, text=True, preexec_fn=_big_stack)
    return r.stdout.split("\n")


def exec_requests(reqs, features=""):
    """run requests on the implementation and on the model; returns list of (req, impl, model, spec)"""
    r = subprocess.run([harness_bin(features), "exec"], input="\n".join(reqs) + "\n",
                       stdout=subprocess.PIPE, text=True, env=env_offline())
    hl = [l for l in r.stdout.split("\n") if l]
    dl = run_driver(hl)
    out = []
    k = 0
    for l in hl:
        if l.startswith("charinfo "):
            continue
        req, _, impl = l.partition("\t")
        m, _, s = (dl[k] if k < len(dl) else "driver-died\t-").partition("\t")
        k += 1
        out.append((req, impl, m, s))
    return out


def run_shard(target, seed, tier, shard, nshards, features, extra):
    hfile = os.path.join(WORK, f"{target['name']}_{shard}.cases")
    mfile = os.path.join(WORK, f"{target['name']}_{shard}.model")
    cmd = [harness_bin(features), "gen", target["gen"], "--seed", str(seed), "--tier", tier,
           "--shard", f"{shard}/{nshards}"] + extra
    with open(hfile, "w") as fh:
        r = subprocess.run(cmd, stdout=fh, stderr=subprocess.PIPE, text=True, env=env_offline())
    if r.returncode != 0:
        raise SystemExit(f"FRAMEWORK ERROR: harness gen {target['gen']} failed: {r.stderr[-2000:]}")
    with open(hfile) as fin, open(mfile, "w") as fout:
        r = subprocess.run([DRV], stdin=fin, stdout=fout, preexec_fn=_big_stack)
    if r.returncode != 0:
        raise SystemExit("FRAMEWORK ERROR: driver failed")
    return hfile, mfile


def verdict_of(impl, model, spec):
    """(corr_ok, spec_ok). spec is `-` (no oracle), a verdict (`ok` / `fail:…`), or the observation
    the spec prescribes."""
    corr_ok = (impl == model)
    if spec == "-" or spec == "ok":
        spec_ok = True
    elif spec.startswith("fail:"):
        spec_ok = False
    else:
        spec_ok = (spec == impl)
    return corr_ok, spec_ok


class Stats:
    def __init__(self):
        self.evals = 0
        self.hashes = set()
        self.nontrivial = set()
        self.samples = []
        self.dist = {}
        self.corr_fail = []
        self.spec_fail = []
        self.framework = []


def compare_files(target, hfile, mfile, st, trivial_re):
    with open(hfile) as fh, open(mfile) as fm:
        for line in fh:
            line = line.rstrip("\n")
            if line.startswith("charinfo ") or not line:
                continue
            out = fm.readline().rstrip("\n")
            req, _, impl = line.partition("\t")
            model, _, spec = out.partition("\t")
            st.evals += 1
            h = hashlib.blake2b(req.encode(), digest_size=8).digest()
            if h not in st.hashes:
                st.hashes.add(h)
                if not (trivial_re and trivial_re.fullmatch(impl)):
                    st.nontrivial.add(h)
            key = target["name"] + ":" + req.split(" ")[1 if len(req.split(" ")) > 1 else 0]
            st.dist[key] = st.dist.get(key, 0) + 1
            if len(st.samples) < 3 and (st.evals % 997 == 1):
                st.samples.append({"request": req[:400], "impl": impl[:400]})
            if model in ("bad-request", "unknown-char", "unknown-target", "driver-died") or impl == "bad-request":
                st.framework.append((target["name"], req, impl, model, spec))
                continue
            c, s = verdict_of(impl, model, spec)
            if not s:
                st.spec_fail.append((target["name"], req, impl, model, spec))
            elif not c:
                st.corr_fail.append((target["name"], req, impl, model, spec))


# ---------------------------------------------------------------------------- shrinking

def shrink(case, features, header_tokens, kind, budget=150):
    """greedy token dropping; keeps the case failing in the same way (spec failure or mismatch)"""
    name, req, impl, model, spec = case
    toks = req.split(" ")
    head, body = toks[:header_tokens], toks[header_tokens:]

    def fails(b):
        rs = exec_requests([" ".join(head + b)], features)
        if not rs:
            return None
        _, i, m, s = rs[0]
        if m in ("bad-request", "unknown-char") or i == "bad-request":
            return None
        c, sp = verdict_of(i, m, s)
        bad = (not sp) if kind == "spec" else (not c)
        return (i, m, s) if bad else None

    n = 0
    chunk = max(1, len(body) // 2)
    best = (impl, model, spec)
    while chunk >= 1 and n < budget:
        i = 0
        progressed = False
        while i < len(body) and n < budget:
            cand = body[:i] + body[i + chunk:]
            n += 1
            r = fails(cand)
            if r:
                body = cand
                best = r
                progressed = True
            else:
                i += chunk
        if not progressed or chunk > 1:
            chunk //= 2
    return (name, " ".join(head + body), best[0], best[1], best[2])


# ---------------------------------------------------------------------------- known findings

def load_known():
    p = os.path.join(ROOT, "known_findings.json")
    if not os.path.exists(p):
        return []
    return json.load(open(p)).get("findings", [])


_PANIC_CACHE = {}
_FEATS = [""]


def panic_message(req):
    """the panic message of the implementation on one request (the harness keeps panics off stderr
    unless asked): used to tell one recorded panic site from any other panic"""
    if req not in _PANIC_CACHE:
        env = env_offline()
        env["RLH_PANIC_MSG"] = "1"
        r = subprocess.run([harness_bin(_FEATS[0]), "exec"], input=req + "\n", stdout=subprocess.PIPE,
                           stderr=subprocess.PIPE, text=True, env=env)
        _PANIC_CACHE[req] = " ".join(r.stderr.split())
    return _PANIC_CACHE[req]


def match_known(known, pid, case):
    name, req, impl, model, spec = case
    for k in known:
        if k["property"] != pid:
            continue
        if k.get("target") and k["target"] != name:
            continue
        if k.get("request_regex") and not re.search(k["request_regex"], req):
            continue
        if k.get("impl_regex") and not re.search(k["impl_regex"], impl):
            continue
        if k.get("spec_regex") and not re.search(k["spec_regex"], spec):
            continue
        if k.get("panic_regex") and not re.search(k["panic_regex"], panic_message(req)):
            continue
        return k
    return None


# ---------------------------------------------------------------------------- main

def write_replay(pid, kind, case, extra=None):
    os.makedirs(REPLAYS, exist_ok=True)
    name, req, impl, model, spec = case
    h = hashlib.blake2b((kind + req).encode(), digest_size=6).hexdigest()
    path = os.path.join(REPLAYS, f"{pid}-{h}.json")
    d = {"property": pid, "kind": kind, "target": name, "request": req, "impl": impl,
         "model": model, "spec": spec,
         "how_to_replay": f"./check {pid} --replay {os.path.relpath(path, ROOT)}"}
    if extra:
        d.update(extra)
    json.dump(d, open(path, "w"), indent=1)
    return os.path.relpath(path, ROOT)


def do_replay(pid, path):
    d = json.load(open(path))
    cfg = PROPS[pid]
    feats = cfg.get("features", "")
    _FEATS[0] = feats
    build_harness(feats)
    build_lean([])
    if "request" not in d or not d["request"]:
        print(json.dumps(d, indent=1))
        return 0
    rs = exec_requests([d["request"]], feats)
    for req, impl, model, spec in rs:
        c, s = verdict_of(impl, model, spec)
        print("request:", req)
        print("impl   :", impl)
        print("model  :", model)
        print("spec   :", spec)
        print("correspondence:", "agree" if c else "DISAGREE", "| spec oracle:", "ok" if s else "FAIL")
        return 0 if (c and s) else 1
    return 2


def main():
    args = sys.argv[1:]
    if not args or args[0] not in PROPS:
        print("usage: check Cxx [--tier quick|thorough] [--replay file]")
        return 2
    pid = args[0]
    tier = os.environ.get("VERIF_TIER", "quick")
    replay = None
    i = 1
    while i < len(args):
        if args[i] == "--tier":
            tier = args[i + 1]
            i += 1
        elif args[i] == "--replay":
            replay = args[i + 1]
            i += 1
        i += 1
    if tier not in ("quick", "thorough"):
        tier = "quick"
    seed = int(os.environ.get("VERIF_SEED", "20260930") or 20260930)
    if replay:
        return do_replay(pid, replay)

    cfg = PROPS[pid]
    feats = cfg.get("features", "")
    _FEATS[0] = feats
    t0 = time.time()
    os.makedirs(WORK, exist_ok=True)
    os.makedirs(EVID, exist_ok=True)
    evfile = os.path.join(EVID, f"{pid}.json")
    if os.path.exists(evfile):
        os.remove(evfile)
    if os.path.isdir(REPLAYS):
        for f in os.listdir(REPLAYS):
            if f.startswith(pid + "-"):
                os.remove(os.path.join(REPLAYS, f))

    violations = []   # (kind, replay path, tail)
    notes = []

    # 1. builds
    tb = build_harness(feats)
    module = cfg["module"]
    ok, lean_out, tl = build_lean([module])
    # 2. proof obligations
    names, axioms, audit_text = ([], {}, "")
    failed_thms = []
    if ok:
        names, axioms, audit_text = audit(pid, module)
        for n in names:
            if axioms.get(n) is None or not set(axioms[n]) <= ALLOWED_AXIOMS:
                failed_thms.append(n)
    else:
        failed_thms = ["<build of " + module + " failed>"]
        notes.append(lean_out[-3000:])
    scan_hits = source_scan()
    if scan_hits:
        failed_thms.append("<source scan: " + "; ".join(scan_hits) + ">")
    leanchecker = None
    if ok and tier == "thorough":
        r = sh(["lake", "env", "leanchecker", module], cwd=LEAN, check=False)
        leanchecker = (r.returncode == 0)
        if not leanchecker:
            failed_thms.append("<leanchecker " + module + ">")
    obligations = len(names) + (1 if scan_hits else 0) + (0 if ok else 1)
    discharged = len([n for n in names if n not in failed_thms])

    # 3/4. corpus + correspondence + oracle
    st = Stats()
    known = load_known()
    nshards = cfg.get("shards", {}).get(tier, 8)
    trivial_re = re.compile(cfg["trivial_impl_regex"]) if cfg.get("trivial_impl_regex") else None
    corpus = os.path.join(ROOT, "corpus", f"{pid}.txt")
    if os.path.exists(corpus):
        reqs = [l.rstrip("\n").split("\t")[0] for l in open(corpus) if l.strip() and not l.startswith("#")]
        for req, impl, model, spec in exec_requests(reqs, feats):
            st.evals += 1
            name = req.split(" ")[0]
            c, s = verdict_of(impl, model, spec)
            if not s:
                st.spec_fail.append((name, req, impl, model, spec))
            elif not c:
                st.corr_fail.append((name, req, impl, model, spec))
    if ok or os.path.exists(DRV):
        for target in cfg["targets"]:
            extra = target.get("args", {}).get(tier, [])
            with ThreadPoolExecutor(max_workers=nshards) as ex:
                futs = [ex.submit(run_shard, target, seed, tier, s, nshards, feats, extra)
                        for s in range(nshards)]
                files = [f.result() for f in futs]
            for hfile, mfile in files:
                compare_files(target, hfile, mfile, st, trivial_re)
                os.remove(hfile)
                os.remove(mfile)
    if st.framework:
        name, req, impl, model, spec = st.framework[0]
        print(f"FRAMEWORK ERROR: {len(st.framework)} requests not understood, e.g. {req[:300]} -> impl={impl[:100]} model={model[:100]}")
        return 2

    # confirmation: a failure counts only if it reproduces when the request is executed again on its
    # own (guards the timing-sensitive pty targets against a one-off scheduling artefact)
    def confirm(cases, kind):
        cases.sort(key=lambda c: len(c[1]))
        head, tail = cases[:300], cases[300:]
        if not head:
            return cases
        again = {r[0]: r for r in exec_requests([c[1] for c in head], feats)}
        kept = []
        for c in head:
            r = again.get(c[1])
            if r is None:
                kept.append(c)
                continue
            _, impl, model, spec = r
            cok, sok = verdict_of(impl, model, spec)
            if (kind == "spec" and not sok) or (kind == "corr" and not cok):
                kept.append((c[0], c[1], impl, model, spec))
        return kept + tail
    n_spec0, n_corr0 = len(st.spec_fail), len(st.corr_fail)
    st.spec_fail = confirm(st.spec_fail, "spec")
    st.corr_fail = confirm(st.corr_fail, "corr")
    unconfirmed = (n_spec0 - len(st.spec_fail)) + (n_corr0 - len(st.corr_fail))

    header_tokens = {t["name"]: t.get("header_tokens", 1) for t in cfg["targets"]}
    known_hit = {}
    # 5. classification
    # spec-oracle failures on the implementation: concrete failing inputs
    st.spec_fail.sort(key=lambda c: len(c[1]))
    reported = 0
    seen_sig = set()
    for case in st.spec_fail:
        k = match_known(known, pid, case)
        if k:
            known_hit.setdefault(k["id"], [0, k, case])[0] += 1
            continue
        if reported >= 3:
            continue
        small = shrink(case, feats, header_tokens.get(case[0], 1), "spec")
        k = match_known(known, pid, small)
        if k:
            known_hit.setdefault(k["id"], [0, k, small])[0] += 1
            continue
        if small[1] in seen_sig:
            continue
        seen_sig.add(small[1])
        path = write_replay(pid, "spec-oracle-failure-on-implementation", small)
        violations.append(("spec", path, ""))
        reported += 1
    unknown_spec_fail = len(violations)
    # a disagreement whose implementation side is a PANIC that a known finding identifies by its
    # panic message (panic_regex, e.g. the debug assertion D41) is that finding seen through a target
    # whose spec does not judge the outcome (C16's `raw`: the settings were restored, the read
    # panicked, the model returns the line) - not a new disagreement
    rest = []
    for case in st.corr_fail:
        k = match_known(known, pid, case) if "panic" in case[2] else None
        if k and k.get("panic_regex"):
            known_hit.setdefault(k["id"], [0, k, case])[0] += 1
        else:
            rest.append(case)
    st.corr_fail = rest
    # correspondence disagreements / broken proofs: search for a failing input, else report anyway
    if st.corr_fail and not violations:
        st.corr_fail.sort(key=lambda c: len(c[1]))
        small = shrink(st.corr_fail[0], feats, header_tokens.get(st.corr_fail[0][0], 1), "corr")
        # the search: the spec oracle already ran on every generated case and on the shrink
        # neighbourhood; reaching this point means no input falsifying the property was found
        path = write_replay(pid, "correspondence-broken", small,
                            {"broken": f"corr:{small[0]}", "disagreements": len(st.corr_fail),
                             "note": "model and implementation disagree; no input on which the property's spec oracle fails was found"})
        violations.append(("corr", path, " no-failing-input-found"))
    if failed_thms and not violations:
        path = write_replay(pid, "proof-obligation-broken", ("-", "", "", "", ""),
                            {"broken": failed_thms, "lean_output": (lean_out + audit_text)[-3000:]})
        violations.append(("proof", path, " no-failing-input-found"))

    for kid, (cnt, k, case) in sorted(known_hit.items()):
        print(f"KNOWN-FINDING: property={pid} {kid}: {k['what']} ({cnt} cases, e.g. {case[1][:160]})")

    wall = time.time() - t0
    ev = {
        "property_id": pid,
        "tier": tier,
        "seed": seed,
        "level": "proof",
        "coverage": {
            "obligations": max(obligations, 1),
            "discharged": discharged,
            "checker_cmd": f"cd lean && lake build {module} && lake env lean ../.work/audit_{pid}.lean"
                           + (" && lake env leanchecker " + module if tier == "thorough" else ""),
            "trusted_base": cfg.get("trusted_base", []) + [
                "Lean 4.33.0 kernel; axioms allowed: propext, Classical.choice, Quot.sound (audited per theorem)",
                "correspondence harness /verif/harness + tools/orchestrate.py (differential tie model<->/repo)"],
            "theorems": {n: axioms.get(n) for n in names},
            "leanchecker": leanchecker,
            "evaluations": st.evals,
            "distinct_nontrivial": len(st.nontrivial),
            "rule": cfg.get("rule", ""),
            "samples": st.samples or [{"note": "no correspondence cases ran"}],
            "traces_validated_against_impl": st.evals,
            "disagreements_checked": len(st.corr_fail) + len(st.spec_fail),
            "distribution": dict(sorted(st.dist.items())),
            "known_findings_hit": {k: v[0] for k, v in known_hit.items()},
            "failures_not_reproduced_on_rerun": unconfirmed,
            "exhaustive": cfg.get("exhaustive", {}).get(tier, False),
            "statements_not_yet_proved": cfg.get("unproved", []),
        },
        "assumptions": cfg.get("assumptions", []),
        "wall_s": round(wall, 2),
        "violations": len(violations),
        "build_s": {"harness": round(tb, 2), "lean": round(tl, 2)},
    }
    json.dump(ev, open(evfile, "w"), indent=1)
    print(f"{pid} {tier}: theorems {discharged}/{len(names)} audited, {st.evals} correspondence cases "
          f"({len(st.nontrivial)} distinct non-trivial), {len(st.corr_fail)} model disagreements, "
          f"{len(st.spec_fail)} oracle failures ({sum(v[0] for v in known_hit.values())} known), {wall:.1f}s")
    for kind, path, tail in violations:
        print(f"VIOLATION property={pid} replay={path}{tail}")
    return 1 if violations else 0


if __name__ == "__main__":
    sys.exit(main())
