#!/bin/sh
# Offline setup after a fresh restore: build the Lean library + driver and the Rust harness.
set -e
cd "$(dirname "$0")/.."
export CARGO_NET_OFFLINE=true
(cd lean && lake build Rl rldrv)
(cd harness && RUSTFLAGS="--cfg kkawakam_rustyline_verif -A warnings" cargo build --offline --quiet)
(cd harness && RUSTFLAGS="--cfg kkawakam_rustyline_verif -A warnings" cargo build --offline --quiet --features sqlite --target-dir target-sqlite)
echo setup-ok
