#!/bin/sh
# mkcopy.sh <name>: private working copy of /verif (and a detached worktree of /repo) for a work package
set -e
N=$1
D=/var/tmp/wa-$N
rm -rf $D; mkdir -p $D
rsync -a --exclude .git /verif/ $D/verif/
git -C /repo worktree add --detach $D/repo HEAD >/dev/null 2>&1
sed -i "s#path = \"/repo\"#path = \"$D/repo\"#" $D/verif/harness/Cargo.toml
echo $D
