#!/usr/bin/env python3
"""Rewrites the `fix_commit` fields of known_findings.json with the current hashes of the fix commits in /repo
(matched by commit subject), after a rebase of /repo."""
import json, subprocess, os
ROOT = os.path.dirname(os.path.dirname(os.path.abspath(__file__)))
log = subprocess.run(["git", "-C", "/repo", "log", "--format=%h\t%s"], stdout=subprocess.PIPE, text=True).stdout.strip().split("\n")
subj = {}
for l in log:
    h, s = l.split("\t", 1)
    subj[s] = h
k = json.load(open(os.path.join(ROOT, "known_findings.json")))
missing = []
for f in k["fixed"]:
    fc = f.get("fix_commit") or f.get("commit") or ""
    parts = fc.split(" ", 1)
    s = parts[1] if len(parts) > 1 and parts[1].startswith("fix:") else None
    if s is None:
        # only a hash or a list of hashes was recorded: keep the text, try to resolve by prefix of subject words
        cands = [x for x in subj if f.get("id", "~") and x.startswith("fix:")]
        missing.append((f.get("id"), fc))
        continue
    hit = [x for x in subj if x == s or x.startswith(s[:60])]
    if hit:
        f["fix_commit"] = subj[hit[0]] + " " + hit[0]
    else:
        missing.append((f.get("id"), fc))
json.dump(k, open(os.path.join(ROOT, "known_findings.json"), "w"), indent=1)
print("unresolved:", missing)
