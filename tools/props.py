"""Per-property configuration of the checks (which Lean module holds the theorems, which
harness targets tie the model to /repo, what the trusted base is)."""

COMMON_TB = []

PROPS = {
    "C09": {
        "module": "Rl.Props.C09",
        "targets": [{"name": "hist", "gen": "hist", "header_tokens": 5}],
        "shards": {"quick": 8, "thorough": 16},
        "trivial_impl_regex": r"",
        "rule": "exhaustive: every sequence of <=3 (thorough: <=4) store mutators (add x6 lines incl. empty/blank-led/"
                "multibyte, add_owned x2, set_max_len 0..3, ignore_dups/space on/off, clear) from 6 initial configs, "
                "alternating MemHistory/FileHistory, `dump` after every step and the full probe battery at the end "
                "(len, get 0..4, search/starts_with x 8 terms x start 0..4 x both directions); plus random sequences "
                "(<=30, thorough <=60 ops) over a richer alphabet. distinct = hash of the request; every request "
                "contains state-changing ops and probes, so all distinct requests are counted non-trivial.",
        "exhaustive": {"quick": True, "thorough": True},
        "trusted_base": [
            "str::find modelled as naive first-match search (Rl.findSub); agreement is part of this correspondence",
            "char::is_whitespace taken from the implementation via the charinfo header",
            "VecDeque modelled as a list",
            "feature case_insensitive_history_search is off in the default build and not claimed"],
        "level_text": "Unbounded Lean theorems about the MemHistory model: size-bound invariant over all operation sequences, "
                      "acceptance rule iff, every observation of every op sequence equals the declarative spec (refinement), "
                      "search/starts_with sound, nearest and complete. The model is tied to /repo by an exhaustive + random "
                      "differential run of MemHistory and FileHistory through the public API on every check.",
        "level_note": "Trusted: Lean kernel; the harness/diff; str::find = naive search and char::is_whitespace as reported "
                      "by the implementation (both correspondence-checked on the alphabet); VecDeque as a list. "
                      "case_insensitive_history_search feature not claimed.",
        "assumptions": ["FileHistory delegates to MemHistory for the store (checked: both kinds are driven)"],
    },
    "C18": {
        "module": "Rl.Props.C18",
        "targets": [{"name": "direct", "gen": "direct", "header_tokens": 4},
                    {"name": "seg", "gen": "seg", "header_tokens": 1}],
        "shards": {"quick": 8, "thorough": 16},
        "trivial_impl_regex": r"eof|-",
        "rule": "direct: a child process linked against /repo with stdin a pipe calls Editor::readline until end of file. "
                "Regression seeds (clusters of 3..513 bytes followed by backspace, the repo's own test literal); exhaustive: "
                "every stream of <=3 (thorough <=4) characters over {a LF CR BS ( )} x {no validator, MatchingBracketValidator, "
                "scripted validator} alternating TERM=xterm (stdin-not-a-tty path) and TERM=dumb (unsupported-terminal path); "
                "structured: 2400 (thorough 40000) streams built line by line (1..6 lines of nested brackets with mostly matching "
                "closers, BS, lone CR, multi-byte characters; terminators LF / CRLF / CR CR LF / none) so that the bracket validator "
                "accumulates and accepts and kept text often ends in CR; "
                "random: 1600 (thorough 40000) streams of <=28 (<=60) items over brackets, LF, CR, BS, 2/3/4-byte characters, "
                "combining marks, ZWJ, pictographs, regional indicator, and clusters of up to ~1200 bytes, validators none / "
                "brackets / scripted verdict table (valid, invalid with/without message, incomplete, error). "
                "seg: the concrete UAX#29 segmenter against unicode-segmentation graphemes(true) on every string of <=4 "
                "(thorough <=5) characters over the DESIGN alphabet, every string of <=4 (<=5) over 14 class representatives "
                "(RI, emoji modifier, VS16, SpacingMark, Prepend, BS, ...), and 20000 (200000) random strings of 5..16. "
                "distinct = hash of the request; trivial = a stream with no line (observation `eof`) or the empty text.",
        "exhaustive": {"quick": True, "thorough": True},
        "trusted_base": [
            "BufRead::read_line on valid UTF-8 modelled as 'cut after every LF' (Rl.Direct.readLines); invalid UTF-8 is outside the property",
            "grapheme classes (gcb column) come from harness/src/common.rs::gcb_class, not from unicode-segmentation; the segmenter built on "
            "them (Rl.uaxSeg) is compared with unicode-segmentation on the alphabet by target `seg`; Hangul, GB9c and characters outside "
            "the alphabet are not covered by that comparison. The theorems hold for every lawful segmenter.",
            "validator messages written to stderr are not observed",
            "dev profile (overflow checks on): `out.len() - n` underflow is a panic in the model"],
        "level_text": "Unbounded Lean theorems over every lawful segmenter and every validator function: apply_backspace_direct equals the "
                      "stack evaluation of the cluster sequence and never panics; without a validator the session returns exactly the "
                      "lines of the stream (LF/CRLF stripped, final unterminated line included) then eof; with a validator a returned "
                      "line was judged Valid and is the accumulation of the consumed lines; no call panics. The model is tied to /repo "
                      "by running the real Editor::readline in a child process on a pipe.",
        "level_note": "Trusted: Lean kernel; harness/diff; read_line as LF-splitting; gcb classes of the harness table (checked against "
                      "unicode-segmentation on the alphabet); stderr messages unobserved.",
        "assumptions": ["input is valid UTF-8 (property quantifier)",
                        "on Invalid the text is left unchanged and no terminator is kept (C13 wording; pinned by the repo's test_readline_direct)"],
    },
}

# properties not (yet) claimed, with the reason (kept current; see DESIGN.md)
NOT_APPLICABLE = {
}
for _p in ["C01","C02","C03","C04","C05","C06","C07","C08","C10","C11","C12","C13","C14","C15","C16","C17","C18","C19","C20"]:
    if _p not in PROPS:
        NOT_APPLICABLE[_p] = "not yet claimed: model, theorems and correspondence for this property are still being built (DESIGN.md section 9 build order); the technique applies"
