"""Per-property configuration of the checks (which Lean module holds the theorems, which
harness targets tie the model to /repo, what the trusted base is)."""

COMMON_TB = []

PROPS = {
    "C09": {
        "module": "Rl.Props.C09",
        "targets": [{"name": "hist", "gen": "hist", "header_tokens": 5},
                    {"name": "hint", "gen": "hint", "header_tokens": 7}],
        "shards": {"quick": 8, "thorough": 16},
        "trivial_impl_regex": r"",
        "rule": "exhaustive: every sequence of <=3 (thorough: <=4) store mutators (add x6 lines incl. empty/blank-led/"
                "multibyte, add_owned x2, set_max_len 0..3, ignore_dups/space on/off, clear) from 6 initial configs, "
                "alternating MemHistory/FileHistory, `dump` after every step and the full probe battery at the end "
                "(len, get 0..4, search/starts_with x 8 terms x start 0..4 x both directions); plus random sequences "
                "(<=30, thorough <=60 ops) over a richer alphabet. distinct = hash of the request; every request "
                "contains state-changing ops and probes, so all distinct requests are counted non-trivial. "
                "hint: HistoryHinter::hint(line, pos, Context::new(&history)) over MemHistory/FileHistory filled with add: "
                "exhaustive entry lists (<=2 entries over all texts of length <=2 (thorough <=3) over {a,b,e-acute}, 3-4 entries over "
                "a pool of 5 overlapping prefixes) x 15 lines x cursor at the end (every 4th case also before the end, past the "
                "end, inside a character) x 4 store configurations (quick: in rotation); plus random lists (<=8, thorough <=12 "
                "entries, 1-4 byte characters, blank-led, repeated and extended entries, limits 0..100), the line mostly a "
                "prefix of an entry. Spec column: the declarative hint (Rl.Spec.hint) over the declarative store; no oracle "
                "when the cursor is past the end of the line (outside the documented use; the slice may panic there).",
        "exhaustive": {"quick": True, "thorough": True},
        "trusted_base": [
            "str::find modelled as naive first-match search (Rl.findSub); agreement is part of this correspondence",
            "char::is_whitespace taken from the implementation via the charinfo header",
            "VecDeque modelled as a list",
            "feature case_insensitive_history_search is off in the default build and not claimed"],
        "level_text": "Unbounded Lean theorems about the MemHistory model: size-bound invariant over all operation sequences, "
                      "acceptance rule iff, every observation of every op sequence equals the declarative spec (refinement), "
                      "search/starts_with sound, nearest and complete. The model is tied to /repo by an exhaustive + random "
                      "differential run of MemHistory and FileHistory through the public API on every check.",
        "level_note": "Trusted: Lean kernel; the harness/diff; str::find = naive search and char::is_whitespace as reported "
                      "by the implementation (both correspondence-checked on the alphabet); VecDeque as a list. "
                      "case_insensitive_history_search feature not claimed.",
        "assumptions": ["FileHistory delegates to MemHistory for the store (checked: both kinds are driven)"],
    },
    "C18": {
        "module": "Rl.Props.C18",
        "targets": [{"name": "direct", "gen": "direct", "header_tokens": 4},
                    {"name": "seg", "gen": "seg", "header_tokens": 1}],
        "shards": {"quick": 8, "thorough": 16},
        "trivial_impl_regex": r"eof|-",
        "rule": "direct: a child process linked against /repo with stdin a pipe calls Editor::readline until end of file. "
                "Regression seeds (clusters of 3..513 bytes followed by backspace, the repo's own test literal); exhaustive: "
                "every stream of <=3 (thorough <=4) characters over {a LF CR BS ( )} x {no validator, MatchingBracketValidator, "
                "scripted validator} alternating TERM=xterm (stdin-not-a-tty path) and TERM=dumb (unsupported-terminal path); "
                "structured: 2400 (thorough 40000) streams built line by line (1..6 lines of nested brackets with mostly matching "
                "closers, BS, lone CR, multi-byte characters; terminators LF / CRLF / CR CR LF / none) so that the bracket validator "
                "accumulates and accepts and kept text often ends in CR; "
                "random: 1600 (thorough 40000) streams of <=28 (<=60) items over brackets, LF, CR, BS, 2/3/4-byte characters, "
                "combining marks, ZWJ, pictographs, regional indicator, and clusters of up to ~1200 bytes, validators none / "
                "brackets / scripted verdict table (valid, invalid with/without message, incomplete, error). "
                "seg: the concrete UAX#29 segmenter against unicode-segmentation graphemes(true) on every string of <=4 "
                "(thorough <=5) characters over the DESIGN alphabet, every string of <=4 (<=5) over 14 class representatives "
                "(RI, emoji modifier, VS16, SpacingMark, Prepend, BS, ...), and 20000 (200000) random strings of 5..16. "
                "distinct = hash of the request; trivial = a stream with no line (observation `eof`) or the empty text.",
        "exhaustive": {"quick": True, "thorough": True},
        "trusted_base": [
            "BufRead::read_line on valid UTF-8 modelled as 'cut after every LF' (Rl.Direct.readLines); invalid UTF-8 is outside the property",
            "grapheme classes (gcb column) come from harness/src/common.rs::gcb_class, not from unicode-segmentation; the segmenter built on "
            "them (Rl.uaxSeg) is compared with unicode-segmentation on the alphabet by target `seg`; Hangul, GB9c and characters outside "
            "the alphabet are not covered by that comparison. The theorems hold for every lawful segmenter.",
            "validator messages written to stderr are not observed",
            "dev profile (overflow checks on): `out.len() - n` underflow is a panic in the model"],
        "level_text": "Unbounded Lean theorems over every lawful segmenter and every validator function: apply_backspace_direct equals the "
                      "stack evaluation of the cluster sequence and never panics; without a validator the session returns exactly the "
                      "lines of the stream (LF/CRLF stripped, final unterminated line included) then eof; with a validator a returned "
                      "line was judged Valid and is the accumulation of the consumed lines; no call panics. The model is tied to /repo "
                      "by running the real Editor::readline in a child process on a pipe.",
        "level_note": "Trusted: Lean kernel; harness/diff; read_line as LF-splitting; gcb classes of the harness table (checked against "
                      "unicode-segmentation on the alphabet); stderr messages unobserved.",
        "assumptions": ["input is valid UTF-8 (property quantifier)",
                        "on Invalid the text is left unchanged and no terminator is kept (C13 wording; pinned by the repo's test_readline_direct)"],
    },
    "C17": {
        "module": "Rl.Props.C17",
        "targets": [{"name": "keys", "gen": "keys", "header_tokens": 2},
                    {"name": "ed17", "gen": "ed17", "header_tokens": 9}],
        "shards": {"quick": 8, "thorough": 16},
        "rule": "keys: the byte decoder observed as the first key dispatched in vi insert mode: every single byte alone and with "
                "continuation bytes, every ESC-prefixed sequence of <=2 (thorough <=3) bytes over the 45 bytes the decoder "
                "distinguishes (type-ahead and one key press per byte), grammar-directed random CSI/SS3/rxvt sequences, random "
                "byte soup, valid multi-byte characters and near misses. ed17: the real Editor::readline on a pty fed arbitrary "
                "bytes (invalid UTF-8, truncated/over-long escape sequences, paste start without end, huge numeric arguments, "
                "NUL and C1 controls) mixed with structured emacs/vi key scripts, with scripted completer / validator / hinter "
                "helpers, with an external printer attached (select path) and as type-ahead; then the terminal hangs up. "
                "Oracle: no panic, the read returns after the hang-up, no stall while unread keys are buffered. "
                "distinct = hash of the request; non-trivial = the read dispatched at least one key.",
        "trivial_impl_regex": r"=> .*",
        "exhaustive": {"quick": False, "thorough": False},
        "trusted_base": [
            "utf8parse modelled as standard UTF-8 validation with the offending byte consumed (correspondence-checked)",
            "the pty line discipline in raw mode passes bytes through unchanged; one read() returns everything queued (<= 1024)",
            "ESC ESC: poll(100 ms) is modelled as 'the next key press arrives within the window' (the harness delivers it as soon as the reader blocks)",
            "SIGWINCH / SIGTSTP / real select-poll timing are exercised by the harness only (thorough tier), not proved"],
        "unproved": ["C17_editor_no_panic_statement (as written not provable: completer start off a boundary, D43; proved with strengthened hypotheses: C17_editor_no_panic_emacs unconditionally, C17_editor_no_panic_both for both modes, no open hypothesis)"],
        "level_text": "BOTH MODES, NO OPEN HYPOTHESIS (round 16): C17_editor_no_panic_both - ViPreKeeps is proved (C17_vi_pre_keeps: next_cmd changes the log by marker operations only, MkK/em_mk; search loop invariant BotGood = the bottom mark entries replay to a prefix of the backup, kept by update incl. the D49 merge; completion loop invariant AboveNB). The text that follows describes rounds 13-15 and is kept for the route taken. EMACS MODE, UNCONDITIONAL in the model (round 13): C17_editor_no_panic_emacs - for helpers that do not panic, indent size <= 255, "
                      "a completer start on a character boundary at or before the cursor, a stable segmenter and acceptable bindings (BindsI), if readline "
                      "ends with the panic outcome then its final state is a D43 state; no open obligation: C17_open_emacs instantiates C17_Open with the "
                      "concrete cross-step invariant J = UndoLogInv (the undo stack replays to the line), carried by a sixth structural pass (LogK / em_log, "
                      "Lemmas/EditorLog.lean: logK_execute for every command but Undo, logK_nextCmd for both modes, logJ_preCmds for the emacs-mode "
                      "sub-loops incl. their abort paths) over the Replays facts of every line-buffer method, C05_log_replay and C05_log_markers. BOTH MODES: C17_editor_no_panic - the same statement, where vi mode "
                      "additionally assumes ViPreKeeps (the dispatch loop keeps J; every other field of C17_Open is proved for vi too: C17_open_of_pre). "
                      "Why it is open: after a key that left insert mode inside a search, end() has popped the search's Begin and the listener can MERGE "
                      "what the search logs into the entry below the mark (finding D49, a wrong Undo - x y Backspace C-r C-s a a Alt-X C-r Alt-X C-g u "
                      "gives xyx - but no panic: model and code agree); the remaining log then replays to a prefix of the line, which still satisfies "
                      "UndoLogInv by replayLog_suffix / undoLogInv_of_prefix (proved), but the vi loop invariant itself is not formalized (round 15: evaluated on the D47 / D48 / D49 replays - the kept log replays the empty text to the line exactly, in D49 to a proper prefix of it; the invariant to carry and the two missing lemmas are written down in DESIGN C17). "
                      "Lean theorems about the input-queue model (a byte read consumes exactly one byte, fails only on hang-up, waiting "
                      "loses nothing) and an executable model of the whole decoder and editor that is diffed against the real "
                      "Editor::readline on a pseudo-terminal for arbitrary byte streams; the no-panic / no-wedge / no-stall oracle runs "
                      "on the implementation's own observations. Editor level (helpers that do not panic, indent size fits u8, "
                      "stable segmenter, completer start on a character boundary at or before the cursor): C17_execute_safe — from "
                      "EdWF (both cursors on character boundaries, kill-ring bounds invariant) execute neither panics nor breaks EdWF "
                      "for every command except Undo, YankPop, ReplaceChar; ReplaceChar with a count that fits u16 is proved separately "
                      "(C17_replaceChar_safe: the deleted text has at most n clusters); no command but Undo touches canGrow, none "
                      "touches the input state (keeps_grow_execute, keeps_inp_execute). C17_next_cmd — next_cmd in BOTH modes: from a "
                      "pending numeric argument that is not negative in vi mode it returns in such a state (the unreachable!() of "
                      "vi_num_args and of Cmd::redo are unreachable) and its ONLY panic is known finding D43 "
                      "(RepeatCount::try_from(last_insert.len()).unwrap() in the re-do of vi R), in which case the state it exits "
                      "with has a last insertion longer than 65535 bytes. Whole read: C17_editor_no_panic_partial — if readline ends "
                      "with the panic outcome then its final state is such a D43 state; covers next_cmd, every command, circular and "
                      "list completion, incremental search, the dispatch loop, quoted insert, suspend, the main loop (induction on "
                      "the fuel; fuel exhaustion is the outcome fuel), the initial text and the final cursor move; GIVEN acceptable "
                      "bindings (BindsI: a bound ReplaceChar count fits u16, YankPop not bound in vi mode, Replace and ViYankTo - vi's c/s/R and y "
                      "commands - not bound in emacs mode) and the open obligations C17_Open J. For Undo they are stated for an ABSTRACT "
                      "cross-step invariant J (for RdInv alone the obligation would be false): from RdInv and J, Undo is safe and "
                      "re-establishes both (for J = the C05 log invariant this is the proved C17_undo_safe_of_log), and every other "
                      "command and every non-command step of the read keeps J; no such J is exhibited. For YankPop (emacs mode; never "
                      "executed in vi mode) the CROSS-STEP part is discharged (round 10): the main loop itself carries PopOK (the text of "
                      "the last yank stands right before the cursor) - safe_mainLoop with PopPre (PopOK, and last action reset unless the "
                      "command is one the loop does not reset for), the kill-ring frame C17_ring_frame (every command but Kill / Replace / "
                      "ViYankTo / Yank / YankPop, next_cmd and the dispatch loop leave the ring as it was), pop_preCmds, popI_execute "
                      "(ClearScreen / Noop / Suspend keep line and ring) - and rsafe_yankPop makes YankPop safe from it. The three "
                      "one-command facts this rests on are proved (round 11, Lemmas/EditorPopLocal.lean): after Yank and after YankPop exactly "
                      "the bytes the ring recorded stand right before the cursor (popLocal_yank, popLocal_pop: yank_eval, yankPop_shape), and "
                      "a Kill run from PopPre leaves PopOK (popLocal_kill: no kill sets the last action to Yank - lbKill_go_lastAction; a kill "
                      "that answers false leaves line and cursor alone - faithful_kill) up to ONE remaining fact about LineBuffer::kill and "
                      "the ring: a non-character kill that answers true sets the last action to Kill. Its ring-level half is proved "
                      "(lbKill_go_bracket: a notification stream bracketed by start/stop_killing that contains a deletion the ring takes "
                      "up leaves last action = Kill), and so is the LineBuffer half (round 12, Lemmas/EditorKillReports.lean: killReports - for each "
                      "of the 12 movements other than the two character movements the answer true comes with such a stream; a small calculus "
                      "KSil / KHd / KRep / KRepAt over LM, the monad laws of LM for the arms whose continuation is inlined). Nothing about "
                      "YankPop is left in C17_Open: what remains is the abstract J for Undo (undo, other, init ... insert). The theorem is a "
                      "proved reduction of 'the only panic is D43' to these obligations, not the unconditional statement. "
                      "Discharged by the result-tracking pass C17_next_cmd_returns (every command next_cmd returns, in both modes: a "
                      "ReplaceChar count is <= 65535, and in vi mode it is never YankPop - C17_vi_never_yankPop for the default "
                      "keymaps; C17_dispatch_returns: the sub-loops hand back only such commands): the former obligations about "
                      "ReplaceChar counts above u16 and about YankPop in vi mode are gone. The full "
                      "statement C17_editor_no_panic_statement is kept as a def: as written it is not provable (completer start off a "
                      "boundary: C17_completer_start_inside_char_panics; D43). Signals and real timing are exercised, not proved.",
        "level_note": "Trusted: Lean kernel; pty harness (quiescence detection via /proc) and diff; utf8parse as standard UTF-8 validation; "
                      "kernel tty layer. Partial claim: see unproved statements in evidence.",
        "assumptions": ["keyseq_timeout = None (default)", "keys are delivered one key press at a time or as one type-ahead write"],
    },
    "C13": {
        "module": "Rl.Props.C13",
        "targets": [{"name": "ed13", "gen": "ed13", "header_tokens": 9},
                    {"name": "direct", "gen": "direct", "header_tokens": 4},
                    {"name": "hl", "gen": "hl", "header_tokens": 1}],
        "shards": {"quick": 8, "thorough": 16},
        "rule": "direct: the non-terminal clause (reads from a pipe with a validator: the returned string is the accumulated "
                "text of a Valid verdict; pending Incomplete / Invalid text at end of input is NOT returned) - same target as C18. "
                "ed13: emacs and vi key scripts on a pty with a validator always installed (scripted verdict table keyed on characters "
                "of the text: valid+message / incomplete / invalid with and without message / error; or MatchingBracketValidator), "
                "Enter / C-j / brackets sprinkled at arbitrary points and cursor positions, inside searches and completions, with "
                "hints, history and initial text. Oracle on the implementation: every Enter callback is checked against the verdict "
                "on the text the handler saw (valid => that text is returned; incomplete => line break at the cursor; invalid with "
                "message => text and cursor unchanged; error => propagated), and a returned line is valid and is what the validator saw. "
                "hl: MatchingBracketHighlighter through highlight_char / highlight: exhaustive lines of length 1..4 (thorough ..5) over "
                "{ ( ) [ x e-acute } x every cursor byte position 0..len+1, the same line highlighted; plus random lines (<=12, thorough "
                "<=24 chars, all three bracket kinds, 1-4 byte characters) with 1-4 call pairs on one highlighter, forced refreshes, and "
                "lines edited between the two calls (stale remembered position, also past the end: panics are observations). Spec "
                "column: the partner prescribed by counting (Rl.Spec.Highlight.partner); no oracle when the remembered byte is not "
                "that bracket in the highlighted line.",
        "trivial_impl_regex": r"=> .*",
        "exhaustive": {"quick": False, "thorough": False},
        "trusted_base": ["the scripted validator is a function of the text only (same table on both sides)",
                         "pty harness and diff"],
        "unproved": [],
        "level_text": "Lean theorems about the Enter decision table of the editor model (submit only on Valid; Valid always submits for the "
                      "Enter binding; Incomplete inserts a line break; Invalid with message leaves the text), the editor model diffed "
                      "against the real editor on a pty, and the C13 oracle evaluated on the implementation's callbacks and result. "
                      "The non-terminal clause is proved in C18 (C18_validator…). Step level, proved for every state and every validator "
                      "function: execute(AcceptOrInsertLine) submits only if the verdict on the current text was Valid and hands back "
                      "exactly that line (C13_submit_requires_valid, C13_execute_submit); Incomplete => the line becomes "
                      "LineBuffer::insert('\\n',1) of the old one and the read goes on (total from a well-formed cursor); Invalid with "
                      "message => line unchanged, read goes on; validator error => the step exits with the error outcome, text untouched.",
        "level_note": "Trusted: Lean kernel; pty harness; scripted validators. Cmd::AcceptLine bound by an application and vi EndOfFile are "
                      "outside the statement (DESIGN 7.1).",
        "assumptions": ["validators are functions of the text"],
    },
    "C15": {
        "module": "Rl.Props.C15",
        "targets": [{"name": "comp", "gen": "comp", "header_tokens": 5},
                    {"name": "clcp", "gen": "clcp", "header_tokens": 2},
                    {"name": "cfs", "gen": "cfs", "header_tokens": 4}],
        "shards": {"quick": 8, "thorough": 16},
        "trivial_impl_regex": r"0/-|n|\d+/~/~/~",
        "rule": "comp: exhaustive over all strings of length <=5 over {space, \", ', \\, $, (, a, e-acute}: escape+unescape in the three "
                "quoting contexts; extract_word with the cursor at the end of every string of length <=6 (thorough <=7) over that "
                "alphabet (= every split point of every longer one) with escape char, <=4 without, every byte position (boundary "
                "or not, past the end) of the strings <=3, plus 10 000 (thorough 100 000) lines made of bare words, blanks and closed "
                "quoted segments ending in backslash runs (D26 shape; the public helper is judged against its quote-blind contract), plus 20 000 (thorough 200 000) random lines <=14 over a richer alphabet. "
                "clcp: every candidate list of <=2 (thorough <=3) strings out of the 31 strings <=2 over {a, e-acute, e-grave, U+6F22, U+6F23} "
                "(shared first bytes), plus 30 000 (thorough 200 000) random stem+tail lists. "
                "cfs: FilenameCompleter::complete_path in real temporary directories (current directory = the temp dir): "
                "(1) a fixed 16-entry tree x every line <=5 (thorough <=6) over the alphabet with the cursor at the end, x directory parts "
                "typed bare and in both quotes, plus 3000 (thorough 30 000) lines = segment-built prefix (blanks, bare words, closed quoted "
                "segments ending in backslash runs, possibly directly before the word: D26) + a typed partial name of the tree, three contexts; (2) every name of length <=3 (thorough <=4) over the alphabet created as file or "
                "directory (batches of 6 + a sub-directory) x every split point x {bare, double, single quote} x 17 typed "
                "prefixes (typical ones, escaped/unescaped blanks after backslash runs, closed quotes, closed quotes ending in "
                "backslashes directly before the word); (3) 400 (thorough 4000) random "
                "trees of names <=6 over a richer alphabet (tab, backquote, =, ;, |, &, CJK, emoji, combining mark) x 25 typed lines. "
                "Each candidate is re-completed from the inserted text. distinct = hash of the request; trivial = empty word / "
                "no prefix / no candidate.",
        "exhaustive": {"quick": True, "thorough": True},
        "trusted_base": [
            "unix configuration only (cfg(unix) break set, escape char, MAIN_SEPARATOR '/'); windows / wasm branches not modelled",
            "default_break_chars / double_quotes_special_chars are private: the pure-function targets run on a copy in the harness, "
            "complete_path on the real ones; the model uses Rl.Completion.defaultBreak / dqSpecial and is compared with both",
            "the directory listing is OS input: the harness creates exactly the entries named in the request and passes the same "
            "list to the model and the oracle; read_dir / metadata / current_dir themselves are not modelled",
            "feature with-dirs (~ expansion), absolute paths, '.'/'..' components, non-UTF-8 names, unreadable entries: not claimed",
            "Pair ordering by display modelled as code-point order (= byte order of UTF-8)"],
        "level_text": "Unbounded Lean theorems about the model of src/completion.rs: unescape(escape s) = s for every text and break set "
                      "containing the escape char; the completer's own word scan bare_word_start (forward, since the repair of D26) is in the same mode as "
                      "find_unclosed_quote at the cursor for every line and break set, starts the word exactly where the declarative reader does on "
                      "every line, never slices off a boundary, and complete_path's parse step returns the reader's word on every plain bare line "
                      "(C15_scanners_agree, C15_word_start_is_readers, C15_bare_word_total, C15_completer_word_agrees, C15_completer_parse_agrees); "
                      "the scan and find_unclosed_quote recover exactly the inserted replacement after any prefix that the scan itself leaves "
                      "bare / closed (decidable; composes over break characters); the public helper extract_word (unchanged reverse scan) does so "
                      "after a syntactically unquoted prefix (C15_extract_inverts); complete_path's parse step reads a replacement back to the same path and the model of complete_path offers the entry "
                      "again with the same replacement (three contexts); "
                      "longest_common_prefix (byte loop + back-off) returns a common prefix on a character boundary and the longest one. "
                      "The model is tied to the code by exhaustive + random differential runs of the public functions and of "
                      "complete_path on real directories, with the declarative reader (Rl.Spec.Completion.lex) as oracle.",
        "level_note": "Trusted: Lean kernel; harness/diff; the copy of the two private character sets in the harness; OS directory "
                      "listing passed as data. Reading decisions: a bare backslash before a character that needs no escape, and a "
                      "line cut right after a bare backslash, are outside the claim (oracle answers '-'). The public extract_word is "
                      "judged against its documented contract (break and escape characters only, quotes not interpreted), the completer "
                      "against the quote-aware reader.",
        "unproved": ["C15_word_agrees_statement: the PUBLIC helper extract_word agrees with the quote-aware declarative reader on every plain "
                     "bare line - false by design of the helper (documented quote-blind reverse scan; C15_word_agrees_counterexample, line '\\'a). "
                     "The completer no longer uses the helper (D26 fixed): the same statement about the completer is proved "
                     "(C15_completer_word_agrees, C15_completer_parse_agrees); the helper is proved correct under the decidable prefix "
                     "hypothesis C15_unquoted (C15_extract_inverts) and checked against the quote-blind reader expectedWordHelper"],
        "assumptions": ["typed text uses backslash escapes only where the completer itself would write them (plain lines)",
                        "directory candidates are re-completed from the inserted text without its trailing separator"],
    },
}

HF_TB = [
    "UTF-8 decoding and BufRead::lines' read_until/from_utf8 are not modelled: a file is a list of atoms (chr c | bad b) "
    "produced from the raw bytes by Rust's own Utf8Chunks in the harness; splitting atoms at chr '\\n' = splitting bytes at 0x0A",
    "UTF-8 encoding of one character (Rl.utf8Bytes) is modelled by the standard formula (used for str.as_bytes()[j] and for "
    "truncating a file at a byte offset); agreement is part of the correspondence (cuts inside multi-byte characters)",
    "memchr3 byte loop of save_to modelled as a character loop (the three escaped bytes are ASCII)",
    "file system: one path, one live handle; File::create/open/seek/set_len, flock and the BufWriter are modelled as whole-file "
    "replacement / concatenation; the mtime comparison of can_just_append is 'equal' unless the harness changed the file "
    "(it then sets a distinct old mtime)",
    "char::is_whitespace taken from the implementation via the charinfo header",
    "MemHistory store semantics (add/ignore/eviction) reused from the C09 model",
]

PROPS["C10"] = {
    "module": "Rl.Props.C10",
    "targets": [{"name": "hf", "gen": "hf10", "header_tokens": 4}],
    "shards": {"quick": 8, "thorough": 16},
    "trivial_impl_regex": r"",
    "rule": "real temporary files through FileHistory::{save,append,load,iter}. Exhaustive: every single entry of <=3 characters, "
            "every list of 2 entries of <=2 characters, every list of 3 entries of <=1 character over {\\n,\\r,\\\\,n,#,V,2,blank,e-acute,a}, "
            "each through the write scenarios save / append-to-missing / append-to-existing (same session; new session that loaded; "
            "new session that did not load = rewrite path) / save-load cycles (quick: scenarios rotate over the lists, thorough: all 7 "
            "per list), 6 configurations (limits 1,2,3,100, ignore-space, ignore-dups); random multi-session sequences with long entries "
            "(<=40 chars over the wide alphabet) and small limits; legacy (header-less) files incl. CRLF streams and appends onto them. "
            "Every request observes the raw file bytes (model: fileOf) and the entries after loading into a fresh history; the "
            "executable spec (logical content: written = loaded) judges the implementation's observations.",
    "exhaustive": {"quick": True, "thorough": True},
    "trusted_base": HF_TB,
    "level_text": "Unbounded Lean theorems about the history-file model: the escaping is injective and line-break free, "
                  "load(fileOf es) = es for every storable entry list and every configuration (all characters, incl. line breaks, "
                  "carriage returns, backslashes, header look-alikes), append = concatenation, save/load cycles are the identity, "
                  "a legacy file yields its non-empty lines verbatim. The model is tied to /repo by an exhaustive + random "
                  "differential run on real temporary files (file bytes and loaded entries) on every check.",
    "level_note": "Trusted: Lean kernel; the harness/diff; UTF-8 decoding and BufRead::lines (file = atoms produced by Rust's "
                  "Utf8Chunks); the UTF-8 encoding formula; the file system / flock / mtime abstraction (one path, one live handle). "
                  "Sessions sharing a file concurrently are C11, not claimed here.",
    "assumptions": ["same settings for writer and reader; no concurrent writer (C11)"],
}

PROPS["C12"] = {
    "module": "Rl.Props.C12",
    "targets": [{"name": "hf", "gen": "hf12", "header_tokens": 4}],
    "shards": {"quick": 8, "thorough": 16},
    "trivial_impl_regex": r"",
    "rule": "torn files: for every list of 2 entries of <=2 characters over {\\n,\\r,\\\\,n,e-acute,blank} and for random longer lists, "
            "the file written by a scenario (save, append-to-missing, append fast path, append rewrite path, cycles) is truncated at "
            "EVERY byte offset (so cuts inside multi-byte characters and inside escapes occur), loaded by the real FileHistory::load "
            "under catch_unwind into a fresh history, then used (add, dump). Foreign bytes: exhaustive byte strings of length <=3 "
            "(thorough <=4) over {\\n,\\r,\\\\,n,a,C3,A9,FF} after each header variant (#V2\\n, none, #V2\\r\\n, #V2 without line end) and "
            "random byte strings (invalid UTF-8, lone backslashes, CR/LF mixes, empty file, header only, #V2x) loaded into empty "
            "and non-empty histories, followed by add/save/append; plus a live session whose file is cut or removed behind its back "
            "and which then appends (forces the re-read path on a torn file).",
    "exhaustive": {"quick": True, "thorough": True},
    "trusted_base": HF_TB,
    "level_text": "Unbounded Lean theorems about the history-file model: loading any atom list into any history never panics "
                  "(every slice/index of the unescape loop is an Option in the model), an error keeps exactly what the complete "
                  "lines before it produced, and for every storable entry list and every cut offset >= 4 the load of the byte "
                  "prefix yields the written entries in order with at most the last one cut short (a prefix). Tied to /repo by "
                  "loading every byte prefix of written files and arbitrary byte strings with the real code on every check.",
    "level_note": "Trusted: Lean kernel; the harness/diff; UTF-8 decoding and BufRead::lines (file = atoms produced by Rust's "
                  "Utf8Chunks); the UTF-8 encoding formula used to cut at byte offsets; a crash leaves a byte prefix (writes are "
                  "sequential through one BufWriter) is the property's own premise.",
    "assumptions": ["a crash leaves a prefix of the bytes a completed write would have produced (premise of the property)"],
}


PROPS["C07"] = {
    "module": "Rl.Props.C07",
    # both targets run from the `sqlite` feature build of the harness (harness/target-sqlite): features are per property
    "features": "sqlite",
    "targets": [{"name": "ed07", "gen": "ed07", "header_tokens": 9},
                {"name": "ed07s", "gen": "ed07s", "header_tokens": 9}],
    "shards": {"quick": 8, "thorough": 16},
    "rule": 'ed07: emacs and vi key scripts on a pty with 1-5 history entries (multi-line, duplicates, multi-byte), arbitrary initial/in-progress lines, three quarters of the keys being history navigation (C-p, C-n, Up, Down in CSI and SS3 encodings, M-<, M->, vi j/k/+/- with counts) mixed with edits, quoted line breaks and searches. Oracle: the navigation spec machine (index + saved in-progress line) run over the Event::Any callbacks; Editor::history() after the read must equal the given entries. ed07s: the same editor over Editor<_, SQLiteHistory> (in-memory database, the default history configuration of the crate) filled through add from the request (re-added older entries = holes inside the row ids, consecutive duplicates, refused empty lines, blank-led and multi-line entries, optional set_max_len(0..3) trimming = holes at the front / an emptied table whose len() stays positive), key scripts three quarters history navigation, no incremental search (SQLite searches go through FTS: C20). Same oracle, run over the surviving entries in row order: holes must be invisible (every stored entry shown as stored, in order, stopping at the oldest and newest); the entries read back through get() after the read must be unchanged.',
    "trivial_impl_regex": r"=> .*",
    "exhaustive": {"quick": False, "thorough": False},
    "trusted_base": ["pty harness (quiescence detection through /proc, one key press at a time) and diff",
                     "scripted helpers are functions of the text (same table on both sides)",
                     "ed07s: the row store handed to the editor model is computed by the C20 model of SQLiteHistory (add = INSERT OR REPLACE under the unique index, set_max_len) from the request; SQLite itself and the rusqlite bindings are external"],
    "unproved": [],
    "level_text": "Lean theorems about the C07 navigation spec machine (up shows the stored entry verbatim with the cursor at its end; stops at the oldest; leaving and coming back restores the in-progress line and cursor exactly), the editor model diffed against the real editor on a pty, and the spec machine run as an oracle over the implementation's callbacks (entries in order, saved line restored char for char with its cursor, first/last, line-wise Up/Down first, stored history unchanged). Proved about the editor model: from a navigable state (growable buffers, cursors inside their texts, index within the history) editHistoryNext / editHistory never panic and refine the declarative steps navPrev / navNext / navFirst / navLast on (line, cursor, index, saved line) (C07_prev_refines, C07_next_refines, C07_model_prev); first/last equal the iterated single steps (C07_first_is_iterated_prev, C07_last_is_iterated_next); the saved line is written only when leaving the in-progress position (C07_saved_once); over arbitrary sequences of steps mixed with edits of recalled entries, returning to the end restores the in-progress line and cursor exactly (C07_return_restores). Back ends: the model reads the history through len()/get(index, direction) (histLen / histGetDir); the refinement theorems are proved for ANY back end whose answers stay below len (C07_prev_refines_store, C07_next_refines_store, C07_first_refines_store, C07_last_refines_store: Up takes the nearest entry at or before idx-1 and ITS index, Down the nearest at or after idx+1), and specialised to the default back end (index = position) they give the statements above; both back ends satisfy the side condition (C07_storeOK_list, C07_storeOK_rows). Holes in the SQLite row ids are invisible (C07_rows_simulation, proved for every well-formed non-empty row store: one strictly increasing index per entry, all below len, len = last index + 1): seen through positions among the EXISTING rows (absNav) each of the four store-machine steps is the step of the hole-free machine over the entries and stays on len or an existing row (helper lemmas in Lemmas/RowStore.lean read find? / filter-getLast? over the sorted rows as positional look-ups); composed with the refinement it gives the editor model over SQLite history directly (C07_prev_refines_rows, C07_next_refines_rows, C07_first_refines_rows, C07_last_refines_rows), and the hole-free theorems are transported: k Ups from the line being typed show the k-th newest existing entry with its row's index and the typed line saved (C07_prev_iterate, C07_prev_iterate_rows, and for k PreviousHistory commands of the editor model C07_prev_iterate_rows_editor), any sequence of steps and edits of recalled entries restores the typed line and cursor on return (C07_return_restores_rows), first / last equal as many Ups / Downs as there are existing rows below / at-or-above the current one (C07_first_is_iterated_prev_rows, C07_last_is_iterated_next_rows); decide counter-examples show that the len = last index + 1 and non-empty hypotheses are needed. The editor on Editor<_, SQLiteHistory> with holes in the row ids is diffed against the model and judged by the same oracle (target ed07s).",
    "level_note": 'Trusted: Lean kernel; pty harness; default (FileHistory) and SQLite (in-memory database) back ends.',
    "assumptions": ["keyseq_timeout = None (default)"],
}
PROPS["C08"] = {
    "module": "Rl.Props.C08",
    "targets": [{"name": "ed08", "gen": "ed08", "header_tokens": 9}],
    "shards": {"quick": 8, "thorough": 16},
    "rule": 'ed08: key scripts dominated by incremental-search sessions (C-r, typed search text incl. multi-byte and regex/FTS metacharacters, repeated C-r/C-s direction changes, backspaces, aborts with C-g/ESC, terminating commands incl. Tab, Enter, motions, numeric arguments) over 1-5 history entries, emacs and vi. Oracle: the search loop replayed over the callbacks with the declarative nearest-match spec of C09 (shown entry, cursor at the match, line kept on failure, abort restores line+cursor).',
    "trivial_impl_regex": r"=> .*",
    "exhaustive": {"quick": False, "thorough": False},
    "trusted_base": ["pty harness (quiescence detection through /proc, one key press at a time) and diff",
                     "scripted helpers are functions of the text (same table on both sides)"],
    "unproved": ['C08_abort_restores_statement (undo-stack clause too strong in vi mode; line and cursor proved: C08_abort_restores)'],
    "level_text": "Lean theorems: a successful search step of the model shows a stored entry containing the text at the cursor, nearest in the search direction (corollary of the C09 theorems); a failed step means no entry on that side matches; the oracle's search function equals the model's (Spec.find = MemHist.search). The editor model is diffed against the real editor; the search-loop spec machine runs as oracle over the implementation's callbacks. Proved by a loop invariant over searchLoop for all key sequences: whenever the search ends without handing a command back (C-g), text and cursor are exactly those from before the search (C08_abort_restores; growable buffer). Partial: the undo-stack clause of the first-draft statement is kept as C08_abort_restores_statement: it is too strong in vi mode with a key custom-bound to Abort (leaving insert mode closes an undo group below the mark); transparency of the undo log is checked by the C05/C14 oracles.",
    "level_note": 'Trusted: Lean kernel; pty harness; str::find as naive search (C09).',
    "assumptions": ["keyseq_timeout = None (default)"],
}
PROPS["C14"] = {
    "module": "Rl.Props.C14",
    "targets": [{"name": "ed14", "gen": "ed14", "header_tokens": 9}],
    "shards": {"quick": 8, "thorough": 16},
    "rule": 'ed14: key scripts with a scripted word completer (1-4 candidates incl. empty strings, shared prefixes, multi-byte; start = after the last blank before the cursor), runs of Tab / Shift-Tab, aborts (ESC, C-g), terminating keys, the Undo probe (C-_) right after an accepted completion, cursors inside longer lines, circular and list modes. Oracle: the completion spec machine over the callbacks (only [start,cursor) rewritten, circular order and wrap, list-mode LCP, abort restores, undo restores).',
    "trivial_impl_regex": r"=> .*",
    "exhaustive": {"quick": False, "thorough": False},
    "trusted_base": ["pty harness (quiescence detection through /proc, one key press at a time) and diff",
                     "scripted helpers are functions of the text (same table on both sides)"],
    "unproved": ['C14_abort_restores_statement (needs a growable buffer; proved with it: C14_abort_restores)', 'C14_undo_after_accept_statement (false in vi insert mode: C14_undo_after_accept_statement_false; emacs mode proved: C14_undo_after_accept, C14_undo_after_accept_cursor)'],
    "level_text": "Lean theorems about the circular index arithmetic of the model (stays in range, k Tabs show candidate k mod (n+1), Shift-Tab is the inverse permutation) and the span-only shape of what is shown; the editor model is diffed against the real editor; the completion spec machine runs as oracle over the implementation's callbacks. Proved by a loop invariant over completeCircular for all candidate lists, start offsets, numbers of Tab / Shift-Tab presses and keys decoded in between: whenever circular completion ends without handing a command back (Esc / C-g, or no candidates) text and cursor are exactly those from before (C14_abort_restores; growable buffer — the first-draft statement without that hypothesis is kept as C14_abort_restores_statement with the reason, C14_update_truncates_fixed_buffer). Partial: undo-log transparency of abort/accept is checked by the oracle, not proved; the paging dialogue is correspondence-checked only.",
    "level_note": 'Trusted: Lean kernel; pty harness; completers reporting start > cursor are excluded (helper bug).',
    "assumptions": ["keyseq_timeout = None (default)"],
}

PROPS["C16"] = {
        "module": "Rl.Props.C16",
        "targets": [{"name": "raw", "gen": "raw", "header_tokens": 5}],
        "shards": {"quick": 8, "thorough": 16},
        "rule": "raw: the real Editor::readline on a pty whose slave termios is installed from the request (tcsetattr) and read "
                "back with tcgetattr before the read, each time the reader thread is blocked waiting for a key (ties enable_raw_mode "
                "to the code) and after the read; the output stream is scanned for every ESC[?2004h / ESC[?2004l. Enumerated: every "
                "prefix of an emacs and a vi key script (with C-z suspend/resume, a search, kills/yanks) x 9 terminating events "
                "(Enter, C-j, C-d on the emptied line, C-c, invalid UTF-8 byte 0xff, truncated UTF-8 c3 28, validator Err, validator "
                "panic at its 1st and at its 3rd call under catch_unwind) x bracketed paste on/off x enable_signals on/off x initial "
                "settings {cooked, cfmakeraw, one of 32 single tweaks}; every one of the ~34 fixed initial settings (ECHO/ICANON/ISIG/"
                "IEXTEN off, ICRNL off, IXON on/off, VMIN=0/7, VTIME=5, IUCLC, XCASE, OFILL, INLCR, IGNCR, PARMRK, OPOST off, ...) x "
                "terminator x flags; two and three reads in a row on one editor for every pair of terminators; random: 1500 (thorough "
                "40000) requests with random settings (a third with arbitrary bits in c_iflag/c_oflag/c_lflag and random control "
                "characters), random emacs/vi scripts from the ed generators, 1..3 reads. distinct = hash of the request; "
                "trivial = the read ended by the hang-up (nothing to restore).",
        "trivial_impl_regex": r"(b=\S+ d=\S+ a=gone p=\S+ r=\S+)",
        "exhaustive": {"quick": False, "thorough": False},
        "trusted_base": [
            "Rust drops a live Guard on every way out of its scope (return, `?`, unwinding); the model's Flow encodes exactly that",
            "the kernel stores what tcsetattr is given and tcgetattr reads it back (observed on the pty for every request, "
            "including the settings in force DURING the read)",
            "nix 0.29 Termios: typed flag words built with from_bits_truncate (masks 0x7dff / 0xffbf / 0xd00f1fff / 0x1dffb on "
            "Linux), get_libc_termios writes them over `inner`, From<Termios> for libc::termios hands out `inner` untouched; "
            "the masks are checked by the arbitrary-bit requests",
            "line discipline in raw mode (ISIG characters swallowed, IGNCR, INLCR, PARMRK doubling of 0xff) modelled by "
            "Rl.RawMode.ldiscIn to predict how the read ends; OLCUC is never set (it would upper-case the paste switch on its way "
            "to the master); VINTR/VQUIT/VSUSP/VEOF stay at their defaults (the editor model hard-wires the default key map)",
            "SIGTSTP is ignored in the harness process, so a suspend resumes at once; settings changed by the shell while "
            "stopped are covered by the theorems (Suspend.env) but not exercised",
            "helper panics are exercised through the validator only; the `termios` cargo feature (other termios_ module) is not built"],
        "level_text": "Unbounded Lean theorems about the raw-mode model: for every initial termios, configuration, number of "
                      "suspend/resume round trips and every exit constructor except the hang-up, the settings after the read equal "
                      "those before it, the paste switches written are ON (OFF ON)* OFF or none, every exit passes through the "
                      "guard's drop, n successive reads preserve the settings, and raw mode changes exactly the documented bits. "
                      "The model (including the three termios values and the switch sequence) is diffed against the real "
                      "Editor::readline on a pseudo-terminal and the C16 oracle runs on the implementation's own tcgetattr results.",
        "level_note": "Trusted: Lean kernel; pty harness and diff; Rust drop semantics; kernel tty layer; nix wrapper semantics as "
                      "read from its source (mask values observed). Hang-up exit excluded by the property (C17).",
        "assumptions": ["the terminal stays connected (property text)",
                        "writes of a paste switch either always succeed or always fail during one read (Cfg.writeOk)"],
    }

PROPS["C19"] = {
        "module": "Rl.Props.C19",
        "targets": [{"name": "pr", "gen": "pr", "header_tokens": 4}],
        "shards": {"quick": 8, "thorough": 16},
        "rule": "pr: 1-3 real threads calling ExternalPrinter::print against the real Editor::readline on a pty (emacs mode, "
                "cols 80/20/10 so that lines wrap). Scenarios of 2-4 reads: prints between reads, racing with the start of a read "
                "(issued right before / after the read is requested, no barrier), during a read with keys one at a time or as "
                "type-ahead racing with the prints, racing with Enter, after the read; messages with and without trailing line "
                "break; seed-dependent spins/pauses perturb the schedule; 1 scenario in 16 sends a message while the digit-argument "
                "sub-loop waits (D21). Every scenario ends with a read that reaches a barrier (all print calls returned, reader "
                "asleep in select) before its Enter. 1400 scenarios (thorough 12000) + 6 fixed ones. The observation is the terminal "
                "stream reduced to markers/messages merged with the main thread's actions; the correspondence is: the trace is a trace "
                "of the protocol model (breadth-first replay over all interleavings of the atomic steps); the oracle checks whole / "
                "at most once / shown at the barrier / order within one wait / repaint after a shown message / no direct write "
                "inside a read / returned lines equal the typed text. distinct = hash of the request.",
        "trivial_impl_regex": r"",
        "exhaustive": {"quick": False, "thorough": False},
        "trusted_base": [
            "SeqCst AtomicBool, std::sync::mpsc::sync_channel(1) (one buffered message, send blocks while full, try_recv finds a "
            "completed send), Mutex and pipe semantics are assumed as modelled in Rl/Printer.lean",
            "one write(2) of a short message to a terminal is atomic with respect to other writers (tty atomic_write_lock): messages are atomic events in the model",
            "the harness reduces the byte stream to events (message pattern `[[T<t>M<id>]]`, shown = directly preceded by the row-clearing "
            "sequence, repaint = line break + cleared row + prompt); barriers are placed at stream positions where the /proc observation "
            "(thread asleep in select / read(0), nothing pending on the tty, all keys dispatched) held with no output in flight",
            "the schedule is randomised, not enumerated: interleavings the OS never produces are covered by the Lean theorems only"],
        "level_text": "Unbounded Lean theorems over all interleavings of the atomic steps of the printer protocol, for any number of printer "
                      "threads and messages: every message handed to print is in exactly one place (in hand, channel, editor, terminal) and "
                      "reaches the terminal at most once; the wake-up pipe holds a byte only when the channel holds a message, so a wake-up "
                      "always finds its message; per thread the shown messages (and the directly written ones) appear in send order; when the "
                      "reader is blocked in select and no printer holds the writer lock the channel is empty and every returned print is on the "
                      "terminal; showing a message leaves the edited text alone. The model is tied to /repo by replaying traces of real threads "
                      "on a pty. Findings D18 (direct write over the prompt) and D21 (sub-loops defer messages) are reachable states of the model.",
        "level_note": "Trusted: Lean kernel; atomics/channel/mutex/pipe semantics as modelled; tty write atomicity; the harness's stream parser and "
                      "/proc-based barriers. The repaint is checked on the stream (prompt follows), not through the C02 screen emulator.",
        "assumptions": ["'a read waits with no key pending' is evaluated at barriers where every print call has returned",
                        "emacs mode; sub-loop = digit argument"],
    }

PROPS["C20"] = {
        "module": "Rl.Props.C20",
        "features": "sqlite",
        "targets": [{"name": "sqlite", "gen": "sqlite", "header_tokens": 4}],
        "shards": {"quick": 8, "thorough": 16},
        "trivial_impl_regex": r"",
        "rule": "sqlite: SQLiteHistory on a temporary database file through the public API. (1) exhaustive: every sequence of <=2 "
                "(thorough <=3) store mutators (add x5 lines incl. empty / blank-led / mixed case, set_max_len 0..2, ignore_dups / "
                "ignore_space on/off, reopen with 3 configurations, 2 abrupt terminations: a forked child opens the file, adds lines and "
                "_exit()s without closing, the parent reopens) from 3 initial configurations, the editor's walk (previous-history to the "
                "oldest entry, next-history back) after every step and a probe battery at the end (len, get 0..4 both directions, "
                "search / starts_with x 6 texts x start 0..3 x both directions, hinter, walk); (2) every search text of length <=3 "
                "(thorough <=4) over {a b A \" ' ( ) * - : ^ ! space e-acute} x {search, starts_with} x both directions x 3 starts + "
                "HistoryHinter, against two fixed stores in which every alphabet character occurs at the start / inside / end of a token; "
                "(3) 3000 (thorough 60000) random sequences of <=25 (<=50) ops mixing all of the above, search texts mostly pieces of "
                "stored lines with case flips and query syntax appended. Oracle on the implementation: add verdicts, walk = accepted "
                "lines (newest occurrence per session when ignore-dups is on, newest n after set_max_len n) each once in order both ways, "
                "a search hit is a stored line containing / starting with the text ignoring ASCII case at an in-range char-boundary "
                "offset, no error, no hinter panic. distinct = hash of the request.",
        "exhaustive": {"quick": True, "thorough": True},
        "trusted_base": [
            "SQLite itself: durability of committed statements, rowid allocation (max+1, chosen before REPLACE deletes), unique-index "
            "conflict handling, trigger execution with recursive_triggers=1 — modelled in Rl/Sqlite.lean as an abstract row store and "
            "correspondence-checked, not proved",
            "FTS4 tokenizer `simple` and the MATCH query parser: an oracle parameter `fts` in the model and in every theorem; the driver "
            "instantiates it with Rl.Sq.ftsSimple (phrase of ASCII-folded alphanumeric/non-ASCII tokens, optional ^ anchor, optional "
            "prefix star), agreement with SQLite is part of this correspondence on the alphabet only",
            "str::find modelled as naive first-match search (Rl.findSub), to_ascii_lowercase as Char.toLower",
            "abrupt termination is _exit() of a forked child (no destructor, no sqlite3_close); power loss / torn pages are not exercised",
            "char::is_whitespace taken from the implementation via the charinfo header"],
        "level_text": "Unbounded Lean theorems about the row-store model of SQLiteHistory, for every FTS oracle: refusal rule iff; an accepted "
                      "line becomes the newest row and replaces its older occurrence of the same session under ignore-dups; rowid order "
                      "invariant over all operation sequences; the editor's walk visits every stored row exactly once each way in order; "
                      "reopening the same file yields the same walk; a search / starts_with hit really contains / starts with the text "
                      "ignoring ASCII case at an in-range boundary offset and the hinter cannot panic. The model is tied to /repo by an "
                      "exhaustive + random differential run on real database files, including abrupt termination.",
        "level_note": "Trusted: Lean kernel; harness/diff; SQLite engine semantics as modelled (row store, FTS oracle) — "
                      "correspondence-checked only.",
        "assumptions": ["one connection at a time on the database file (the harness drops the handle before another process opens it)",
                        "feature with-sqlite-history (off by default) — the harness is built with it"],
    }

PROPS["C02"] = {
        "module": "Rl.Props.C02",
        "targets": [{"name": "render", "gen": "render", "header_tokens": 10}],
        # 8 shards also in the thorough tier: under heavier load the pty key delivery races with the final hang-up
        "shards": {"quick": 8, "thorough": 8},
        "rule": "render: the real Editor::readline on a pty of width 2..16, 20, 24, 31, 40, 80 (thorough: every width 2..40 and 80); "
                "prompts empty / ASCII / wide / non-ASCII / longer than the width / with a line break; emacs key scripts weighted "
                "towards the right margin (runs of one character, wide characters, combining marks, line breaks via C-v C-j, cursor "
                "motion by char/word/line/buffer, kills, yanks, transpositions, case changes, undo, C-l, history recall of multi-line "
                "entries, numeric arguments, hint completion) and the vi key scripts of target ed (minus incremental search); initial "
                "text; scripted hinter (short, wide and wrapping hints), bracket highlighter, circular completion; one key at a time and "
                "type-ahead; incremental searches in emacs mode (C-r / C-s, non-empty history, typed characters, direction changes, Backspace, "
                "every kind of exit incl. commands that repaint nothing, abort, end of input). The bytes written to the terminal are cut at every Event::Any callback and fed to the Lean VT100 emulator. "
                "Oracle (on the implementation): at every callback the screen is exactly prompt+line+hint rendered from scratch (inside an "
                "incremental search: the search prompt, computed from the callbacks' keys and the declarative search of C09), the "
                "cursor is on the insertion-point cell, no wrap is pending; on return the text (without hint) is shown and the cursor is "
                "at column 0 below it. Correspondence: the editor model's render log replayed through the model renderer gives the same "
                "callback states, screens, cursors and outcome (screens are compared, not escape-sequence spelling). "
                "distinct = hash of the request; non-trivial = at least one callback.",
        "trivial_impl_regex": r"=> .*",
        "exhaustive": {"quick": False, "thorough": False},
        "trusted_base": [
            "the Lean terminal emulator (Rl/Term.lean) is the independent VT100-style terminal of the property: deferred wrap, early wrap "
            "of wide characters, zero-width characters join the previous cell, LF acts as CR LF (ONLCR stays on); no scrolling (unbounded rows)",
            "character widths are unicode-width's (charinfo header); a written space and a blank cell are the same to the observer; SGR is ignored",
            "the pty harness cuts the output where the Event::Any handler runs (marker written from inside the handler)",
            "validators' messages, list completion, incremental-search prompts, the external printer, tabs and control characters in the "
            "text are outside this check (not in the property's quantifier, or other properties)"],
        "unproved": [],
        "level_text": "Lean theorems, for every lawful segmenter, width table and terminal width >= 2, over prompts/lines/hints made of "
                      "line breaks and printable clusters of width 0/1/2: the grapheme loop of calculate_position simulates the cursor "
                      "of a VT100-style terminal (deferred wrap, early wrap of wide characters, zero-width joins); positions computed "
                      "piecewise add up; the cell where the renderer puts the cursor is the insertion point of the declarative spec; "
                      "the renderer's own newline is written exactly when the terminal has a wrap pending. Screen content, proved on the "
                      "cells of the emulator: the bytes of refresh_line (clear the old rows, print prompt+line+hint from the origin, own "
                      "newline iff wrap pending, ESC[nA, CR, ESC[nC - the CSI parser reads the decimal digits of n as n) lead from any "
                      "state the renderer believes correctly to the terminal showing exactly the new prompt, line, hint and cursor, "
                      "nothing left over (C02_full_refresh); a cursor-only move keeps the text and lands on the new insertion point "
                      "(C02_move_cursor); under the guard of edit_insert the one character written gives what a repaint gives "
                      "(C02_fast_path); clear_screen; the last move plus the final newline leave the cursor at column 0 below every row "
                      "of the text (C02_final_full); and the composition (C02_history): for every render log that replays without panic "
                      "and is coherent (C02_Coherent: texts of the quantified kind; cursor-only moves issued for the displayed line under "
                      "the read's own prompt; fast path only at the end of a hint-less line; nothing after the final newline), at every "
                      "Event::Any callback the terminal that has interpreted all bytes shows the callback's prompt, line and cursor with "
                      "its hint or without any hint. The five statements announced earlier in the vocabulary of calculate_position are "
                      "refuted as written (C02_*_statement_false: nothing was asked of the segmentation of the old text / of the "
                      "coherence of the log) and proved with the missing hypotheses (C02_full_refresh_consistent, "
                      "C02_move_cursor_consistent, C02_fast_path_shows, C02_final_full, C02_history). The editor model's own log (Rl/Lemmas/RenderLog*.lean): an invariant relating the editor state to the "
                      "replayed renderer state (believed cursor = Ed.layoutCursor; the screen shows the own prompt, the line and the cursor) is "
                      "established by the first repaint and kept by every logging primitive (refreshLine, refreshLineWithMsg, moveCursor in "
                      "its three ways, editInsert fast and slow path, the callback), by next_cmd in emacs and vi mode (numeric-argument "
                      "prompts included), circular completion, the dispatch loop and the main loop; every C02_StepOK clause is discharged "
                      "at its logging site and no replay step panics. C02_editor_log_coherent / C02_editor_shows conclude, for logs whose "
                      "texts are of the quantified kind and cursors on char boundaries (LogFine), that the model's log is coherent and that "
                      "at every callback the emulated terminal shows the prompt on display (the own one, or inside an incremental search the "
                      "search prompt) + line + cursor - with no hypothesis about the line buffer: LBFaithful (operations that report no change "
                      "changed nothing: 11 motions, kill for every Movement, transpose_chars, edit_word, transpose_words, indent, yank, yank_pop, "
                      "delete, Changeset::undo) is the theorem C02_lbFaithful (Rl/Lemmas/LBFaithful.lean) since the repairs of D44 (yank_pop) and "
                      "D45 (edit_yank). Remaining hypotheses of the two final theorems: cols >= 2, C02_Plain prompt, control characters of width 0 "
                      "(C02_CtlZero), and the two halves of LogFine of the produced log, stated apart (logFine_iff): LogPlain (every logged text "
                      "consists of PlainG clusters: an input restriction, kept as a hypothesis on the log - as a predicate on the inputs it needs an "
                      "alphabet restriction on segmenter / width table / case mappings and a character-level closure pass over the whole editor) and "
                      "LogBd (every logged cursor is on a character boundary). LogBd is now DERIVED (C02_logBd, round 5): BdI = WF s.line, WF s.saved and LogBd s.render is a step invariant carried through every "
                      "rendering primitive, both key maps, every command of execute, circular and listing completion, incremental search, the dispatch "
                      "loop, the main loop and the initial text (Rl/Lemmas/RenderLogBd*.lean; C03 totality theorems and L's lmsafe_* per operation, C09 "
                      "for search positions; replace slices at both ends, so no completer contract is needed). The two final theorems take, instead "
                      "of LogBd, only indentSize <= 255: that yank_pop / the undo log leave the cursor on a boundary whenever they return is the "
                      "theorem C02_popUndoWF (Rl/Lemmas/PopUndoWF.lean, round 6); C02_logBd_statement (the round-4 target with C17's helper "
                      "contracts) is the corollary C02_logBd_with_contracts. The text half at character level (round 6, "
                      "Rl/Lemmas/RenderLogAlpha.lean): for an alphabet A over which every text segments into PlainG clusters (AlphaPlain S R A, a "
                      "hypothesis on segmenter, width table and alphabet) LogPlain follows from LogAlpha A - every logged prompt, line and hint is "
                      "written over A, no segmenter in it (logPlain_of_alpha; C02_editor_shows_alpha). That the characters reaching the screen are "
                      "those of the inputs (a closure invariant over line, saved line, kill ring, undo log through every line-buffer operation, and "
                      "which characters the key maps put into commands) is not proved: LogAlpha stays a hypothesis on the produced log. First stage of that step (round 7, Rl/Lemmas/AlphaLM.lean, C02_alpha_ops): the line-buffer closure calculus AOp A op - from a buffer over A, whenever op returns, the new buffer, every answered text and every notified text (what reaches undo log and kill ring) are over A - with rules for the primitives and a structural tactic, proved for 31 operations (insert, insert_str, yank, yank_pop, delete, backspace, every kill, transpose_chars/words, update, replace, delete_range, drain_around, all motions); not covered: edit_word (case mappings), indent (blank), the undo replay, and the editor-level pass with the hypotheses on decoded keys / history / candidates / hints. Every command of execute (pres_execute), listing and circular completion and - since "
                      "the repair of D42 - incremental search (est_searchLoop) are lifted. "
                      "The differential check covers the real Editor::readline "
                      "on a pty at widths 2..40 and 80, its output interpreted by the Lean terminal emulator at every Event::Any "
                      "callback and compared with the from-scratch rendering (oracle) and with the model renderer's screen.",
        "level_note": "Trusted: Lean kernel; the terminal emulator Rl/Term.lean as the property's VT100-style terminal; unicode-width "
                      "tables via charinfo; pty harness (output cut at the callbacks by a marker written from the handler). The composition "
                      "theorem is about coherent render logs; coherence of the editor model's log is covered by the tie, not proved. Reading decision: a hint the editor holds may be shown or not; a stale or partial hint fails.",
        "assumptions": ["cols >= 2", "no TAB / control character inside prompt, line or hint"],
    }

PROPS["C03"] = {
        "module": "Rl.Props.C03",
        "targets": [{"name": "lb", "gen": "lb", "header_tokens": 5}],
        "shards": {"quick": 16, "thorough": 16},
        "trivial_impl_regex": r"",
        "rule": "exhaustive (mode i: every op applied to the same initial state): all buffers of <=3 chars (thorough <=4) over the "
                "10-character sub-alphabet {a Z _ , space LF e-acute(2B) CJK(3B,wide) emoji(4B) U+0301} x every char-boundary cursor x "
                "the full op battery (every public LineBuffer method; 3 word definitions x 3 anchors, 4 char-search kinds x the "
                "buffer's characters + an absent one, every Movement for copy/kill, indent/dedent amounts {0,1,2,33}, counts "
                "{0,1,2,3,(4),65535}, explicit-index primitives at every boundary pair plus contract violations) with capacity 4096, and "
                "the capacity-sensitive ops (update/insert/yank/yank_pop/transpose_chars/edit_word) with capacities {len-1,len,len+1,len+3}; "
                "structured 3- and 5-line buffers; random multi-line buffers (alphabet adds tab, CR, ZWJ, sharp-s, U+3000, NBSP) with op "
                "sequences <=30 in sequence mode (notifications compose, capacity growth tracked). Oracle: the five C03 conjuncts "
                "evaluated in Lean on the implementation's own observations, plus: an operation that answers 'nothing happened' "
                "(false / None) left text and cursor alone (said-nothing-but-changed; what caught D44). corpus/C03.txt: D44/D45 regression lines.",
        "exhaustive": {"quick": True, "thorough": True},
        "trusted_base": [
            "unicode-segmentation modelled by Rl.uaxSeg over the gcb column of the charinfo header (agreement is part of this correspondence on the alphabet)",
            "char::is_alphanumeric / is_whitespace / to_uppercase / to_lowercase / unicode-width taken from the implementation via charinfo; str::to_lowercase modelled per char (final-sigma rule not modelled; sigma not in the alphabet)",
            "String::capacity(): with_capacity gives exactly the requested capacity and growth follows RawVec::grow_amortized (max(2*cap, needed, 8)); observable only through insert/yank/update refusing",
            "Layout::width only in GraphemeClusterMode::WcWidth (sum of char widths); u16 column arithmetic modelled in Nat",
            "move_to_line_up/down take a crate-private Layout: reached through the add-only hook `pub use layout::{Layout, Position}` under cfg(kkawakam_rustyline_verif)",
            "can_growth(true) is pub(crate): the harness only reaches fixed-capacity buffers; the model keeps the canGrow field for the editor model"],
        "level_text": "Lean theorems about the LineBuffer model (per operation: no panic from a well-formed state, cursor stays on a boundary, "
                      "notifications replay old text to new text, motions/copies pure, capacity respected), for every lawful segmenter; model tied to "
                      "/repo by an exhaustive + random differential run of every public LineBuffer method with a recording listener.",
        "level_note": "Proved for EVERY public operation and every state: notifications replay old text to new text (C03_notifications_replay); "
                      "motions/queries/copies leave text and capacity alone and notify nothing (C03_motion_copy_pure). Proved per operation "
                      "(every argument value incl. counts 0 and 65535, every word definition/anchor/char search/movement): no panic from a "
                      "well-formed state + cursor on a character boundary, for EVERY public method incl. indent/dedent (C03_indent_total_wf, "
                      "amount <= 255 = u8; per-line loop invariant buf = X ++ joinNl lines ++ Z) except insert_str; capacity clause for "
                      "insert/yank/update, and for yank_pop after the repair of D44 (C03_capacity_yankPop: refuses before anything is removed, or the result fits); assembled in C03_op_total_wf_replay_partial (every op but insert_str) and "
                      "C03_op_total_wf_replay_all_partial (every op, sole extra hypothesis: insert_str's index is not before the cursor). "
                      "insert_str with an index before the cursor is a known finding (C03_insertStr_counterexample).",
        "unproved": ["C03_op_total_wf_replay_statement (full; false for insert_str only: C03_insertStr_counterexample; proved for every other op and for insert_str at/after the cursor)"],
        "assumptions": [],
    }

PROPS["C04"] = {
        "module": "Rl.Props.C04",
        "targets": [{"name": "lb4", "gen": "lb4", "header_tokens": 5}],
        "shards": {"quick": 16, "thorough": 16},
        "trivial_impl_regex": r"",
        "rule": "same enumeration as C03 restricted to motions, kills, copies, indent, edit_word, transpose_*, every Movement with counts "
                "1..4 and 65535, plus structured 3- and 5-line buffers and random multi-line op sequences; oracle: the declarative "
                "targets/spans of Rl/Spec/Motion.lean evaluated on the implementation's observations (vertical motions: destination line "
                "and display column, checkVertical + checkVerticalCol).",
        "exhaustive": {"quick": True, "thorough": True},
        "trusted_base": [
            "as C03 (segmenter, Unicode predicates from the implementation, WcWidth)",
            "the declarative spec Rl/Spec/Motion.lean is the reading of the property text (DESIGN.md 7.1 reading decisions)"],
        "level_text": "Declarative motion/span spec as executable oracle on the implementation plus Lean theorems relating model targets and "
                      "kill/copy spans to the spec (EVERY Movement, ViFirstPrint included since the repair of D46), for every lawful segmenter (two movements: every stable one).",
        "level_note": "Proved: character motions = whole clusters (forward and backward); the word loops of next_word_pos (anchors Start, "
                      "AfterEnd; motion and kill/copy range) and prev_word_pos return exactly the declarative n-th word start/end or the text end; "
                      "move_home/move_end = declarative line start/end; char searches f/F land on the n-th occurrence for every lawful segmenter, "
                      "t/T one whole cluster before/after it for every segmenter that is stable under cutting at its own boundaries "
                      "(C04_char_search_partial; uaxSeg is: C04_uaxSeg_stable; false without it: C04_char_search_counterexample). "
                      "kill/copy = exactly the declarative span, text reported, rest unchanged, cursor at the span start, one theorem per movement "
                      "(C04_kill_<mvt>_is_span / C04_copy_<mvt>_is_span: chars, words, begin/end of line, whole line, line up/down, buffer ranges, "
                      "char searches, and since the repair of D46 vi ^: C04_moveToFirstPrint_target, C04_kill_viFirstPrint_is_span, C04_copy_viFirstPrint_is_span) "
                      "assembled in the theorems C04_kill_is_span / C04_copy_is_span (EVERY Movement; the statements carry the segmenter hypotheses "
                      "S.Stable for T-searches and S.NlAlone = the line break is its own cluster for the whole-line kill of an empty line). "
                      "Vertical motion (after the D36 repair): lands in the n-th line above/below or the first/last, exactly on the declarative "
                      "verticalTarget = first cluster boundary of that line at or right of the cursor's display column, else the line end "
                      "(C04_moveToLineUp_dest / C04_moveToLineDown_dest); the display-column oracle checkVerticalCol is satisfied for every "
                      "lawful segmenter and every width function, wide and zero-width clusters included (C04_moveToLineUp_column, "
                      "C04_moveToLineDown_column, C04_vertical_column; a wide cluster straddling the column is stepped over). indent, edit_word, "
                      "transpose_chars are checked by the oracle on the implementation only. Known finding: vi `e` with count > 1.",
        "unproved": ["C04_word_target_beforeEnd_statement (refuted: C04_word_target_beforeEnd_counterexample, pinned by test::vi_cmd::e)",
                     "C04_char_search_statement (refuted for an unstable lawful segmenter: C04_char_search_counterexample; proved for stable ones)",
                     "C04_char_search_total_statement (the strict reading 'no n-th occurrence, no motion' is refuted: the code clamps to the last occurrence, C04_char_search_clamped; reading decision in DESIGN 7.1)"],
        "assumptions": [],
    }

PROPS["C11"] = {
    "module": "Rl.Props.C11",
    "targets": [{"name": "sess", "gen": "sess", "header_tokens": 3},
                {"name": "sessx", "gen": "sessx", "header_tokens": 6}],
    "shards": {"quick": 16, "thorough": 16},
    "trivial_impl_regex": r"",
    "rule": "sess: ONE process, k FileHistory objects on one real temporary file that exists before the sessions start; the request is "
            "the interleaved program (l<i> load, a<i>:<text> add, p<i> append, s<i> save, m<k> set the file's mtime back to the k-th "
            "distinct mtime seen so far, d dump). After every append/save the observation holds the status, the index of the file's "
            "mtime among the distinct mtimes seen, the raw bytes and the entries a fresh FileHistory (limit 10^6, no ignore rules) "
            "loads from it; d adds every session's iter(). The model is driven with the observed mtime indices. "
            "Exhaustive: every interleaving of two session programs load;(add|append|save)* of <=4 steps in which every "
            "append/save has something new (10 programs; thorough: all 40 programs) x 144 variants (limits (1,1),(2,2),(3,3),(1,3),(3,2),(2,1) "
            "x ignore-dups off/on x distinct lines / the same line every time x 0,1,2 initial entries x natural mtimes / mtime frozen "
            "at the initial value after every write); quick runs 6 of the 144 variants per interleaving in rotation, thorough 36. "
            "Every interleaving of three programs of <=3 steps x 80 variants (quick 2 per interleaving in rotation, thorough 20), thorough "
            "also 200000 random interleavings of three programs of <=4 steps. Random: 6000 (thorough 150000) programs of 2-4 sessions, "
            "4-24 (4-40) ops, limits 1..8, shared ignore-space, per-session ignore-dups, loads in the middle, lines with line feed / "
            "backslash / carriage return / leading blank / empty, saves, mtime resets, 1 in 12 with no file at the start. "
            "sessx (property oracle only, no model): 2-4 real threads (t/T) or child processes (p/P) each load, then 10-30 (thorough "
            "20-100) times add a fresh line of varying length and append to one file under fd-lock while the main thread keeps loading "
            "it; limit never reached (1000) or small (1,2,3,7); T/P: worker 0 has limit 1 so its appends take the save shortcut (the D14 "
            "window). 16 runs quick, 400 thorough. distinct = hash of the request.",
    "exhaustive": {"quick": True, "thorough": True},
    "trusted_base": HF_TB + [
        "file system: one path; a write is whole-file replacement / concatenation with a modification time handed out by the "
        "environment (any number; the harness reports the observed mtime as an index into the distinct values seen); flock makes each "
        "public call one step (operation-atomic model) - that real threads/processes respect this is exercised by target sessx "
        "(property oracle only), not proved",
        "on this kernel (multigrain timestamps) every write that follows a stat gets a new mtime, so 'indistinguishable mtimes' "
        "are produced by File::set_modified back to an earlier observed value (model: Op.touch)",
        "the sub-operation model (SubSys: File::create / path.exists() before the lock) is not tied to the code by a "
        "differential run (no hook); D14 was confirmed on the real code by sessx before the repair",
        "the read-back history uses limit 10^6 on both sides (Rl.Drv.FileSession.bigMax)"],
    "unproved": [],
    "level_text": "Unbounded Lean theorems about a labelled transition system of ANY number of FileHistory sessions (each with its own limit "
                  "and ignore settings) on one file, over every interleaving of load/add/append/save and every modification time the "
                  "environment may hand out: the file is always a file save_to wrote and always loads (C11_always_loads); an append with new "
                  "lines leaves exactly one of the three shapes of the spec - old ++ new, the store's acceptance/size rule folded over old ++ new, "
                  "or the new lines alone when they fill the limit (C11_append_shape); while old ++ new fits the session's store the file "
                  "is exactly old ++ new on every path, and along whole traces the file equals a ghost list that only grows at the end "
                  "(C11_append_keeps, C11_no_loss). The counting form of 'limit not exceeded' is proved as stated (C11_no_loss_counting: fresh "
                  "sessions with a common ignore-space setting, a trace of load/add/append, pairwise distinct lines, |initial| + number of adds <= "
                  "every max_len imply the per-append form C11_fitsRun), and under it the system IS the reference program of the property text "
                  "(C11_counting_file: the file is the initial entries followed, for every append in trace order, by the lines its session entered "
                  "since its previous append/load; no line twice; only entered lines) and, for a session whose loads precede its adds, the lines of "
                  "that session in the file followed by its unwritten lines are exactly the lines it entered, in the order entered "
                  "(C11_counting_session); a common ignore-space setting is needed (C11_counting_needs_common_ignore_space). After a write the "
                  "session has nothing unwritten and a second append writes nothing "
                  "whatever the others did in between (C11_write_resets, C11_no_double); with distinguishable modification times and loads "
                  "at start the file never exceeds the appending session's limit (C11_bound), and a load into a non-empty history breaks that "
                  "(C11_bound_needs_load_at_start). Sub-operation model (save = open ; [lock] write, append = exists? ; [lock] rest): for the "
                  "repaired code with the file present every sub-step is a stutter or exactly one atomic operation and every reachable state "
                  "(file, clock, all sessions) is a state of the operation-atomic system (C11_subop_step, C11_subop_refines_sys, "
                  "C11_subop_refines = the stated refinement, C11_subop_always_loads as a transferred corollary); D14 (save truncated before "
                  "taking the lock) is an explicit counter-example schedule for the old code, and both hypotheses of the refinement are needed "
                  "(C11_subop_refines_needs_repair, C11_subop_refines_needs_file). The atomic model is tied to /repo by "
                  "exhaustive + random interleavings on real files; real concurrency is exercised by threads and processes with the "
                  "property oracle only.",
    "level_note": "Trusted: Lean kernel; harness/diff; atoms/UTF-8 as in C10; the file-system abstraction (whole-file writes, mtime as an "
                  "environment input, flock = one step per call). True concurrency (threads, processes) is exercised, not proved; the "
                  "sub-operation model, for which the refinement is proved, is not tied to the code by a differential run. "
                  "No statement of Props/C11.lean is left unproved. "
                  "Sessions are assumed to share ignore-space when they share a file (a session with ignore-space drops blank-led lines "
                  "another session wrote when it rewrites the file: C11_counting_needs_common_ignore_space). In the counting theorems a line "
                  "entered before a load of the same session is never written (load resets new_entries; the reference program says so "
                  "explicitly), which is why C11_counting_session asks for loads before adds.",
    "assumptions": ["the file exists before the sessions start (property quantifier); two sessions that both find it missing can lose a "
                    "line (C11_subop_missing_file_race)",
                    "sessions load at start (a load into a non-empty history records a wrong size: C11_bound_needs_load_at_start)",
                    "save overwrites by design (DESIGN 7.1): the no-loss clause is about load/add/append traces"],
}

# properties not (yet) claimed, with the reason (kept current; see DESIGN.md)
NOT_APPLICABLE = {
}
PROPS["C05"] = {
    "module": "Rl.Props.C05",
    "targets": [{"name": "ed05", "gen": "ed05", "header_tokens": 9}],
    "shards": {"quick": 8, "thorough": 16},
    "rule": 'ed05: key scripts on a pty, emacs (5/6) and vi, in which four fifths of the emacs keys come from the undo mix: typed characters (alphanumeric, blank, punctuation, multi-byte), the Undo probe C-_ at arbitrary points (also with the numeric argument M-2), Backspace / C-d / C-h, kills (C-w C-k C-u M-d M-DEL), yank, C-t / M-t / M-u / M-l / M-c, motions, quoted insert, a bracketed paste, an aborted incremental search (C-r text C-g); the rest are the general emacs / vi key mixes (history, completion with a scripted completer, searches); vi (1/4 of the reads): insert sessions with the Undo probe C-_ inside them, u, counted u, ., operators, x X D p P. Oracle: oracleC05 over the Event::Any callbacks (every post-undo text occurred earlier in the same read; one undo does not jump past the state before the most recent word-sized-or-larger edit; repeated undo reaches the empty line; an aborted search or completion leaves the following undo as if it had not been started), in vi mode oracleC05Vi (own log of the texts of the read; u / C-_ also inside an open insert session; a session opened by a command is one group when it is left) plus the C17 sanity oracle. Corpus: corpus/C05.txt.',
    "trivial_impl_regex": r"=> .*",
    "exhaustive": {"quick": False, "thorough": False},
    "trusted_base": ["pty harness (quiescence detection through /proc, one key press at a time) and diff",
                     "scripted helpers are functions of the text (same table on both sides)",
                     "the theorems are about the Changeset model (Rl/Undo.lean) and the three line-buffer primitives Change::undo calls; that the editor model keeps `replayLog undos = line` across whole commands (every LineBuffer call reports exactly what it did: property C03) is checked by the differential run and the oracle, not proved"],
    "unproved": ['C05_abort_transparent_statement (false in vi mode as written: C05_abort_transparent_vi_false; emacs clause proved: C05_abort_transparent_emacs; no vi clause proved)'],
    "level_text": "Lean theorems, for every stack and every notification sequence (no bound), about the undo-log model: the stack is an exact log (replaying it oldest-first reproduces the line after any listener notifications, all three merge rules included: C05_log_replay, C05_log_markers); Begin/End stay balanced under begin / notifications / truncate and end closes all levels (C05_balanced); begin ... truncate(mark) restores stack and level exactly (C05_truncate_restores: the D10 repair); one pass of the undo loop pops exactly one unit - one change or one complete End..Begin group - for every repeat count (C05_undo_unit, also for the model's own loop); Change::undo inverts a recorded change on the line buffer, proved from the LineBuffer definitions (C05_undo_inverts); abort transparency on the EDITOR model, emacs mode, for every key sequence typed inside the sub-loop: an aborted incremental search and an aborted (or candidate-less) circular completion hand back None with the undo log - stack and group level - exactly as when the command started (C05_abort_transparent_emacs; searchLoop_log / completeCircular_log: loop invariant SubLog = begin of the log before, then notifications and nested begins; wp_nextCmd_emacs_changes: next_cmd leaves the log alone or opens one group; the mark never sinks; C05_ops_shape + C05_truncate_restores); C05_abort_transparent_statement (both modes, kept as a def) is false in vi mode for a benign reason - the insert session's open Begin is gone because a key inside the search left insert mode (C05_abort_transparent_vi_false, witness C05_vi_abort_closes_session by kernel evaluation); D47 and D48 (records of the sub-loop left in the log / the closed session re-opened by truncate) are repaired, regression example and corpus lines; under the log invariant Undo with any count never panics and leaves the line at the replay of the remaining older log, and an emptied stack means the start text (C05_undo_past_text, C05_undo_to_empty). The editor model is diffed against the real editor on a pty and oracleC05 runs over the implementation's callbacks. Partial: the lifting of the log invariant and of abort transparency to whole editor commands (Ed states) is stated, not proved; D22 (a typed alphanumeric merges into a preceding yank/paste Insert) is recorded as a witness theorem and deliberately not judged by the oracle; Undo keeps the markers balanced (C05_undo_balanced: level = number of unmatched Begin markers after an Undo inside an open group too; D38 repaired) and a change replayed by . closes its own group (D39 repaired).",
    "level_note": 'Trusted: Lean kernel; pty harness; the log-level theorems take the notification stream as given (its faithfulness is C03).',
    "assumptions": ["keyseq_timeout = None (default)"],
}

PROPS["C06"] = {
    "module": "Rl.Props.C06",
    "targets": [{"name": "ed06", "gen": "ed06", "header_tokens": 9}],
    "shards": {"quick": 8, "thorough": 16},
    "rule": 'ed06: key scripts on a pty, emacs (3/4) and vi, in which three quarters of the keys come from the kill mix: runs of 1-4 kill commands (C-k, C-u, C-w, M-d, M-DEL, a fifth of them with numeric arguments M-1..3 and negative arguments M--) followed by C-y and 0-3 M-y, single-character deletions (C-d, Backspace, C-h, Delete), stray C-y / M-y, motions, C-l, typed text; counted yanks M-2 / M-3 C-y followed by M-y; vi (1/4 of the reads): runs of 2-3 kills (d + motion / d + f t F T + char / dd / D / C-w C-u C-k / c + motion) sometimes with one character delete, copy (y + motion) or motion inside, then P or p (also counted) and u; C-w C-u C-y in insert mode. Oracle: oracleC06 over the Event::Any callbacks (kill then yank re-inserts exactly the removed text; a run of kills yanks back as one text in left-to-right order; character deletions neither enter nor extend the kill; a counted yank inserts n copies and yank-pop replaces exactly the yanked text by the previous kill, cyclically; yank-pop without a yank does nothing; a kill / yank / yank-pop that ends an incremental search or a completion is judged like any other), in vi mode oracleC06Vi (operator groups seen through their operator key and the text removed; a d / c group is followed both as a kill and as a character deletion, a put must agree with one reading) plus the C17 sanity oracle. Corpus: corpus/C06.txt.',
    "trivial_impl_regex": r"=> .*",
    "exhaustive": {"quick": False, "thorough": False},
    "trusted_base": ["pty harness (quiescence detection through /proc, one key press at a time) and diff",
                     "scripted helpers are functions of the text (same table on both sides)",
                     "the theorems are about the KillRing model and the listener fan-out; which editor command issues which ring operation (lbKill / ringYank / ringYankPop / shouldResetKillRing in Rl/Editor.lean) is tied to the code by the differential run",
                     "slots.capacity() is modelled as the requested size (60): Vec::with_capacity may reserve more"],
    "unproved": [],
    "level_text": "Lean theorems for ALL reachable kill rings (induction over any sequence of ring operations, any capacity): the invariant (slots within capacity, index addresses a slot, last action = kill only with a non-empty ring) holds and kill / yank / yank-pop never hit slots[index] out of range (C06_ring_bounds, C06_no_panic); kill from a non-kill last action then yank returns exactly the killed text (C06_kill_yank, C06_kill_yank_reachable); any mixed run of forward and backward directional kills accumulates so that one yank returns slot with T0 = T1[..p] ++ slot ++ T1[p..] (C06_accumulate); deletions reported while not killing leave the ring unchanged, LineBuffer::kill sends no start_killing for the two character movements, and these commands reset the last action so the next kill opens a fresh slot (C06_char_delete, C06_char_kill_ring_unchanged); directly after a yank, j yank-pops replace the size just inserted by the slot one further back, cyclically through the stored slots and nothing else (C06_yank_pop, full cycle = number of slots). The editor model is diffed against the real editor on a pty and oracleC06 runs over the implementation's callbacks. the model answers every yank and yank-pop like the reference ring of the property text for every ring size and command sequence, also after the ring has wrapped (C06_yank_pop_most_recent, by the simulation of Lemmas/KillRingSim.lean; D33 repaired); a whole-line / whole-buffer kill inside a kill sequence keeps the left-to-right order (C06_around_keeps_order; D16 repaired); a kill after a vi copy opens its own slot (C06_copy_kill_yank; D40 repaired); kills across reads are covered by the model carrying the ring (initEd) and checked only through the raw / printer harnesses that run several reads. D15 (yank with a count recorded one copy's length) is repaired: C06_yank_count_pop.",
    "level_note": 'Trusted: Lean kernel; pty harness. D15, D16, D33, D40 are repaired (fix commits in known_findings.json, fixed).',
    "assumptions": ["keyseq_timeout = None (default)"],
}

PROPS["C01"] = {
    "module": "Rl.Props.C01",
    "targets": [{"name": "ed01", "gen": "ed01", "header_tokens": 9}],
    "shards": {"quick": 8, "thorough": 16},
    "rule": 'ed01: emacs and vi key scripts on a pty built from the README tables: printable text (1-4 byte, wide, combining), every documented key in every byte encoding (control bytes, ESC-prefixed Meta, CSI / SS3 / vt ~ / rxvt / linux-console arrows, Home, End, Delete, Alt- and Ctrl-arrows, Meta-Backspace), numeric arguments M-[-]d1..dk (digits with and without Meta, up to 5 digits, minus alone) before counted commands, vi counts, vi operator x [count] motion (d c y x h l w b e W B E 0 $ ^ f t F T ; , j k, doubled operator), r s S C D x X a A i I, quoted insert, C-x pairs, custom bindings of single keys (incl. a rebound documented key, an Alt key, a plain letter) and two-key sequences to a 17-command vocabulary, initial text (multi-line), history, scripted helpers, one-key-at-a-time and type-ahead delivery, with and without the external printer. Oracle (Lean, on the implementation): the documented key groups of the request are aligned with the Event::Any callbacks; count and direction shown to the handler, the text, cursor and vi input mode after each key, and the outcome of the read must be the documented ones.',
    "trivial_impl_regex": r"=> .*",
    "exhaustive": {"quick": False, "thorough": False},
    "trusted_base": ["pty harness (quiescence detection through /proc, one key press at a time or one type-ahead write) and diff",
                     "scripted helpers are functions of the text (same table on both sides)",
                     "the README tables and the byte-encoding table are transcribed by hand into Rl/Spec/Doc.lean",
                     "the oracle stops judging (never guesses) where it cannot follow the key grouping: byte strings outside the documented encodings, completion and vi-mode search sub-loops, input ending inside a group"],
    "unproved": ["C01_self_insert_once_statement: REFUTED as written (it quantifies over helpers whose hinter panics: C01_self_insert_once_counterexample); the theorem C01_self_insert_once holds for every helper whose hinter does not panic"],
    "level_text": "Lean theorems about the editor model, for every state, pending count and direction: every argument-free entry of the README tables — emacs mode, vi command mode, vi insert mode, each with the all-modes table — is mapped by the model's keymap (emacs / viCommand / viInsert) to the Cmd denoting the documented action resolved with the GNU count/direction conventions, the line untouched (C01_binding_table_emacs, _emacs_common, _vi_command, _vi_insert); for every operator d/c/y and every entry of the motion table viCmdMotion builds the documented movement, the count before the operator multiplied by the count before the motion, f/t/F/T + char remembered, the doubled operator = whole line (C01_vi_operator_motion, _counts, _char_search, _doubled); a custom-bound key yields exactly the bound command in all three keymaps, a bound two-key sequence its command and a non-completing pair none (C01_custom_binding_*, C01_custom_seq_binding, _fallback); the count handed to a command after M-[-]d1..dk is the signed decimal value, first four significant digits (C01_numeric_argument, C01_arg_value_*); a printable character is inserted exactly once at the cursor with any helper whose hinter does not panic (C01_self_insert_once; the unrestricted statement is refuted); no Move command changes the text (C01_motion_pure); C-c / C-d on the empty line / Enter on an accepted text end the read as documented at the step level, at the level of one main-loop iteration, from the decoded key in emacs mode and in the vi modes, and the value of readline is the text of the submitting state (C01_outcome_step, C01_outcome, C01_outcome_emacs_keys, C01_outcome_vi_keys, C01_outcome_readline). The editor model is diffed against the real Editor::readline on a pty, and the documented-meaning oracle (README tables as data, declarative C04 targets) runs on the implementation's callbacks for every generated script. Executing the denoted Cmd has the documented effect (C01_execute_refines_move / _kill / _change / _yank / _insert and the summary C01_execute_refines over the resolved actions): from a state with a well-formed growable line, a kill ring within bounds, a hinter that does not panic, a stable segmenter with the line break a cluster of its own, execute returns with status proceed and the line (text and cursor) is the one Act.apply — the oracle's declarative semantics — prescribes; C01_key_to_effect_emacs / _vi_command / _vi_insert chain the table theorems with it: from the decoded key of a README table to the effect on (text, cursor). `^` as a motion and as a range is covered since the repair of D46. The kill family has no caveat any more: a kill that leaves the text alone leaves the cursor alone, for every movement (kill_nothing_keeps_cursor). vi r with a count is covered where Act.apply judges it (C01_execute_refines_replace_char under JudgedReplace: n clusters present, n <= 65535, and one cluster back from the end of the inserted copies is the start of the last copy). C01_history_keys: C-p / C-n / M-< / M-> denote the commands whose effect on the store C07 proves (composed with C07_prev/next/first/last_refines_store). The case changes M-u / M-l / M-c are covered without side condition (C01_execute_refines_case: edit_word = editWordWant for every stable segmenter: skip_whitespace is the declarative skip, the word end found from the word start is the end of the alphanumeric run, the replacement is mapWord). C-t is covered in the situations of JudgedTranspose (C01_execute_refines_transpose: nothing to transpose, or the cursor strictly inside the text between clusters g1|g2 with g1 still a cluster when the text after g2 follows it). Not covered by these theorems (oracle and C04 only): the BeforeEnd word targets (known finding F-C04-vi-e-count), C-t with the cursor at the end of the text (the last-two-clusters case) or when the side condition fails; Act has no put actions (C-y, p, P are C06's).",
    "level_note": "Trusted: Lean kernel; pty harness; hand transcription of the README tables and byte encodings; the oracle stops judging where it cannot follow the key grouping. Reading decisions: vi C-d on a non-empty line, counts of 0, a minus typed after digits, `^` on a blank line, n-th character search with fewer than n occurrences, `a` with a count are not judged.",
    "assumptions": ["keyseq_timeout = None (default)"],
}
for _p in ["C01","C02","C03","C04","C05","C06","C07","C08","C10","C11","C12","C13","C14","C15","C16","C17","C18","C19","C20"]:
    if _p not in PROPS:
        NOT_APPLICABLE[_p] = "not yet claimed: model, theorems and correspondence for this property are still being built (DESIGN.md section 9 build order); the technique applies"
