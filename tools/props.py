"""Per-property configuration of the checks (which Lean module holds the theorems, which
harness targets tie the model to /repo, what the trusted base is)."""

COMMON_TB = []

PROPS = {
    "C09": {
        "module": "Rl.Props.C09",
        "targets": [{"name": "hist", "gen": "hist", "header_tokens": 5}],
        "shards": {"quick": 8, "thorough": 16},
        "trivial_impl_regex": r"",
        "rule": "exhaustive: every sequence of <=3 (thorough: <=4) store mutators (add x6 lines incl. empty/blank-led/"
                "multibyte, add_owned x2, set_max_len 0..3, ignore_dups/space on/off, clear) from 6 initial configs, "
                "alternating MemHistory/FileHistory, `dump` after every step and the full probe battery at the end "
                "(len, get 0..4, search/starts_with x 8 terms x start 0..4 x both directions); plus random sequences "
                "(<=30, thorough <=60 ops) over a richer alphabet. distinct = hash of the request; every request "
                "contains state-changing ops and probes, so all distinct requests are counted non-trivial.",
        "exhaustive": {"quick": True, "thorough": True},
        "trusted_base": [
            "str::find modelled as naive first-match search (Rl.findSub); agreement is part of this correspondence",
            "char::is_whitespace taken from the implementation via the charinfo header",
            "VecDeque modelled as a list",
            "feature case_insensitive_history_search is off in the default build and not claimed"],
        "level_text": "Unbounded Lean theorems about the MemHistory model: size-bound invariant over all operation sequences, "
                      "acceptance rule iff, every observation of every op sequence equals the declarative spec (refinement), "
                      "search/starts_with sound, nearest and complete. The model is tied to /repo by an exhaustive + random "
                      "differential run of MemHistory and FileHistory through the public API on every check.",
        "level_note": "Trusted: Lean kernel; the harness/diff; str::find = naive search and char::is_whitespace as reported "
                      "by the implementation (both correspondence-checked on the alphabet); VecDeque as a list. "
                      "case_insensitive_history_search feature not claimed.",
        "assumptions": ["FileHistory delegates to MemHistory for the store (checked: both kinds are driven)"],
    },
}

# properties not (yet) claimed, with the reason (kept current; see DESIGN.md)
NOT_APPLICABLE = {
}
for _p in ["C01","C02","C03","C04","C05","C06","C07","C08","C10","C11","C12","C13","C14","C15","C16","C17","C18","C19","C20"]:
    if _p not in PROPS:
        NOT_APPLICABLE[_p] = "not yet claimed: model, theorems and correspondence for this property are still being built (DESIGN.md section 9 build order); the technique applies"
