"""Per-property configuration of the checks (which Lean module holds the theorems, which
harness targets tie the model to /repo, what the trusted base is)."""

COMMON_TB = []

PROPS = {
    "C09": {
        "module": "Rl.Props.C09",
        "targets": [{"name": "hist", "gen": "hist", "header_tokens": 5}],
        "shards": {"quick": 8, "thorough": 16},
        "trivial_impl_regex": r"",
        "rule": "exhaustive: every sequence of <=3 (thorough: <=4) store mutators (add x6 lines incl. empty/blank-led/"
                "multibyte, add_owned x2, set_max_len 0..3, ignore_dups/space on/off, clear) from 6 initial configs, "
                "alternating MemHistory/FileHistory, `dump` after every step and the full probe battery at the end "
                "(len, get 0..4, search/starts_with x 8 terms x start 0..4 x both directions); plus random sequences "
                "(<=30, thorough <=60 ops) over a richer alphabet. distinct = hash of the request; every request "
                "contains state-changing ops and probes, so all distinct requests are counted non-trivial.",
        "exhaustive": {"quick": True, "thorough": True},
        "trusted_base": [
            "str::find modelled as naive first-match search (Rl.findSub); agreement is part of this correspondence",
            "char::is_whitespace taken from the implementation via the charinfo header",
            "VecDeque modelled as a list",
            "feature case_insensitive_history_search is off in the default build and not claimed"],
        "level_text": "Unbounded Lean theorems about the MemHistory model: size-bound invariant over all operation sequences, "
                      "acceptance rule iff, every observation of every op sequence equals the declarative spec (refinement), "
                      "search/starts_with sound, nearest and complete. The model is tied to /repo by an exhaustive + random "
                      "differential run of MemHistory and FileHistory through the public API on every check.",
        "level_note": "Trusted: Lean kernel; the harness/diff; str::find = naive search and char::is_whitespace as reported "
                      "by the implementation (both correspondence-checked on the alphabet); VecDeque as a list. "
                      "case_insensitive_history_search feature not claimed.",
        "assumptions": ["FileHistory delegates to MemHistory for the store (checked: both kinds are driven)"],
    },
    "C18": {
        "module": "Rl.Props.C18",
        "targets": [{"name": "direct", "gen": "direct", "header_tokens": 4},
                    {"name": "seg", "gen": "seg", "header_tokens": 1}],
        "shards": {"quick": 8, "thorough": 16},
        "trivial_impl_regex": r"eof|-",
        "rule": "direct: a child process linked against /repo with stdin a pipe calls Editor::readline until end of file. "
                "Regression seeds (clusters of 3..513 bytes followed by backspace, the repo's own test literal); exhaustive: "
                "every stream of <=3 (thorough <=4) characters over {a LF CR BS ( )} x {no validator, MatchingBracketValidator, "
                "scripted validator} alternating TERM=xterm (stdin-not-a-tty path) and TERM=dumb (unsupported-terminal path); "
                "structured: 2400 (thorough 40000) streams built line by line (1..6 lines of nested brackets with mostly matching "
                "closers, BS, lone CR, multi-byte characters; terminators LF / CRLF / CR CR LF / none) so that the bracket validator "
                "accumulates and accepts and kept text often ends in CR; "
                "random: 1600 (thorough 40000) streams of <=28 (<=60) items over brackets, LF, CR, BS, 2/3/4-byte characters, "
                "combining marks, ZWJ, pictographs, regional indicator, and clusters of up to ~1200 bytes, validators none / "
                "brackets / scripted verdict table (valid, invalid with/without message, incomplete, error). "
                "seg: the concrete UAX#29 segmenter against unicode-segmentation graphemes(true) on every string of <=4 "
                "(thorough <=5) characters over the DESIGN alphabet, every string of <=4 (<=5) over 14 class representatives "
                "(RI, emoji modifier, VS16, SpacingMark, Prepend, BS, ...), and 20000 (200000) random strings of 5..16. "
                "distinct = hash of the request; trivial = a stream with no line (observation `eof`) or the empty text.",
        "exhaustive": {"quick": True, "thorough": True},
        "trusted_base": [
            "BufRead::read_line on valid UTF-8 modelled as 'cut after every LF' (Rl.Direct.readLines); invalid UTF-8 is outside the property",
            "grapheme classes (gcb column) come from harness/src/common.rs::gcb_class, not from unicode-segmentation; the segmenter built on "
            "them (Rl.uaxSeg) is compared with unicode-segmentation on the alphabet by target `seg`; Hangul, GB9c and characters outside "
            "the alphabet are not covered by that comparison. The theorems hold for every lawful segmenter.",
            "validator messages written to stderr are not observed",
            "dev profile (overflow checks on): `out.len() - n` underflow is a panic in the model"],
        "level_text": "Unbounded Lean theorems over every lawful segmenter and every validator function: apply_backspace_direct equals the "
                      "stack evaluation of the cluster sequence and never panics; without a validator the session returns exactly the "
                      "lines of the stream (LF/CRLF stripped, final unterminated line included) then eof; with a validator a returned "
                      "line was judged Valid and is the accumulation of the consumed lines; no call panics. The model is tied to /repo "
                      "by running the real Editor::readline in a child process on a pipe.",
        "level_note": "Trusted: Lean kernel; harness/diff; read_line as LF-splitting; gcb classes of the harness table (checked against "
                      "unicode-segmentation on the alphabet); stderr messages unobserved.",
        "assumptions": ["input is valid UTF-8 (property quantifier)",
                        "on Invalid the text is left unchanged and no terminator is kept (C13 wording; pinned by the repo's test_readline_direct)"],
    },
    "C17": {
        "module": "Rl.Props.C17",
        "targets": [{"name": "keys", "gen": "keys", "header_tokens": 2},
                    {"name": "ed17", "gen": "ed17", "header_tokens": 9}],
        "shards": {"quick": 8, "thorough": 16},
        "rule": "keys: the byte decoder observed as the first key dispatched in vi insert mode: every single byte alone and with "
                "continuation bytes, every ESC-prefixed sequence of <=2 (thorough <=3) bytes over the 45 bytes the decoder "
                "distinguishes (type-ahead and one key press per byte), grammar-directed random CSI/SS3/rxvt sequences, random "
                "byte soup, valid multi-byte characters and near misses. ed17: the real Editor::readline on a pty fed arbitrary "
                "bytes (invalid UTF-8, truncated/over-long escape sequences, paste start without end, huge numeric arguments, "
                "NUL and C1 controls) mixed with structured emacs/vi key scripts, with scripted completer / validator / hinter "
                "helpers, with an external printer attached (select path) and as type-ahead; then the terminal hangs up. "
                "Oracle: no panic, the read returns after the hang-up, no stall while unread keys are buffered. "
                "distinct = hash of the request; non-trivial = the read dispatched at least one key.",
        "trivial_impl_regex": r"=> .*",
        "exhaustive": {"quick": False, "thorough": False},
        "trusted_base": [
            "utf8parse modelled as standard UTF-8 validation with the offending byte consumed (correspondence-checked)",
            "the pty line discipline in raw mode passes bytes through unchanged; one read() returns everything queued (<= 1024)",
            "ESC ESC: poll(100 ms) is modelled as 'the next key press arrives within the window' (the harness delivers it as soon as the reader blocks)",
            "SIGWINCH / SIGTSTP / real select-poll timing are exercised by the harness only (thorough tier), not proved"],
        "unproved": ["C17_decoder_progress_statement", "C17_editor_no_panic_statement"],
        "level_text": "Lean theorems about the input-queue model (a byte read consumes exactly one byte, fails only on hang-up, waiting "
                      "loses nothing) and an executable model of the whole decoder and editor that is diffed against the real "
                      "Editor::readline on a pseudo-terminal for arbitrary byte streams; the no-panic / no-wedge / no-stall oracle runs "
                      "on the implementation's own observations. Partial: the lift of progress through the escape tables and the "
                      "editor-level no-panic invariant are stated, not yet proved; signals and real timing are exercised, not proved.",
        "level_note": "Trusted: Lean kernel; pty harness (quiescence detection via /proc) and diff; utf8parse as standard UTF-8 validation; "
                      "kernel tty layer. Partial claim: see unproved statements in evidence.",
        "assumptions": ["keyseq_timeout = None (default)", "keys are delivered one key press at a time or as one type-ahead write"],
    },
    "C13": {
        "module": "Rl.Props.C13",
        "targets": [{"name": "ed13", "gen": "ed13", "header_tokens": 9}],
        "shards": {"quick": 8, "thorough": 16},
        "rule": "ed13: emacs and vi key scripts on a pty with a validator always installed (scripted verdict table keyed on characters "
                "of the text: valid+message / incomplete / invalid with and without message / error; or MatchingBracketValidator), "
                "Enter / C-j / brackets sprinkled at arbitrary points and cursor positions, inside searches and completions, with "
                "hints, history and initial text. Oracle on the implementation: every Enter callback is checked against the verdict "
                "on the text the handler saw (valid => that text is returned; incomplete => line break at the cursor; invalid with "
                "message => text and cursor unchanged; error => propagated), and a returned line is valid and is what the validator saw.",
        "trivial_impl_regex": r"=> .*",
        "exhaustive": {"quick": False, "thorough": False},
        "trusted_base": ["the scripted validator is a function of the text only (same table on both sides)",
                         "pty harness and diff"],
        "unproved": ["C13_submit_requires_valid_statement"],
        "level_text": "Lean theorems about the Enter decision table of the editor model (submit only on Valid; Valid always submits for the "
                      "Enter binding; Incomplete inserts a line break; Invalid with message leaves the text), the editor model diffed "
                      "against the real editor on a pty, and the C13 oracle evaluated on the implementation's callbacks and result. "
                      "The non-terminal clause is proved in C18 (C18_validator…). Partial: the step-level statement is stated, not yet proved.",
        "level_note": "Trusted: Lean kernel; pty harness; scripted validators. Cmd::AcceptLine bound by an application and vi EndOfFile are "
                      "outside the statement (DESIGN 7.1).",
        "assumptions": ["validators are functions of the text"],
    },
}

# properties not (yet) claimed, with the reason (kept current; see DESIGN.md)
NOT_APPLICABLE = {
}
for _p in ["C01","C02","C03","C04","C05","C06","C07","C08","C10","C11","C12","C13","C14","C15","C16","C17","C18","C19","C20"]:
    if _p not in PROPS:
        NOT_APPLICABLE[_p] = "not yet claimed: model, theorems and correspondence for this property are still being built (DESIGN.md section 9 build order); the technique applies"
