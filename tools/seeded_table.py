#!/usr/bin/env python3
"""Prints the markdown table of seeded changes (seeded/*/meta.json) for DESIGN.md."""
import json, glob, os
ROOT = os.path.dirname(os.path.dirname(os.path.abspath(__file__)))
rows = []
for f in sorted(glob.glob(os.path.join(ROOT, "seeded", "*", "meta.json"))):
    d = json.load(open(f))
    am = d.get("agent_meta") or {}
    what = (am.get("what") or "").replace("|", "/").replace("\n", " ")
    needs = (am.get("needs") or "").replace("|", "/").replace("\n", " ")
    if d.get("note"):
        res = d["note"]
    elif d.get("patch_applies_to_repo_head") != "ok":
        res = "patch no longer applies to the repaired tree (the mutated code was rewritten by a fix) — not evaluated"
    else:
        parts = []
        for c in d.get("checks", []):
            if c["violations"] > 0:
                kind = "no-failing-input-found" if "no-failing-input-found" in c["first"] else "failing input"
                parts.append(f"**{c['check']} catches it** ({kind}: `{(c.get('replay') or '').split(' | ')[1][:70] if ' | ' in (c.get('replay') or '') else ''}`)")
            else:
                parts.append(f"{c['check']} misses it")
        res = "; ".join(parts)
    rows.append(f"| {d['name']} | {what[:230]} | {needs[:200]} | {res} |")
print("| change | what it does | what it needs to manifest | result of the quick check(s) |")
print("|---|---|---|---|")
print("\n".join(rows))
