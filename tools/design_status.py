#!/usr/bin/env python3
"""Prints the 'as built' status tables for DESIGN.md from tools/props.py, evidence/*.json and known_findings.json."""
import json, os, sys, glob
ROOT = os.path.dirname(os.path.dirname(os.path.abspath(__file__)))
sys.path.insert(0, os.path.join(ROOT, "tools"))
from props import PROPS, NOT_APPLICABLE
print("| id | theorems (audited) | correspondence targets | quick cases | stated, not proved |")
print("|---|---|---|---|---|")
for pid in sorted(PROPS):
    c = PROPS[pid]
    ev = {}
    p = os.path.join(ROOT, "evidence", pid + ".json")
    if os.path.exists(p):
        ev = json.load(open(p)).get("coverage", {})
    nth = len(ev.get("theorems", {}))
    tg = ", ".join(t["name"] for t in c["targets"])
    un = "; ".join(u.split(":")[0] for u in c.get("unproved", [])) or "—"
    print(f"| {pid} | {nth} | {tg} | {ev.get('evaluations','?')} | {un} |")
k = json.load(open(os.path.join(ROOT, "known_findings.json")))
print()
print("Known findings (genuine defects recorded, not repaired):")
print()
for f in k["findings"]:
    print(f"* **{f['id']}** ({f['property']}): {f['what'][:400]}")
print()
print("Repaired defects (`fix:` commits in /repo, one per defect):")
print()
for f in k["fixed"]:
    print(f"* **{f.get('id')}** ({f['property']}): `{f.get('fix_commit','')[:110]}`")
