#!/usr/bin/env python3
"""Refreshes the generated tables of DESIGN.md (between the STATUS and SEEDED markers)."""
import os, re, subprocess
ROOT = os.path.dirname(os.path.dirname(os.path.abspath(__file__)))
p = os.path.join(ROOT, "DESIGN.md")
s = open(p).read()
st = subprocess.run(["python3", os.path.join(ROOT, "tools", "design_status.py")], stdout=subprocess.PIPE, text=True).stdout
sd = subprocess.run(["python3", os.path.join(ROOT, "tools", "seeded_table.py")], stdout=subprocess.PIPE, text=True).stdout
s = re.sub(r"<!-- STATUS:BEGIN -->.*?<!-- STATUS:END -->", lambda m: "<!-- STATUS:BEGIN -->\n" + st + "<!-- STATUS:END -->", s, flags=re.S)
s = re.sub(r"<!-- SEEDED:BEGIN -->.*?<!-- SEEDED:END -->", lambda m: "<!-- SEEDED:BEGIN -->\n" + sd + "<!-- SEEDED:END -->", s, flags=re.S)
open(p, "w").write(s)
print("DESIGN.md tables refreshed")
