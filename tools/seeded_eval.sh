#!/bin/bash
# seeded_eval.sh <Cxx> <mutation dir with patch.diff demo.rs meta.json> <name>
# 1. confirms the mutation in a scratch worktree (suite passes with the patch; demo fails with it, passes without)
# 2. stores it under /verif/seeded/<name>/
# 3. applies it to /repo, runs ./check Cxx (and extra checks given as $4...), reverts
set -u
PID=$1; SRC=$2; NAME=$3; shift 3; EXTRA="$@"
DST=/verif/seeded/$NAME
mkdir -p $DST
cp $SRC/patch.diff $DST/patch.diff; cp $SRC/demo.rs $DST/demo.rs 2>/dev/null; cp $SRC/meta.json $DST/meta_agent.json 2>/dev/null
WT=/var/tmp/seedwt-$NAME
git -C /repo worktree remove --force $WT >/dev/null 2>&1; rm -rf $WT
git -C /repo worktree add --detach $WT HEAD >/dev/null 2>&1
cd $WT
APPLY=ok; git apply --check $DST/patch.diff 2>/dev/null || APPLY=fail
if [ $APPLY = fail ] && patch -p1 --dry-run -F3 < $DST/patch.diff >/dev/null 2>&1; then
  # the tree has moved (later repairs shifted or touched the context): re-base the stored patch
  patch -p1 -F3 -s < $DST/patch.diff && find . -name "*.orig" -delete && git diff > $DST/patch.rebased \
    && git checkout -- . && mv $DST/patch.rebased $DST/patch.diff && APPLY=ok && REBASED=yes
fi
SUITE=skipped; DEMO_WITH=skipped; DEMO_WITHOUT=skipped
if [ $APPLY = ok ]; then
  export CARGO_NET_OFFLINE=true CARGO_TARGET_DIR=/var/tmp/seed-target
  mkdir -p tests
  if [ -f $DST/demo.rs ]; then cp $DST/demo.rs tests/demo_mut.rs; fi
  if [ -f tests/demo_mut.rs ]; then
    DEMO_WITHOUT=$(cargo test --offline ${DEMO_FEATURES:-} --test demo_mut 2>&1 | grep -E "^test result" | tail -1 | sed 's/\. finished.*//')
  fi
  git apply $DST/patch.diff
  if [ -f tests/demo_mut.rs ]; then
    DEMO_WITH=$(cargo test --offline ${DEMO_FEATURES:-} --test demo_mut 2>&1 | grep -E "^test result|error\[" | tail -1 | sed 's/\. finished.*//')
    rm -f tests/demo_mut.rs
  fi
  SUITE=$(cargo test --offline --lib 2>&1 | grep -E "^test result|error\[" | head -1 | sed 's/; [0-9]* measured.*//')
fi
cd /; git -C /repo worktree remove --force $WT >/dev/null 2>&1; rm -rf $WT
unset CARGO_TARGET_DIR
# run the checks against /repo with the patch applied
RES=""
if [ $APPLY = ok ]; then
  git -C /repo apply $DST/patch.diff
  for c in $PID $EXTRA; do
    OUT=$(cd /verif && timeout 900 ./check $c 2>&1 | grep -v "^KNOWN-FINDING"); RC=$?
    V=$(echo "$OUT" | grep -c "^VIOLATION")
    FIRST=$(echo "$OUT" | grep "^VIOLATION" | head -1)
    SUMMARY=$(echo "$OUT" | grep "quick:" | tail -1)
    REPLAY=""
    RP=$(echo "$FIRST" | sed -n 's/.*replay=\([^ ]*\).*/\1/p')
    if [ -n "$RP" ] && [ -f /verif/$RP ]; then REPLAY=$(python3 -c "import json;d=json.load(open('/verif/$RP'));print((d.get('kind','')+' | '+d.get('request','')[:200]+' | spec='+str(d.get('spec',''))[:120]).replace('\"',\"'\"))"); fi
    RES="$RES{\"check\":\"$c\",\"violations\":$V,\"first\":\"$(echo $FIRST | sed 's/"/\\"/g')\",\"replay\":\"$REPLAY\",\"summary\":\"$(echo $SUMMARY | sed 's/"/\\"/g')\"},"
  done
  git -C /repo checkout -- . ; git -C /repo clean -fdq
fi
python3 - <<PY
import json,os
d={"name":"$NAME","property":"$PID","patch_applies_to_repo_head":"$APPLY","rebased":"${REBASED:-no}",
   "suite_with_patch":"$SUITE","demo_without_patch":"$DEMO_WITHOUT","demo_with_patch":"$DEMO_WITH",
   "checks":json.loads("[" + """$RES""".rstrip(",") + "]")}
try: d["agent_meta"]=json.load(open("$DST/meta_agent.json"))
except Exception as e: d["agent_meta"]=None
json.dump(d,open("$DST/meta.json","w"),indent=1)
os.path.exists("$DST/meta_agent.json") and os.remove("$DST/meta_agent.json")
print("$NAME", "apply=$APPLY", "suite=[$SUITE]", "demo-without=[$DEMO_WITHOUT]", "demo-with=[$DEMO_WITH]", [(c["check"],c["violations"]) for c in d["checks"]])
PY
