import Rl.Text
import Rl.History
import Rl.Spec.History
