import Rl.Text
import Rl.Seg
import Rl.Wire
import Rl.History
import Rl.Spec.History
import Rl.Lemmas.History
import Rl.Props.C09
