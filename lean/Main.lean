/-
  Driver: one request per line on stdin, `request<TAB>implementation-observation`.
  Answers `model-observation<TAB>spec` where `spec` is either the observation the
  declarative spec prescribes, or a verdict (`ok` / `fail:<why>`) on the implementation
  observation, or `-` when the target has no oracle.
-/
import Rl.Wire
import Rl.Drv.History
import Rl.Drv.Hint
import Rl.Drv.Highlight
import Rl.Drv.Keys
import Rl.Drv.Editor
import Rl.Drv.Ed
import Rl.Drv.Direct
import Rl.Drv.Completion
import Rl.Drv.HistFile
import Rl.Drv.RawMode
import Rl.Drv.Printer
import Rl.Drv.Sqlite
import Rl.Drv.Render
import Rl.Drv.LineBuffer
import Rl.Drv.FileSession
open Rl Rl.Wire

def dispatch (tbl : CharTable) (target : String) (f : List String) (impl : String) : String × String :=
  let r : Option (String × String) :=
    match target with
    | "hist" => Rl.Drv.History.handle tbl f impl
    | "hint" => Rl.Drv.Hint.handle tbl f impl
    | "hl" => Rl.Drv.Highlight.handle tbl f impl
    | "keys" => Rl.Drv.Keys.handle tbl f impl
    | "direct" => Rl.Drv.Direct.handle tbl f impl
    | "seg" => Rl.Drv.Direct.handleSeg tbl f impl
    | "hf" => Rl.Drv.HistFile.handle tbl f impl
    | "raw" => Rl.Drv.RawMode.handle tbl f impl
    | "pr" => Rl.Drv.Printer.handle tbl f impl
    | "sqlite" => Rl.Drv.Sqlite.handle tbl f impl
    | "render" => Rl.Drv.Render.handle tbl f impl
    | "sess" => Rl.Drv.FileSession.handle tbl f impl
    | "sessx" => Rl.Drv.FileSession.handleX tbl f impl
    | "lb" => Rl.Drv.LineBuffer.handle tbl f impl
    | "lb4" => Rl.Drv.LineBuffer.handle4 tbl f impl
    | "comp" | "clcp" | "cfs" => Rl.Drv.Completion.handle target tbl f impl
    | _ =>
      if target.startsWith "ed" then Rl.Drv.Ed.handle tbl target f impl
      else some ("unknown-target", "-")
  r.getD ("bad-request", "bad-request")

partial def loop (h : IO.FS.Stream) (out : IO.FS.Stream) (tbl : CharTable) : IO Unit := do
  let line ← h.getLine
  if line.isEmpty then return ()
  let line := (line.dropEndWhile (fun c => c == '\n' || c == '\r')).toString
  let (req, impl) := match line.splitOn "\t" with
    | [r] => (r, "")
    | r :: i :: _ => (r, i)
    | [] => ("", "")
  match req.splitOn " " with
  | "charinfo" :: rest =>
    match parseCharInfo rest with
    | some ci => loop h out (ci :: tbl)
    | none => out.putStrLn "bad-charinfo\t-"; loop h out tbl
  | target :: rest =>
    let (m, s) := dispatch tbl target rest impl
    out.putStrLn (m ++ "\t" ++ s)
    loop h out tbl
  | [] => out.putStrLn "bad-request\t-"; loop h out tbl

def main : IO Unit := do
  let stdin ← IO.getStdin
  let stdout ← IO.getStdout
  loop stdin stdout []
