/-
  Executable oracles: the property statements evaluated on what the *implementation* did
  (its `Event::Any` callbacks and the result of the read), independent of the editor model.
-/
import Rl.Spec.EdObs
import Rl.Spec.History
namespace Rl.Spec
open Rl Rl.Wire

abbrev OVerdict := Option String   -- `none` = ok, `some why` = the property fails on this run

def firstFail (l : List OVerdict) : OVerdict := (l.find? Option.isSome).getD none

def verdictStr : OVerdict → String
  | none => "ok"
  | some w => "fail:" ++ w

/-! ### C17 — no input can crash or wedge a read -/

def oracleC17 (o : ImplObs) : OVerdict :=
  if (o.outcome.splitOn "panic").length > 1 then some "panic"
  else if (o.outcome.splitOn "wedged").length > 1 then some "wedged:read-did-not-return"
  else if o.outcome.startsWith "hup+line:" then some "stalled-with-unread-keys-until-hang-up"
  -- an error that is neither end-of-file, interruption, a terminal I/O error, invalid input bytes
  -- nor a helper's own error (e.g. a window-size signal handed back to the caller)
  else if o.outcome == "other" || o.outcome == "hup+other" then some "read-ended-with-an-error-nothing-asked-for"
  else none

/-! ### C13 — Enter returns a line only if the validator accepts exactly that line -/

def isEnterKey (k : KeyEvent) : Bool :=
  k == ⟨.enter, 0⟩ || k == ⟨.char 'J', 8⟩ || k == ⟨.char 'M', 8⟩

def insertAtByte (t : Text) (p : Nat) (c : Char) : Option Text :=
  (splitAtByte t p).map (fun (a, b) => a ++ [c] ++ b)

def oracleC13 (V : Text → Verdict) (o : ImplObs) : OVerdict :=
  let n := o.cbs.length
  let rec go (k : Nat) : List Obs → OVerdict
    | [] => none
    | cb :: rest =>
      let last := rest.isEmpty
      let here : OVerdict :=
        match cb.keys with
        | [key] =>
          if !isEnterKey key then none
          else
            match V cb.line with
            | .valid _ =>
              if !last then some s!"valid-line-not-returned(cb {k})"
              else if o.returnedLine == some cb.line then none
              else some s!"returned-something-else-than-the-validated-text(cb {k}):{o.outcome}"
            | .incomplete =>
              (match rest with
               | nx :: _ =>
                 if some nx.line == insertAtByte cb.line cb.pos '\n' && nx.pos == cb.pos + 1 then none
                 else some s!"incomplete:no-line-break-at-cursor(cb {k})"
               | [] =>
                 if o.returnedLine.isSome then some s!"incomplete-line-returned(cb {k})" else none)
            | .invalid true =>
              (match rest with
               | nx :: _ => if nx.line == cb.line && nx.pos == cb.pos then none
                            else some s!"invalid-with-message:text-changed(cb {k})"
               | [] => if o.returnedLine.isSome then some s!"invalid-line-returned(cb {k})" else none)
            | .invalid false =>
              if last && o.returnedLine.isSome then some s!"invalid-line-returned(cb {k})" else none
            | .error =>
              if last && o.outcome == "helper-err" then none
              else some s!"validator-error-not-propagated(cb {k}):{o.outcome}"
            | .panic => none
        | _ => none
      match here with
      | some w => some w
      | none => go (k + 1) rest
  let r := go 0 o.cbs
  match r with
  | some w => some w
  | none =>
    -- a returned line must have been validated as it is (Enter-terminated reads)
    match o.returnedLine, o.cbs.getLast? with
    | some l, some cb =>
      (match cb.keys with
       | [key] =>
         if isEnterKey key then
           (match V l with
            | .valid _ => if o.vcalls.getLast? == some l || o.vcalls.isEmpty then none
                          else some "validator-saw-a-different-text"
            | _ => some "returned-line-is-not-valid")
         else none
       | _ => none)
    | _, _ => if n == 0 then none else none

end Rl.Spec
