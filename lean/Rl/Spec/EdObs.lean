/- Parsing the implementation's observation of an `ed…` request (see harness/src/ed.rs). -/
import Rl.Wire
import Rl.Keys
import Rl.Editor
import Rl.Drv.Editor
namespace Rl.Spec
open Rl Rl.Wire

structure ImplObs where
  cbs : List Obs
  outcome : String          -- e.g. `line:97,98`, `eof`, `int`, `hup+io`, `invalid`, `panic`, `wedged+…`
  histAfter : List Text
  termiosRestored : Bool
  paste : String
  vcalls : List Text
deriving Repr

def parseKeyEv (s : String) : Option KeyEvent :=
  match s.splitOn "." with
  | [c, m] =>
    let code : Option KeyCode :=
      if c.startsWith "c" then ((c.drop 1).toString.toNat?).map (fun n => KeyCode.char (Char.ofNat n))
      else if c.startsWith "F" then ((c.drop 1).toString.toNat?).map KeyCode.f
      else match c with
        | "UnknownEscSeq" => some .unknownEscSeq | "Backspace" => some .backspace | "BackTab" => some .backTab
        | "BracketedPasteStart" => some .bracketedPasteStart | "BracketedPasteEnd" => some .bracketedPasteEnd
        | "Delete" => some .delete | "Down" => some .down | "End" => some .end_ | "Enter" => some .enter
        | "Esc" => some .esc | "Home" => some .home | "Insert" => some .insert | "Left" => some .left
        | "Null" => some .null | "PageDown" => some .pageDown | "PageUp" => some .pageUp
        | "Right" => some .right | "Tab" => some .tab | "Up" => some .up
        | _ => none
    do pure ⟨← code, ← m.toNat?⟩
  | _ => none

def parseCb (s : String) : Option Obs :=
  match s.splitOn "/" with
  | [l, p, m, h, k, n, pos] => do
    pure { line := ← parseText l, pos := ← p.toNat?, mode := m, hasHint := ← parseBool h,
           keys := ← (k.splitOn "+").mapM parseKeyEv, n := ← n.toNat?, positive := ← parseBool pos }
  | _ => none

def stripPrefix? (s pre : String) : Option String :=
  if s.startsWith pre then some (s.drop pre.length).toString else none

def parseImpl (impl : String) : Option ImplObs :=
  let toks := impl.splitOn " "
  let cbToks := toks.takeWhile (· != "=>")
  let rest := (toks.dropWhile (· != "=>")).drop 1
  match rest with
  | [o, h, t, p, v] => do
    pure { cbs := ← cbToks.mapM parseCb, outcome := o,
           histAfter := ← parseTexts (← stripPrefix? h "H="),
           termiosRestored := ← parseBool (← stripPrefix? t "T="),
           paste := ← stripPrefix? p "P=",
           vcalls := ← parseTexts (← stripPrefix? v "V=") }
  | _ => none

/-- the returned line, if the read returned one (with or without the hang-up prefix) -/
def ImplObs.returnedLine (o : ImplObs) : Option Text :=
  match o.outcome.splitOn "line:" with
  | [_, t] => parseText t
  | _ => none

/-- consecutive callbacks `(before, after)`; the last callback is paired with the returned line when
    the read returned one (cursor unknown then: `none`) -/
def ImplObs.steps (o : ImplObs) : List (Obs × Text × Option Nat) :=
  let rec go : List Obs → List (Obs × Text × Option Nat)
    | a :: b :: rest => (a, b.line, some b.pos) :: go (b :: rest)
    | [a] => match o.returnedLine with
             | some l => [(a, l, none)]
             | none => []
    | [] => []
  go o.cbs

end Rl.Spec
