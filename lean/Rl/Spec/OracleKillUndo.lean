/-
  Oracles for C06 (kill ring) and C05 (undo), evaluated on the implementation's callbacks.
  Both are deliberately conservative: they only judge situations in which the property text
  determines the outcome from what the callbacks show, and say nothing otherwise.
-/
import Rl.Spec.OracleNav
import Rl.Spec.OracleSearch
namespace Rl.Spec
open Rl Rl.Wire

/-! ### shared: classification of keys (documented emacs bindings) -/

inductive KeyClass
  | kill          -- C-k, C-u, C-w, M-d, M-DEL (any numeric argument)
  | charDelete    -- C-d (non-empty line), C-h, Backspace, Delete
  | yank          -- C-y (positive argument)
  | yankPop       -- M-y
  | undo          -- C-_
  | neutral       -- keeps a kill sequence open without being a kill: C-l, unknown escape sequences
  | other
deriving DecidableEq, Repr

def classifyEmacs (o : Obs) : KeyClass :=
  match o.keys with
  | [k] =>
    if k == ⟨.char 'K', 8⟩ || k == ⟨.char 'U', 8⟩ || k == ⟨.char 'W', 8⟩
        || k == ⟨.char 'd', 4⟩ || k == ⟨.char 'D', 4⟩ || k == ⟨.backspace, 4⟩ then .kill
    else if k == ⟨.char 'H', 8⟩ || k == ⟨.backspace, 0⟩ || k == ⟨.delete, 0⟩ then .charDelete
    else if k == ⟨.char 'D', 8⟩ then (if o.line.isEmpty then .other else .charDelete)
    else if k == ⟨.char 'Y', 8⟩ then (if o.positive then .yank else .other)
    else if k == ⟨.char 'y', 4⟩ || k == ⟨.char 'Y', 4⟩ then .yankPop
    else if k == ⟨.char '_', 8⟩ then .undo
    else if k == ⟨.char 'L', 8⟩ || k == ⟨.unknownEscSeq, 0⟩ then .neutral
    else .other
  | _ => .other

/-- `l0 = lm[..p] ++ x ++ lm[p..]`: the text removed at the cursor `p` of `lm` -/
def removedAt (l0 lm : Text) (p : Nat) : Option Text :=
  match splitAtByte lm p with
  | none => none
  | some (a, b) =>
    if a.isPrefixOf l0 && b.length ≤ (l0.drop a.length).length then
      let rest := l0.drop a.length
      let x := rest.take (rest.length - b.length)
      if rest.drop (rest.length - b.length) == b then some x else none
    else none

def insertTextAt (l : Text) (p : Nat) (x : Text) : Option Text :=
  (splitAtByte l p).map (fun (a, b) => a ++ x ++ b)

/-! ### C06 -/

structure KillSt where
  /-- `none`: the ring contents are not known exactly any more (something outside the judged
      fragment touched it); otherwise the kills of this read, most recent first -/
  ring : Option (List Text) := some []
  /-- the kill run in progress: line before its first kill -/
  runStart : Option Text := none
  /-- the previous key certainly reset the ring's "last action" (so a kill starts a new slot) -/
  fresh : Bool := true
  /-- text inserted by the last yank / yank-pop (cursor just after it) -/
  lastYank : Option Text := none
  /-- how far yank-pop has rotated the ring (index into `ring`) -/
  rot : Nat := 0

/-! ### C06, vi mode

The callbacks show one entry per COMMAND key: of an operator group (`d`/`c`/`y` + [count] + motion,
`dd`, `dfx` …) only the operator key is seen (with the count typed before it), the motion is read
inside the key map.  So a `d`/`c` group that removed text is either a kill command or, when the motion
was a character motion (`dl`, `d3h`, `cl` = `s`), a character deletion that "neither enters nor
extends the kill": both readings are followed (`ViW` = one reading) and a put must agree with one of
them; the put then tells which readings remain.  There is no yank-pop in vi mode, so only the most
recent kill matters and knowledge lost (`top = none`) is regained by the next kill run that starts
after a command that is certainly not a kill. -/

/-- what is known of the most recent kill -/
inductive ViTop
  | known (x : Option Text)      -- `none`: nothing killed in this read
  | unknown
  /-- a `y` group ran on `line`: it put a piece of that line into the ring, or (cancelled, nothing to
      copy) left the earlier `prev` (`none`: not known) -/
  | copied (line : Text) (prev : Option (Option Text))
deriving BEq

structure ViW where
  top : ViTop := .known none
  /-- the kill run in progress: line before its first kill -/
  run : Option Text := none
  /-- the last action may be a kill whose slot is not followed: a kill now extends something unknown -/
  stale : Bool := false
deriving BEq

inductive ViKey
  | group        -- `d`, `c`: operator + motion, judged by what it removed
  | kill         -- `D`, `C`, `S`, C-k, C-u, C-w
  | charDelete   -- `x`, `X`, Delete, Backspace / C-h in insert mode
  | putBefore | putAfter
  | copy         -- `y` + motion
  | neutral      -- commands without effect (`i`, Esc, C-l, `;` …) and `s` / `R`: what the next kill joins is not determined
  | repeat_      -- `.`
  | skip         -- Alt-<key> in insert mode: the same key is reported again as a command-mode key
  | opaque       -- searches, completion, pastes, multi-key bindings
  | other        -- any other command: certainly not a kill
deriving DecidableEq

def classifyVi (cb : Obs) : ViKey :=
  match cb.keys with
  | [k] =>
    if cb.mode != "vc" then
      if (match k.code with | .char _ => k.mods == 4 | _ => false) then .skip
      else if k == ⟨.char 'W', 8⟩ || k == ⟨.char 'U', 8⟩ then .kill
      else if k == ⟨.backspace, 0⟩ || k == ⟨.char 'H', 8⟩ || k == ⟨.delete, 0⟩ then .charDelete
      else if k == ⟨.char 'Y', 8⟩ then .putBefore
      else if k == ⟨.unknownEscSeq, 0⟩ || k == ⟨.char 'Z', 8⟩ then .neutral
      else if k == ⟨.tab, 0⟩ || k == ⟨.char 'I', 8⟩ || k == ⟨.backTab, 0⟩ || k == ⟨.char 'R', 8⟩
          || k == ⟨.char 'S', 8⟩ || k == ⟨.bracketedPasteStart, 0⟩ then .opaque
      else .other
    else
      if k == ⟨.char 'd', 0⟩ || k == ⟨.char 'c', 0⟩ then .group
      else if k == ⟨.char 'D', 0⟩ || k == ⟨.char 'C', 0⟩ || k == ⟨.char 'S', 0⟩
          || k == ⟨.char 'K', 8⟩ || k == ⟨.char 'U', 8⟩ || k == ⟨.char 'W', 8⟩ then .kill
      else if k == ⟨.char 'x', 0⟩ || k == ⟨.char 'X', 0⟩ || k == ⟨.delete, 0⟩ then .charDelete
      else if k == ⟨.char 'P', 0⟩ || k == ⟨.char 'Y', 8⟩ then .putBefore
      else if k == ⟨.char 'p', 0⟩ then .putAfter
      else if k == ⟨.char 'y', 0⟩ then .copy
      else if k == ⟨.char '.', 0⟩ then .repeat_
      else if k == ⟨.char 'i', 0⟩ || k == ⟨.char ';', 0⟩ || k == ⟨.char ',', 0⟩ || k == ⟨.char 'r', 0⟩
          || k == ⟨.char 'R', 0⟩ || k == ⟨.char 's', 0⟩ || k == ⟨.esc, 0⟩ || k == ⟨.char 'L', 8⟩
          || k == ⟨.unknownEscSeq, 0⟩ || k == ⟨.char 'Z', 8⟩ then .neutral
      else if k == ⟨.char 'R', 8⟩ || k == ⟨.char 'S', 8⟩ || k == ⟨.bracketedPasteStart, 0⟩ then .opaque
      else .other
  | _ => .opaque

inductive SpanKind | forward | backward | range
deriving DecidableEq

/-- the step removed `x` at the cursor it left behind; where the cursor stood relative to the span -/
def viRemoved (cb : Obs) (nl : Text) (np : Option Nat) : Option (Text × SpanKind) :=
  match np with
  | none => none
  | some q =>
    match removedAt cb.line nl q with
    | none => none
    | some x =>
      if x.isEmpty then none
      else if q == cb.pos then some (x, .forward)
      else if q + blen x == cb.pos then some (x, .backward)
      else if q < cb.pos && cb.pos < q + blen x then some (x, .range)
      else none

namespace ViW

/-- the run ends at callback `cb` (its line is the text after the last kill, the cursor where the text went) -/
def close (w : ViW) (cb : Obs) : ViW :=
  match w.run with
  | none => w
  | some l0 =>
    let w' := { w with run := none }
    if l0 == cb.line then w'
    else
      match removedAt l0 cb.line cb.pos with
      | some x => { w' with top := .known (some x) }
      | none => { w' with top := .unknown }

/-- a command that is certainly not a kill -/
def reset (w : ViW) (cb : Obs) : ViW := { w.close cb with stale := false }

def kill (w : ViW) (cb : Obs) : ViW :=
  if w.stale then { w with top := .unknown }
  else
    match w.run with
    | none => { w with run := some cb.line }
    | some _ => w

/-- a kill command that removed nothing: transparent, or (the code reports the empty text to the ring,
    e.g. `dTx` with the target next to the cursor) a kill of "" -/
def emptyKill (w : ViW) : ViW :=
  if w.stale || w.run.isSome then w else { w with top := .known (some []) }

def neutral (w : ViW) (cb : Obs) : ViW :=
  if w.run.isSome then { w.close cb with top := .unknown, stale := true } else w

def copied (w : ViW) (cb : Obs) : ViW :=
  let w' := w.reset cb
  let prev : Option (Option Text) := match w'.top with | .known v => some v | _ => none
  { w' with top := .copied cb.line prev }

def unknown : ViW := { top := .unknown, stale := true }

end ViW

def viCap (ws : List ViW) : List ViW :=
  let ws := ws.foldl (fun acc w => if acc.contains w then acc else acc ++ [w]) []
  if ws.length > 24 then [ViW.unknown] else ws

/-- byte offsets of the character boundaries behind `p` -/
def boundariesAfter (l : Text) (p : Nat) : List Nat :=
  ((l.foldl (fun (acc : List Nat × Nat) c => (acc.1 ++ [acc.2 + c.utf8Size], acc.2 + c.utf8Size)) ([], 0)).1).filter (· > p)

/-- where a put may insert: `P` at the cursor; `p` behind the character under the cursor (the callbacks
    do not say how long that character is), at the cursor when there is none -/
def putOffsets (after : Bool) (cb : Obs) : List Nat :=
  if !after || cb.pos ≥ blen cb.line then [cb.pos] else boundariesAfter cb.line cb.pos

def isInfixOfText (y : Text) : Text → Bool
  | [] => y.isEmpty
  | c :: t => y.isPrefixOf (c :: t) || isInfixOfText y t


/-- `y` is `n` copies of the answer -/
def unrep (n : Nat) (y : Text) : Option Text :=
  let n := max n 1
  let t := y.take (y.length / n)
  if (List.replicate n t).flatten == y then some t else none

def oracleC06Vi (o : ImplObs) : OVerdict :=
  let rec go (k : Nat) (ws : List ViW) : List (Obs × Text × Option Nat) → OVerdict
    | [] => none
    | (cb, nl, np) :: rest =>
      match classifyVi cb with
      | .skip => go (k + 1) ws rest
      | .opaque => none
      | .group =>
        if nl == cb.line then
          -- cancelled, unknown motion (a command that is not a kill) or nothing to remove (transparent)
          go (k + 1) (viCap (ws ++ ws.map (·.emptyKill) ++ ws.map (·.reset cb))) rest
        else
          match viRemoved cb nl np with
          | none => go (k + 1) [ViW.unknown] rest
          | some (x, kind) =>
            let killed := ws.map (·.kill cb)
            -- a character motion has the cursor at one end of what it removes
            let deleted := if kind == .range then [] else ws.map (·.reset cb)
            go (k + 1) (viCap (killed ++ deleted)) rest
      | .kill =>
        if nl == cb.line then go (k + 1) (viCap (ws ++ ws.map (·.emptyKill))) rest
        else
          match viRemoved cb nl np with
          | none => go (k + 1) [ViW.unknown] rest
          | some _ => go (k + 1) (viCap (ws.map (·.kill cb))) rest
      | .charDelete | .other => go (k + 1) (viCap (ws.map (·.reset cb))) rest
      | .neutral => go (k + 1) (viCap (ws.map (·.neutral cb))) rest
      | .repeat_ => go (k + 1) [ViW.unknown] rest
      | .copy => go (k + 1) (viCap (ws.map (·.copied cb))) rest
      | .putBefore => put k ws cb nl false (fun ws' => go (k + 1) ws' rest)
      | .putAfter => put k ws cb nl true (fun ws' => go (k + 1) ws' rest)
  match o.cbs with
  | [] => none
  | _ :: _ => go 0 [{}] o.steps
where
  put (k : Nat) (ws : List ViW) (cb : Obs) (nl : Text) (after : Bool) (cont : List ViW → OVerdict) : OVerdict :=
    let ws1 := ws.map (·.close cb)
    let settle (w : ViW) : ViW := { w with stale := false }
    if cb.n > 1000 || ws1.any (·.top == .unknown) then cont (viCap (ws1.map settle))
    else
      let qs := putOffsets after cb
      -- what was inserted (one copy of it, when a count asked for several)
      let ys := (qs.filterMap (fun q => removedAt nl cb.line q)).filterMap (unrep cb.n)
      let pastes (v : Option Text) : Bool :=
        match v with
        | some x => qs.any (fun q => insertTextAt cb.line q (List.replicate (max cb.n 1) x).flatten == some nl)
        | none => nl == cb.line
      let agrees (w : ViW) : Bool :=
        match w.top with
        | .known v => pastes v
        | .unknown => true
        | .copied line prev =>
          ys.any (fun y => !y.isEmpty && isInfixOfText y line)
            || (match prev with | some v => pastes v | none => true)
      let ok := ws1.filter agrees
      if !ok.isEmpty then cont (viCap (ok.map settle))
      else
        match ws1.head? with
        | some h =>
          match h.top with
          | .known (some _) => some s!"C06:vi-put-did-not-reinsert-exactly-the-killed-text(cb {k})"
          | _ => some s!"C06:vi-put-with-nothing-killed-changed-the-text(cb {k})"
        | none => none

def oracleC06 (o : ImplObs) : OVerdict :=
  let rec go (k : Nat) (st : KillSt) : List (Obs × Text × Option Nat) → OVerdict
    | [] => none
    | (cb, nl, np) :: rest =>
      if cb.mode != "e" then
        -- unreachable: a read is in one edit mode throughout, vi reads are judged by `oracleC06Vi`
        go (k + 1) { st with ring := none, runStart := none, lastYank := none } rest
      else
      match classifyEmacs cb with
      | .kill =>
        -- a kill command that removes nothing reports no deletion and `Kill(_)` does not reset the
        -- ring's last action: it is transparent (a yank / kill sequence around it stays open)
        if nl == cb.line then go (k + 1) st rest else
        let start := match st.runStart with | some s => some s | none => if st.fresh then some cb.line else none
        -- a run that does not start from a fresh ring state extends an unknown slot
        let ring := if st.runStart.isNone && !st.fresh then none else st.ring
        go (k + 1) { st with runStart := start, ring, fresh := false, lastYank := none } rest
      | .neutral =>
        -- keeps an open kill sequence open: what the next kill joins is not determined by the property
        -- (it does not end a yank either: `C-y C-l M-y` still pops, and the pop is judged for exactness)
        go (k + 1) { st with runStart := none, ring := (if st.runStart.isSome then none else st.ring) } rest
      | .charDelete =>
        -- closes the run (the deleted character must not enter the kill)
        let st := closeRun st cb
        go (k + 1) { st with fresh := true, lastYank := none } rest
      | .yank =>
        let st := closeRun st cb
        match st.ring with
        | some (x0 :: xs) =>
          -- a numeric argument n inserts n copies; a yank-pop directly after it has to replace all of them
          let x := (List.replicate (max cb.n 1) (((x0 :: xs)[st.rot]?).getD x0)).flatten
          if cb.n > 1000 then go (k + 1) { st with ring := none, fresh := true, lastYank := none } rest
          else
            match insertTextAt cb.line cb.pos x with
            | none => go (k + 1) { st with fresh := true, lastYank := none } rest
            | some exp =>
              if nl != exp then
                some s!"C06:yank-did-not-reinsert-exactly-the-killed-text(cb {k})"
              else match np with
                | some q =>
                  if q != cb.pos + blen x then some s!"C06:cursor-not-after-the-yanked-text(cb {k})"
                  else go (k + 1) { st with fresh := true, lastYank := some x } rest
                | none => none
        | some [] =>
          -- nothing was killed in this read: the ring is empty (fresh editor): nothing is inserted
          if nl != cb.line then some s!"C06:yank-with-empty-ring-changed-the-text(cb {k})"
          else go (k + 1) { st with fresh := true, lastYank := none } rest
        | none => go (k + 1) { st with fresh := true, lastYank := none } rest
      | .yankPop =>
        match st.ring, st.lastYank with
        | some ring, some prev =>
          -- replaces exactly the just-inserted text by the previous kill, cycling through the kills
          let n := ring.length
          if n == 0 then go (k + 1) { st with fresh := true } rest
          else
            let idx := (st.rot + 1) % n
            match ring[idx]? with
            | none => go (k + 1) { st with ring := none, lastYank := none } rest
            | some x =>
              if cb.pos < blen prev then go (k + 1) { st with ring := none, lastYank := none } rest
              else
                match splitAtByte cb.line (cb.pos - blen prev), splitAtByte cb.line cb.pos with
                | some (a, _), some (_, b) =>
                  if nl != a ++ x ++ b then
                    some s!"C06:yank-pop-did-not-replace-the-yanked-text-by-the-previous-kill(cb {k})"
                  else go (k + 1) { st with fresh := true, lastYank := some x, rot := idx } rest
                | _, _ => go (k + 1) { st with ring := none, lastYank := none } rest
        | _, _ =>
          -- not directly after a yank: must do nothing
          if st.lastYank.isNone && st.ring.isSome && nl != cb.line then
            some s!"C06:yank-pop-without-a-preceding-yank-changed-the-text(cb {k})"
          else go (k + 1) { st with ring := none, fresh := true, lastYank := none } rest
      | .undo => go (k + 1) { (closeRun st cb) with ring := none, fresh := true, lastYank := none } rest
      | .other =>
        let st := closeRun st cb
        -- multi-key commands (C-x …) may hide kills.  An incremental search or a completion hides
        -- nothing: every key typed inside the sub-loop has its own callback, the key that ends the loop
        -- is executed as a command on the line its callback shows, and the command that started the loop
        -- is not a kill, so a kill / yank / yank-pop that ends the loop is judged like any other
        let isOpaque : Bool := match cb.keys with
          | [key] => key == ⟨.char 'X', 8⟩ || key == ⟨.bracketedPasteStart, 0⟩
          | _ => true
        go (k + 1) { st with fresh := true, lastYank := none, ring := if isOpaque then none else st.ring } rest
  match o.cbs with
  | cb0 :: _ => if cb0.mode != "e" then oracleC06Vi o else go 0 {} o.steps
  | [] => none
where
  /-- the run ends at callback `cb` (its line is the text after the last kill) -/
  closeRun (st : KillSt) (cb : Obs) : KillSt :=
    match st.runStart with
    | none => st
    | some l0 =>
      if l0 == cb.line then { st with runStart := none }       -- nothing was removed: no new slot
      else
        match removedAt l0 cb.line cb.pos, st.ring with
        | some x, some ring =>
          -- a new kill becomes the most recent one and ends the rotation of yank-pop
          { st with runStart := none, ring := some ((x :: ring).take 60), rot := 0 }
        | _, _ => { st with runStart := none, ring := none }

/-! ### C05 -/

/-- the step changed the text by exactly one character (inserted or deleted) -/
def singleCharEdit (a b : Text) : Bool :=
  let rec diff1 : Text → Text → Bool
    | x :: xs, y :: ys => if x == y then diff1 xs ys else xs == y :: ys
    | [_], [] => true
    | _, _ => false
  if a.length + 1 == b.length then diff1 b a
  else if b.length + 1 == a.length then diff1 a b
  else false

/-! ### C05, vi mode

The machine keeps its own log of the read: the texts the line went through (newest first), each with
a mark "the edit that led here was word-sized or larger".  A single Undo must land on a text of that
log that is not older than the state right before the most recent marked edit.  A vi insert session
opened by a command (`i a A I c C s S R`, from that command to the return to command mode) is an
explicit group: when it is left, the marks inside it are dropped and the session as a whole becomes
one edit (marked when it is word-sized), so Undo may take it back in one step or in smaller ones.
The typing at the start of the read is judged key by key as in emacs mode (a typed alphanumeric may
merge into the pre-filled text or a preceding paste: D22, not judged).
After an Undo the log is cut back to the text it landed on (when that text occurs more than once in
the admissible part: to the newest occurrence, dropping the marks down to the oldest one), so the
following Undo is judged as well.  What the callbacks do not determine (history recall, searches,
completion, indent, pastes, Undo with a count) empties the log; the rule is silent until the next
marked edit. -/

/-- same length, exactly one position differs -/
def singleSubst : Text → Text → Bool
  | x :: xs, y :: ys => if x == y then singleSubst xs ys else xs == ys
  | _, _ => false

def smallEdit (a b : Text) : Bool := a == b || singleCharEdit a b || singleSubst a b

/-- the texts from the newest down to the state before the most recent marked edit -/
def allowedOf : List (Text × Bool) → Option (List Text)
  | [] => none
  | [(_, _)] => none
  | (t, true) :: (b, _) :: _ => some [t, b]
  | (t, false) :: rest => (allowedOf rest).map (t :: ·)

structure UndoVi where
  seen : List Text
  hist : List (Text × Bool)
  /-- inside an insert session: the length of `hist` when it started (`some none`: not known) -/
  sess : Option (Option Nat)
  /-- 0: main loop, 1: incremental search, 2: completion -/
  sub : Nat := 0
  prevIns : Bool := true

namespace UndoVi

/-- the log must show the text of the callback on top; otherwise it is started afresh -/
def sync (st : UndoVi) (cb : Obs) : UndoVi :=
  let seen := if st.seen.contains cb.line then st.seen else cb.line :: st.seen
  if st.hist.head?.map (·.1) == some cb.line then { st with seen }
  else { st with seen, hist := [(cb.line, false)], sess := st.sess.map (fun _ => none) }

def lose (st : UndoVi) : UndoVi := { st with hist := [], sess := st.sess.map (fun _ => none) }

/-- leaving insert mode: the session becomes one edit -/
def closeSession (st : UndoVi) : UndoVi :=
  let st' := { st with sess := none }
  match st.sess with
  | none => st
  | some none => { st' with hist := st.hist.map (fun (t, _) => (t, false)) }
  | some (some d) =>
    let k := st.hist.length - d
    if k == 0 then st'
    else
      let inner := st.hist.take k
      let rest := st.hist.drop k
      let big : Bool := inner.any (·.2) ||
        (match rest.head?, inner.head? with
         | some (b, _), some (t, _) => !smallEdit b t
         | _, _ => true)
      let inner' := (inner.zipIdx).map (fun ((t, _), i) => (t, i + 1 == k && big))
      { st' with hist := inner' ++ rest }

/-- cut the log back to the text an Undo landed on, looking at the first `m` entries -/
def landOn (st : UndoVi) (nl : Text) (m : Nat) : UndoVi :=
  let idxs := ((st.hist.take m).zipIdx).filterMap (fun ((t, _), i) => if t == nl then some i else none)
  match idxs.head?, idxs.getLast? with
  | some a, some b =>
    let h := st.hist.drop a
    let h := (h.zipIdx).map (fun ((t, f), i) => (t, f && i ≥ b - a))
    -- landing below the start of the open session: its group marker is gone, what is typed from now
    -- on is judged key by key (it may merge into an older insertion: D22)
    let sess := match st.sess with
      | some (some d) => if h.length < d then none else some (some d)
      | other => other
    { st with hist := h, sess }
  | _, _ => st.lose

end UndoVi

def oracleC05Vi (hasCompleter : Bool) (histNonEmpty : Bool) (o : ImplObs) : OVerdict :=
  let rec go (k : Nat) (st : UndoVi) : List Obs → OVerdict
    | [] => none
    | cb :: rest =>
      -- the text after this key's command, and whether the next callback is in insert / replace mode
      let nlOpt : Option Text := match rest with | b :: _ => some b.line | [] => o.returnedLine
      match nlOpt with
      | none => none
      | some nl =>
      let nextIns : Bool := match rest with | b :: _ => b.mode != "vc" | [] => false
      let st := st.sync cb
      let st := if cb.mode == "vc" && st.prevIns then st.closeSession else st
      let st := { st with prevIns := cb.mode != "vc" }
      match cb.keys with
      | [key] =>
        -- Alt-<key> in insert mode: the same key is reported again as a command-mode key; whether a
        -- sub-loop swallows it is decided at that second report (Alt-X inside a search is one more
        -- Backspace of the search: D47)
        if cb.mode != "vc" && (match key.code with | .char _ => key.mods == 4 | _ => false) then
          -- (a fast-command key that arrives inside a completion or search sub-loop: which of the two
          -- consumes it, and what group structure results, is not determined by what the callbacks
          -- show — nothing further is judged in this read)
          if st.sub != 0 then none else go (k + 1) st rest
        else
        -- the sub-loops swallow their own keys; any other key ends them and is then executed.  In vi
        -- command mode the keys a search goes on with are `X` (Kill(BackwardChar)), C-r, C-s and the
        -- abort C-g; a completion only takes the abort
        let abortVc : Bool := key == ⟨.char 'G', 8⟩
        let consumed : Bool :=
          if cb.mode == "vc" then
            (st.sub == 1 && (key == ⟨.char 'X', 0⟩ || key == ⟨.char 'R', 8⟩ || key == ⟨.char 'S', 8⟩ || abortVc))
              || (st.sub == 2 && abortVc)
          else (st.sub == 1 && searchConsumes cb.mode key) || (st.sub == 2 && completionConsumes cb.mode key)
        if consumed then go (k + 1) st.lose rest
        else
        let st := if st.sub != 0 then { st.lose with sub := 0 } else st
        -- a command-mode key after which the read is in insert mode opens a session that contains its own edit
        -- (C-r / C-s switch to insert mode without opening a group: what is typed then is judged key by key)
        let modeSwitch : Bool := key == ⟨.char 'R', 8⟩ || key == ⟨.char 'S', 8⟩
        let st := if cb.mode == "vc" && nextIns && st.sess.isNone && !modeSwitch then { st with sess := some (some st.hist.length) } else st
        let isUndo : Bool := key == ⟨.char '_', 8⟩ || (cb.mode == "vc" && key == ⟨.char 'u', 0⟩)
        if isUndo then
          -- inside an open insert session an Undo may also take back the session so far (the group it is)
          let sessStart : Option (Nat × Text) := match st.sess with
            | some (some d) => if d ≤ st.hist.length then (st.hist[st.hist.length - d]?).map (fun e => (st.hist.length - d + 1, e.1)) else none
            | _ => none
          -- (a session whose start the log has lost: the session so far is not known, no judgement)
          let region : Option (List Text × Nat) := (if st.sess == some none then none else allowedOf st.hist).map (fun a =>
            match sessStart with
            | some (m, t) => (t :: a, max a.length m)
            | none => (a, a.length))
          if nl == cb.line then
            -- nothing left to undo, nothing left of the open session, or a unit whose net effect is nil:
            -- the log may be anywhere down to the oldest admissible occurrence of this text
            -- (inside an open session: the session's group marker is consumed, the session is no group any more)
            let st := st.landOn nl (if cb.n > 1 then st.hist.length else (region.map (·.2)).getD st.hist.length)
            go (k + 1) { st with sess := none } rest
          else if cb.n > 1 then go (k + 1) (st.landOn nl st.hist.length) rest
          else
            match region with
            | some (allowed, m) =>
              if !allowed.contains nl then
                some s!"C05:undo-jumped-past-the-state-before-the-last-word-sized-edit(cb {k})"
              else go (k + 1) (st.landOn nl m) rest
            | none => go (k + 1) (st.landOn nl st.hist.length) rest
        else if key == ⟨.char 'R', 8⟩ && histNonEmpty then go (k + 1) { st.lose with sub := 1 } rest
        else if cb.mode != "vc" && (key == ⟨.tab, 0⟩ || key == ⟨.char 'I', 8⟩) && hasCompleter then
          go (k + 1) { st.lose with sub := 2 } rest
        else
          let isOpaque : Bool :=
            key == ⟨.char 'P', 8⟩ || key == ⟨.char 'N', 8⟩ || key == ⟨.up, 0⟩ || key == ⟨.down, 0⟩
              || key == ⟨.bracketedPasteStart, 0⟩ || key == ⟨.tab, 0⟩ || key == ⟨.char 'I', 8⟩ || key == ⟨.backTab, 0⟩
              || key == ⟨.char 'R', 8⟩ || key == ⟨.char 'S', 8⟩
              || (cb.mode == "vc" && (key == ⟨.char 'j', 0⟩ || key == ⟨.char 'k', 0⟩ || key == ⟨.char '+', 0⟩
                    || key == ⟨.char '-', 0⟩ || key == ⟨.char '<', 0⟩ || key == ⟨.char '>', 0⟩))
          if modeSwitch then go (k + 1) st.lose rest
          else if nl == cb.line then go (k + 1) st rest
          else if isOpaque then go (k + 1) st.lose rest
          else go (k + 1) { st with hist := (nl, !smallEdit cb.line nl) :: st.hist } rest
      | _ => go (k + 1) st.lose rest
  match o.cbs with
  | [] => none
  | cb0 :: _ =>
    -- pre-filled initial text is the first undoable edit
    let hist0 : List (Text × Bool) := if cb0.line.isEmpty then [([], false)] else [(cb0.line, true), ([], false)]
    go 0 { seen := [[]], hist := hist0, sess := none } o.cbs

/-- Emacs mode, `C-_` with count 1 (reading decisions: DESIGN.md 7.1, C05).
    * The text after an Undo is a text the line had earlier in this read (at a callback), or "".
    * An Undo never jumps past the state that preceded the most recent word-sized-or-larger edit:
      with `B` the last text change of more than one character before the Undo, the result is the
      text before `B` or one of the texts seen since.  (Which single-character edits are merged
      into one unit is not judged: the code merges a separator with the word typed after it.)
    Keys whose effect on the undo log the callbacks do not determine (history recall, searches,
    completion, multi-key commands, yank-pop) suspend the second rule until the next big edit. -/
def oracleC05 (hasCompleter : Bool) (histNonEmpty : Bool) (o : ImplObs) : OVerdict :=
  -- `sub`: inside an incremental search (`some (some saved)`: the allowed set saved when it started)
  -- or a possible completion loop (`some none`)
  let rec go (k : Nat) (seen : List Text) (since : Option (List Text)) (sub : Option (Option (Option (List Text)))) :
      List (Obs × Text × Option Nat) → OVerdict
    | [] => none
    | (cb, nl, _) :: rest =>
      let seen := if seen.contains cb.line then seen else cb.line :: seen
      if cb.mode != "e" then
        -- unreachable: a read is in one edit mode throughout, vi reads are judged by `oracleC05Vi`
        go (k + 1) seen none none rest
      else
      -- a key the completion loop does not consume ends the loop and is then executed like any
      -- other key (so that `Tab C-g C-r …` starts a search session properly)
      let leftCompletion : Bool := match cb.keys, sub with
        | [key], some none => !completionConsumes cb.mode key
        | _, _ => false
      let sub := if leftCompletion then none else sub
      let since := if leftCompletion then none else since
      match cb.keys, sub with
      | [key], some (some saved) =>
        -- inside the search loop
        if isAbortKey cb.mode key then
          -- "aborting … leaves undo behaviour as if that command had never been started"
          go (k + 1) seen saved none rest
        else if searchConsumes cb.mode key && (key != ⟨.backspace, 0⟩ || cb.positive) then
          go (k + 1) seen none sub rest
        else
          -- the search is accepted: one group; then the key runs — a Tab starts a completion loop
          let startsCompletion : Bool := (key == ⟨.tab, 0⟩ || key == ⟨.char 'I', 8⟩) && hasCompleter
          go (k + 1) seen none (if startsCompletion then some none else none) rest
      | [_], some none =>
        -- possibly inside the completion loop, and the loop consumes this key
        go (k + 1) seen none sub rest
      | _, _ =>
      let isUndo := classifyEmacs cb == .undo && cb.n == 1
      if isUndo then
        if nl == cb.line then go (k + 1) seen since none rest     -- nothing left to undo
        else
          let v : OVerdict :=
            match since with
            | some allowed =>
              if allowed.contains nl then none
              else some s!"C05:undo-jumped-past-the-state-before-the-last-word-sized-edit(cb {k})"
            | none => none
          match v with
          | some w => some w
          | none =>
            if !(seen.contains nl || nl.isEmpty) then
              (if since.isSome then some s!"C05:undo-produced-a-text-the-line-never-had(cb {k})" else go (k + 1) seen none none rest)
            else go (k + 1) seen none none rest   -- after an undo the units are not reconstructed
      else if classifyEmacs cb == .undo then
        -- Undo with a repeat count: several units at once, not judged
        go (k + 1) seen none none rest
      else
        match cb.keys with
        | [key] =>
          if key == ⟨.char 'R', 8⟩ && histNonEmpty then go (k + 1) seen none (some (some since)) rest
          else if (key == ⟨.tab, 0⟩ || key == ⟨.char 'I', 8⟩) && hasCompleter then go (k + 1) seen none (some none) rest
          else
            let isOpaque : Bool :=
              key == ⟨.char 'X', 8⟩
                || key == ⟨.char 'P', 8⟩ || key == ⟨.char 'N', 8⟩ || key == ⟨.up, 0⟩ || key == ⟨.down, 0⟩
                || key == ⟨.char '<', 4⟩ || key == ⟨.char '>', 4⟩
                || key == ⟨.char 'y', 4⟩ || key == ⟨.char 'Y', 4⟩
                || key == ⟨.bracketedPasteStart, 0⟩
            if isOpaque then go (k + 1) seen none none rest
            else if nl == cb.line then go (k + 1) seen since none rest
            else if singleCharEdit cb.line nl then
              go (k + 1) seen (since.map (fun l => nl :: l)) none rest
            else
              -- a word-sized-or-larger edit: from here on an Undo may reach back to the text before it
              go (k + 1) seen (some [nl, cb.line]) none rest
        | _ => go (k + 1) seen none none rest
  match o.cbs with
  | cb0 :: _ => if cb0.mode != "e" then oracleC05Vi hasCompleter histNonEmpty o else go 0 [[]] none none o.steps
  | [] => none

end Rl.Spec
