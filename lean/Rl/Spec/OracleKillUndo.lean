/-
  Oracles for C06 (kill ring) and C05 (undo), evaluated on the implementation's callbacks.
  Both are deliberately conservative: they only judge situations in which the property text
  determines the outcome from what the callbacks show, and say nothing otherwise.
-/
import Rl.Spec.OracleNav
import Rl.Spec.OracleSearch
namespace Rl.Spec
open Rl Rl.Wire

/-! ### shared: classification of keys (documented emacs bindings) -/

inductive KeyClass
  | kill          -- C-k, C-u, C-w, M-d, M-DEL (any numeric argument)
  | charDelete    -- C-d (non-empty line), C-h, Backspace, Delete
  | yank          -- C-y (positive argument)
  | yankPop       -- M-y
  | undo          -- C-_
  | neutral       -- keeps a kill sequence open without being a kill: C-l, unknown escape sequences
  | other
deriving DecidableEq, Repr

def classifyEmacs (o : Obs) : KeyClass :=
  match o.keys with
  | [k] =>
    if k == ⟨.char 'K', 8⟩ || k == ⟨.char 'U', 8⟩ || k == ⟨.char 'W', 8⟩
        || k == ⟨.char 'd', 4⟩ || k == ⟨.char 'D', 4⟩ || k == ⟨.backspace, 4⟩ then .kill
    else if k == ⟨.char 'H', 8⟩ || k == ⟨.backspace, 0⟩ || k == ⟨.delete, 0⟩ then .charDelete
    else if k == ⟨.char 'D', 8⟩ then (if o.line.isEmpty then .other else .charDelete)
    else if k == ⟨.char 'Y', 8⟩ then (if o.positive then .yank else .other)
    else if k == ⟨.char 'y', 4⟩ || k == ⟨.char 'Y', 4⟩ then .yankPop
    else if k == ⟨.char '_', 8⟩ then .undo
    else if k == ⟨.char 'L', 8⟩ || k == ⟨.unknownEscSeq, 0⟩ then .neutral
    else .other
  | _ => .other

/-- `l0 = lm[..p] ++ x ++ lm[p..]`: the text removed at the cursor `p` of `lm` -/
def removedAt (l0 lm : Text) (p : Nat) : Option Text :=
  match splitAtByte lm p with
  | none => none
  | some (a, b) =>
    if a.isPrefixOf l0 && b.length ≤ (l0.drop a.length).length then
      let rest := l0.drop a.length
      let x := rest.take (rest.length - b.length)
      if rest.drop (rest.length - b.length) == b then some x else none
    else none

def insertTextAt (l : Text) (p : Nat) (x : Text) : Option Text :=
  (splitAtByte l p).map (fun (a, b) => a ++ x ++ b)

/-! ### C06 -/

structure KillSt where
  /-- `none`: the ring contents are not known exactly any more (something outside the judged
      fragment touched it); otherwise the kills of this read, most recent first -/
  ring : Option (List Text) := some []
  /-- the kill run in progress: line before its first kill -/
  runStart : Option Text := none
  /-- the previous key certainly reset the ring's "last action" (so a kill starts a new slot) -/
  fresh : Bool := true
  /-- text inserted by the last yank / yank-pop (cursor just after it) -/
  lastYank : Option Text := none
  /-- how far yank-pop has rotated the ring (index into `ring`) -/
  rot : Nat := 0
  /-- a kill was made while the ring was rotated (see `closeRun`) -/
  killedRotated : Bool := false

def oracleC06 (o : ImplObs) : OVerdict :=
  let rec go (k : Nat) (st : KillSt) : List (Obs × Text × Option Nat) → OVerdict
    | [] => none
    | (cb, nl, np) :: rest =>
      if cb.mode != "e" then
        -- vi: only the kill∘yank identity for `d`/`D`/`c`/`C` … `P` is judged, see `oracleC06Vi`
        go (k + 1) { st with ring := none, runStart := none, lastYank := none } rest
      else
      match classifyEmacs cb with
      | .kill =>
        -- a kill command that removes nothing reports no deletion and `Kill(_)` does not reset the
        -- ring's last action: it is transparent (a yank / kill sequence around it stays open)
        if nl == cb.line then go (k + 1) st rest else
        let start := match st.runStart with | some s => some s | none => if st.fresh then some cb.line else none
        -- a run that does not start from a fresh ring state extends an unknown slot
        let ring := if st.runStart.isNone && !st.fresh then none else st.ring
        go (k + 1) { st with runStart := start, ring, fresh := false, lastYank := none } rest
      | .neutral =>
        -- keeps an open kill sequence open: what the next kill joins is not determined by the property
        -- (it does not end a yank either: `C-y C-l M-y` still pops, and the pop is judged for exactness)
        go (k + 1) { st with runStart := none, ring := (if st.runStart.isSome then none else st.ring) } rest
      | .charDelete =>
        -- closes the run (the deleted character must not enter the kill)
        let st := closeRun st cb
        go (k + 1) { st with fresh := true, lastYank := none } rest
      | .yank =>
        let st := closeRun st cb
        match st.ring with
        | some (x0 :: xs) =>
          let x := ((x0 :: xs)[st.rot]?).getD x0
          if cb.n != 1 then go (k + 1) { st with ring := none, fresh := true, lastYank := none } rest
          else
            match insertTextAt cb.line cb.pos x with
            | none => go (k + 1) { st with fresh := true, lastYank := none } rest
            | some exp =>
              if nl != exp then
                some (if st.killedRotated then s!"C06:kill-after-yank-pop-replaced-a-more-recent-kill(cb {k})"
                      else s!"C06:yank-did-not-reinsert-exactly-the-killed-text(cb {k})")
              else match np with
                | some q =>
                  if q != cb.pos + blen x then some s!"C06:cursor-not-after-the-yanked-text(cb {k})"
                  else go (k + 1) { st with fresh := true, lastYank := some x } rest
                | none => none
        | some [] =>
          -- nothing was killed in this read: the ring is empty (fresh editor): nothing is inserted
          if nl != cb.line then some s!"C06:yank-with-empty-ring-changed-the-text(cb {k})"
          else go (k + 1) { st with fresh := true, lastYank := none } rest
        | none => go (k + 1) { st with fresh := true, lastYank := none } rest
      | .yankPop =>
        match st.ring, st.lastYank with
        | some ring, some prev =>
          -- replaces exactly the just-inserted text by the previous kill, cycling through the kills
          let n := ring.length
          if n == 0 then go (k + 1) { st with fresh := true } rest
          else
            let idx := (st.rot + 1) % n
            match ring[idx]? with
            | none => go (k + 1) { st with ring := none, lastYank := none } rest
            | some x =>
              if cb.pos < blen prev then go (k + 1) { st with ring := none, lastYank := none } rest
              else
                match splitAtByte cb.line (cb.pos - blen prev), splitAtByte cb.line cb.pos with
                | some (a, _), some (_, b) =>
                  if nl != a ++ x ++ b then
                    some (if st.killedRotated then s!"C06:kill-after-yank-pop-replaced-a-more-recent-kill(cb {k})"
                          else s!"C06:yank-pop-did-not-replace-the-yanked-text-by-the-previous-kill(cb {k})")
                  else go (k + 1) { st with fresh := true, lastYank := some x, rot := idx } rest
                | _, _ => go (k + 1) { st with ring := none, lastYank := none } rest
        | _, _ =>
          -- not directly after a yank: must do nothing
          if st.lastYank.isNone && st.ring.isSome && nl != cb.line then
            some s!"C06:yank-pop-without-a-preceding-yank-changed-the-text(cb {k})"
          else go (k + 1) { st with ring := none, fresh := true, lastYank := none } rest
      | .undo => go (k + 1) { (closeRun st cb) with ring := none, fresh := true, lastYank := none } rest
      | .other =>
        let st := closeRun st cb
        -- multi-key commands (C-x …, C-v, searches, completion, digit arguments…) may hide kills
        let isOpaque : Bool := match cb.keys with
          | [key] => key == ⟨.char 'X', 8⟩ || key == ⟨.char 'R', 8⟩ || key == ⟨.tab, 0⟩ || key == ⟨.char 'I', 8⟩
                     || key == ⟨.bracketedPasteStart, 0⟩
          | _ => true
        go (k + 1) { st with fresh := true, lastYank := none, ring := if isOpaque then none else st.ring } rest
  go 0 {} o.steps
where
  /-- the run ends at callback `cb` (its line is the text after the last kill) -/
  closeRun (st : KillSt) (cb : Obs) : KillSt :=
    match st.runStart with
    | none => st
    | some l0 =>
      if l0 == cb.line then { st with runStart := none }       -- nothing was removed: no new slot
      else
        match removedAt l0 cb.line cb.pos, st.ring with
        | some x, some ring =>
          -- a new kill becomes the most recent one; if the ring had been rotated by yank-pop the
          -- code stores it in the slot after the rotated position, replacing a more recent kill
          { st with runStart := none, ring := some ((x :: ring).take 60), rot := 0,
                    killedRotated := st.killedRotated || st.rot != 0 }
        | _, _ => { st with runStart := none, ring := none }

/-! ### C05 -/

/-- the step changed the text by exactly one character (inserted or deleted) -/
def singleCharEdit (a b : Text) : Bool :=
  let rec diff1 : Text → Text → Bool
    | x :: xs, y :: ys => if x == y then diff1 xs ys else xs == y :: ys
    | [_], [] => true
    | _, _ => false
  if a.length + 1 == b.length then diff1 b a
  else if b.length + 1 == a.length then diff1 a b
  else false

/-- Emacs mode, `C-_` with count 1 (reading decisions: DESIGN.md 7.1, C05).
    * The text after an Undo is a text the line had earlier in this read (at a callback), or "".
    * An Undo never jumps past the state that preceded the most recent word-sized-or-larger edit:
      with `B` the last text change of more than one character before the Undo, the result is the
      text before `B` or one of the texts seen since.  (Which single-character edits are merged
      into one unit is not judged: the code merges a separator with the word typed after it.)
    Keys whose effect on the undo log the callbacks do not determine (history recall, searches,
    completion, multi-key commands, yank-pop) suspend the second rule until the next big edit. -/
def oracleC05 (hasCompleter : Bool) (histNonEmpty : Bool) (o : ImplObs) : OVerdict :=
  -- `sub`: inside an incremental search (`some (some saved)`: the allowed set saved when it started)
  -- or a possible completion loop (`some none`)
  let rec go (k : Nat) (seen : List Text) (since : Option (List Text)) (sub : Option (Option (Option (List Text)))) :
      List (Obs × Text × Option Nat) → OVerdict
    | [] => none
    | (cb, nl, _) :: rest =>
      let seen := if seen.contains cb.line then seen else cb.line :: seen
      if cb.mode != "e" then
        -- vi insert sessions are explicit groups and multi-line indents have unobserved
        -- intermediate texts: vi is left to the correspondence with the model
        go (k + 1) seen none none rest
      else
      -- a key the completion loop does not consume ends the loop and is then executed like any
      -- other key (so that `Tab C-g C-r …` starts a search session properly)
      let leftCompletion : Bool := match cb.keys, sub with
        | [key], some none => !completionConsumes cb.mode key
        | _, _ => false
      let sub := if leftCompletion then none else sub
      let since := if leftCompletion then none else since
      match cb.keys, sub with
      | [key], some (some saved) =>
        -- inside the search loop
        if isAbortKey cb.mode key then
          -- "aborting … leaves undo behaviour as if that command had never been started"
          go (k + 1) seen saved none rest
        else if searchConsumes cb.mode key && (key != ⟨.backspace, 0⟩ || cb.positive) then
          go (k + 1) seen none sub rest
        else go (k + 1) seen none none rest      -- the search is accepted: one group; then the key runs
      | [_], some none =>
        -- possibly inside the completion loop, and the loop consumes this key
        go (k + 1) seen none sub rest
      | _, _ =>
      let isUndo := classifyEmacs cb == .undo && cb.n == 1
      if isUndo then
        if nl == cb.line then go (k + 1) seen since none rest     -- nothing left to undo
        else
          let v : OVerdict :=
            match since with
            | some allowed =>
              if allowed.contains nl then none
              else some s!"C05:undo-jumped-past-the-state-before-the-last-word-sized-edit(cb {k})"
            | none => none
          match v with
          | some w => some w
          | none =>
            if !(seen.contains nl || nl.isEmpty) then
              (if since.isSome then some s!"C05:undo-produced-a-text-the-line-never-had(cb {k})" else go (k + 1) seen none none rest)
            else go (k + 1) seen none none rest   -- after an undo the units are not reconstructed
      else if classifyEmacs cb == .undo then
        -- Undo with a repeat count: several units at once, not judged
        go (k + 1) seen none none rest
      else
        match cb.keys with
        | [key] =>
          if key == ⟨.char 'R', 8⟩ && histNonEmpty then go (k + 1) seen none (some (some since)) rest
          else if (key == ⟨.tab, 0⟩ || key == ⟨.char 'I', 8⟩) && hasCompleter then go (k + 1) seen none (some none) rest
          else
            let isOpaque : Bool :=
              key == ⟨.char 'X', 8⟩
                || key == ⟨.char 'P', 8⟩ || key == ⟨.char 'N', 8⟩ || key == ⟨.up, 0⟩ || key == ⟨.down, 0⟩
                || key == ⟨.char '<', 4⟩ || key == ⟨.char '>', 4⟩
                || key == ⟨.char 'y', 4⟩ || key == ⟨.char 'Y', 4⟩
                || key == ⟨.bracketedPasteStart, 0⟩
            if isOpaque then go (k + 1) seen none none rest
            else if nl == cb.line then go (k + 1) seen since none rest
            else if singleCharEdit cb.line nl then
              go (k + 1) seen (since.map (fun l => nl :: l)) none rest
            else
              -- a word-sized-or-larger edit: from here on an Undo may reach back to the text before it
              go (k + 1) seen (some [nl, cb.line]) none rest
        | _ => go (k + 1) seen none none rest
  go 0 [[]] none none o.steps

end Rl.Spec
