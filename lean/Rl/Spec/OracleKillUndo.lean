/-
  Oracles for C06 (kill ring) and C05 (undo), evaluated on the implementation's callbacks.
  Both are deliberately conservative: they only judge situations in which the property text
  determines the outcome from what the callbacks show, and say nothing otherwise.
-/
import Rl.Spec.OracleNav
namespace Rl.Spec
open Rl Rl.Wire

/-! ### shared: classification of keys (documented emacs bindings) -/

inductive KeyClass
  | kill          -- C-k, C-u, C-w, M-d, M-DEL (any numeric argument)
  | charDelete    -- C-d (non-empty line), C-h, Backspace, Delete
  | yank          -- C-y (positive argument)
  | yankPop       -- M-y
  | undo          -- C-_
  | neutral       -- keeps a kill sequence open without being a kill: C-l, unknown escape sequences
  | other
deriving DecidableEq, Repr

def classifyEmacs (o : Obs) : KeyClass :=
  match o.keys with
  | [k] =>
    if k == ⟨.char 'K', 8⟩ || k == ⟨.char 'U', 8⟩ || k == ⟨.char 'W', 8⟩
        || k == ⟨.char 'd', 4⟩ || k == ⟨.char 'D', 4⟩ || k == ⟨.backspace, 4⟩ then .kill
    else if k == ⟨.char 'H', 8⟩ || k == ⟨.backspace, 0⟩ || k == ⟨.delete, 0⟩ then .charDelete
    else if k == ⟨.char 'D', 8⟩ then (if o.line.isEmpty then .other else .charDelete)
    else if k == ⟨.char 'Y', 8⟩ then (if o.positive then .yank else .other)
    else if k == ⟨.char 'y', 4⟩ || k == ⟨.char 'Y', 4⟩ then .yankPop
    else if k == ⟨.char '_', 8⟩ then .undo
    else if k == ⟨.char 'L', 8⟩ || k == ⟨.unknownEscSeq, 0⟩ then .neutral
    else .other
  | _ => .other

/-- `l0 = lm[..p] ++ x ++ lm[p..]`: the text removed at the cursor `p` of `lm` -/
def removedAt (l0 lm : Text) (p : Nat) : Option Text :=
  match splitAtByte lm p with
  | none => none
  | some (a, b) =>
    if a.isPrefixOf l0 && b.length ≤ (l0.drop a.length).length then
      let rest := l0.drop a.length
      let x := rest.take (rest.length - b.length)
      if rest.drop (rest.length - b.length) == b then some x else none
    else none

def insertTextAt (l : Text) (p : Nat) (x : Text) : Option Text :=
  (splitAtByte l p).map (fun (a, b) => a ++ x ++ b)

/-! ### C06 -/

structure KillSt where
  /-- `none`: the ring contents are not known exactly any more (something outside the judged
      fragment touched it); otherwise the kills of this read, most recent first -/
  ring : Option (List Text) := some []
  /-- the kill run in progress: line before its first kill -/
  runStart : Option Text := none
  /-- the previous key certainly reset the ring's "last action" (so a kill starts a new slot) -/
  fresh : Bool := true
  /-- text inserted by the last yank / yank-pop (cursor just after it), and how many pops so far -/
  lastYank : Option (Text × Nat) := none

def oracleC06 (o : ImplObs) : OVerdict :=
  let rec go (k : Nat) (st : KillSt) : List (Obs × Text × Option Nat) → OVerdict
    | [] => none
    | (cb, nl, np) :: rest =>
      if cb.mode != "e" then
        -- vi: only the kill∘yank identity for `d`/`D`/`c`/`C` … `P` is judged, see `oracleC06Vi`
        go (k + 1) { st with ring := none, runStart := none, lastYank := none } rest
      else
      match classifyEmacs cb with
      | .kill =>
        let start := match st.runStart with | some s => some s | none => if st.fresh then some cb.line else none
        -- a run that does not start from a fresh ring state extends an unknown slot
        let ring := if st.runStart.isNone && !st.fresh then none else st.ring
        go (k + 1) { st with runStart := start, ring, fresh := false, lastYank := none } rest
      | .neutral =>
        -- keeps an open kill sequence open: what the next kill joins is not determined by the property
        go (k + 1) { st with runStart := none, ring := (if st.runStart.isSome then none else st.ring), lastYank := none } rest
      | .charDelete =>
        -- closes the run (the deleted character must not enter the kill)
        let st := closeRun st cb
        go (k + 1) { st with fresh := true, lastYank := none } rest
      | .yank =>
        let st := closeRun st cb
        match st.ring with
        | some (x :: _) =>
          if cb.n != 1 then go (k + 1) { st with ring := none, fresh := true, lastYank := none } rest
          else
            match insertTextAt cb.line cb.pos x with
            | none => go (k + 1) { st with fresh := true, lastYank := none } rest
            | some exp =>
              if nl != exp then some s!"C06:yank-did-not-reinsert-exactly-the-killed-text(cb {k})"
              else match np with
                | some q =>
                  if q != cb.pos + blen x then some s!"C06:cursor-not-after-the-yanked-text(cb {k})"
                  else go (k + 1) { st with fresh := true, lastYank := some (x, 0) } rest
                | none => none
        | some [] =>
          -- nothing was killed in this read: the ring is empty (fresh editor): nothing is inserted
          if nl != cb.line then some s!"C06:yank-with-empty-ring-changed-the-text(cb {k})"
          else go (k + 1) { st with fresh := true, lastYank := none } rest
        | none => go (k + 1) { st with fresh := true, lastYank := none } rest
      | .yankPop =>
        match st.ring, st.lastYank with
        | some ring, some (prev, pops) =>
          -- replaces exactly the just-inserted text by the previous kill, cycling through the kills
          let n := ring.length
          if n == 0 then go (k + 1) { st with fresh := true } rest
          else
            let idx := (pops + 1) % n
            match ring[idx]? with
            | none => go (k + 1) { st with ring := none, lastYank := none } rest
            | some x =>
              if cb.pos < blen prev then go (k + 1) { st with ring := none, lastYank := none } rest
              else
                match splitAtByte cb.line (cb.pos - blen prev), splitAtByte cb.line cb.pos with
                | some (a, _), some (_, b) =>
                  if nl != a ++ x ++ b then some s!"C06:yank-pop-did-not-replace-the-yanked-text-by-the-previous-kill(cb {k})"
                  else go (k + 1) { st with fresh := true, lastYank := some (x, pops + 1) } rest
                | _, _ => go (k + 1) { st with ring := none, lastYank := none } rest
        | _, _ =>
          -- not directly after a yank: must do nothing
          if st.lastYank.isNone && st.ring.isSome && nl != cb.line then
            some s!"C06:yank-pop-without-a-preceding-yank-changed-the-text(cb {k})"
          else go (k + 1) { st with ring := none, fresh := true, lastYank := none } rest
      | .undo => go (k + 1) { (closeRun st cb) with ring := none, fresh := true, lastYank := none } rest
      | .other =>
        let st := closeRun st cb
        -- multi-key commands (C-x …, C-v, searches, completion, digit arguments…) may hide kills
        let isOpaque : Bool := match cb.keys with
          | [key] => key == ⟨.char 'X', 8⟩ || key == ⟨.char 'R', 8⟩ || key == ⟨.tab, 0⟩ || key == ⟨.char 'I', 8⟩
                     || key == ⟨.bracketedPasteStart, 0⟩
          | _ => true
        go (k + 1) { st with fresh := true, lastYank := none, ring := if isOpaque then none else st.ring } rest
  go 0 {} o.steps
where
  /-- the run ends at callback `cb` (its line is the text after the last kill) -/
  closeRun (st : KillSt) (cb : Obs) : KillSt :=
    match st.runStart with
    | none => st
    | some l0 =>
      if l0 == cb.line then { st with runStart := none }       -- nothing was removed: no new slot
      else
        match removedAt l0 cb.line cb.pos, st.ring with
        | some x, some ring => { st with runStart := none, ring := some ((x :: ring).take 60) }
        | _, _ => { st with runStart := none, ring := none }

/-! ### C05 -/

/-- one edit step changed the text by exactly one alphanumeric character (insert or delete) -/
def singleAlnumEdit (alnum : Char → Bool) (a b : Text) : Bool :=
  let rec diff1 : Text → Text → Option Char
    | x :: xs, y :: ys => if x == y then diff1 xs ys else if xs == y :: ys then some x else none
    | [x], [] => some x
    | _, _ => none
  if a.length + 1 == b.length then (match diff1 b a with | some c => alnum c | none => false)
  else if b.length + 1 == a.length then (match diff1 a b with | some c => alnum c | none => false)
  else false

/-- Emacs mode, `C-_` with count 1.
    * the text after an Undo must be a text the line had earlier in this read (at a callback) or "";
    * an Undo directly after a text change that is not a single alphanumeric insertion/deletion must
      give back exactly the text before that change (it may not jump past it);
    * after a run of single alphanumeric edits it must land inside that run. -/
def oracleC05 (alnum : Char → Bool) (hasCompleter : Bool) (histNonEmpty : Bool) (o : ImplObs) : OVerdict :=
  let rec go (k : Nat) (seen : List Text) (run : List Text) (lastChange : Option (Text × Bool)) (sound : Bool) :
      List (Obs × Text × Option Nat) → OVerdict
    | [] => none
    | (cb, nl, _) :: rest =>
      let seen := if seen.contains cb.line then seen else cb.line :: seen
      if cb.mode != "e" then
        -- vi insert sessions are explicit groups: only "lands on an earlier text" could be judged, and
        -- multi-line indents have unobserved intermediate texts; vi is left to the correspondence
        go (k + 1) seen [] none false rest
      else
      let isUndo := classifyEmacs cb == .undo && cb.n == 1
      if isUndo then
        let v : OVerdict :=
          if !sound then none
          else
            match lastChange with
            | none => none
            | some (before, single) =>
              if nl == cb.line then none          -- nothing to undo / nothing happened
              else if single then
                (if run.contains nl || nl == before then none
                 else some s!"C05:undo-jumped-past-the-run-of-single-character-edits(cb {k})")
              else
                (if nl == before then none
                 else some s!"C05:undo-did-not-restore-the-text-before-the-last-edit(cb {k})")
        match v with
        | some w => some w
        | none =>
          -- after an undo the bookkeeping of units is not reconstructed: stop judging exact units
          if sound && !(seen.contains nl || nl.isEmpty) then
            some s!"C05:undo-produced-a-text-the-line-never-had(cb {k})"
          else go (k + 1) seen [] none false rest
      else
        -- keys whose effect on the undo log the callbacks do not determine make the rest unsound
        let isOpaque : Bool := match cb.keys with
          | [key] =>
            key == ⟨.char 'X', 8⟩ || (key == ⟨.char 'R', 8⟩ && histNonEmpty)
              || ((key == ⟨.tab, 0⟩ || key == ⟨.char 'I', 8⟩) && hasCompleter)
              || key == ⟨.char 'P', 8⟩ || key == ⟨.char 'N', 8⟩ || key == ⟨.up, 0⟩ || key == ⟨.down, 0⟩
              || key == ⟨.char '<', 4⟩ || key == ⟨.char '>', 4⟩
              || key == ⟨.char 'y', 4⟩ || key == ⟨.char 'Y', 4⟩   -- yank-pop is a group of its own
          | _ => true
        if isOpaque then go (k + 1) seen [] none false rest
        else if nl == cb.line then go (k + 1) seen run lastChange sound rest   -- a motion: units unchanged
        else
          let single := singleAlnumEdit alnum cb.line nl
          -- unit boundaries are only known from a change that cannot merge with what came before
          let sound' := if single then sound else true
          let run' := if single then (if run.isEmpty then [cb.line] else cb.line :: run) else []
          go (k + 1) seen run' (some (cb.line, single)) sound' rest
  go 0 [[]] [] none false o.steps

end Rl.Spec
