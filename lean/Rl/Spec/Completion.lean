/-
  Declarative side of property C15, written from the property text:

  * how a typed line is read: the partial path before the cursor is bare (a backslash makes
    the next character literal, an unescaped word-break character starts a new word), or
    inside an open double quote (backslash makes the next character literal), or inside an
    open single quote (no escape exists)                                  — `lex`
  * "offers exactly the entries of the addressed directory whose names start with the typed
    partial name (directories with a trailing separator)"                  — `expectedNames`
  * "each replacement, once inserted, is parsed back by the same rules to the same file;
    completing again from the inserted text offers that entry again"       — `fsVerdict`
  * "escaping then unescaping any name is the identity"                     — `escVerdict`
  * "the reported longest common prefix of candidates is a common prefix ending on a
    character boundary" (and is the longest such)                           — `lcpVerdict`

  Nothing here looks at the model's functions; only the data types `Quote`, `Entry` are shared.
-/
import Rl.Text
import Rl.Completion
namespace Rl.Spec.Completion
open Rl.Completion (Quote Entry Listing)

inductive LMode | bare | bareEsc | dq | dqEsc | sq
deriving DecidableEq, Repr

/-- reading of the text before the cursor -/
structure Lexed where
  /-- byte index at which the typed form of the partial path starts -/
  start : Nat := 0
  mode : LMode := .bare
  /-- the partial path that is meant: quotes and escape characters removed -/
  path : Text := []
  /-- no bare backslash stands before a character that needs no escape (the typed text
      escapes the way the completer itself does; other spellings are not claimed) -/
  plain : Bool := true
deriving Repr

def Lexed.ctx (l : Lexed) : Quote :=
  match l.mode with
  | .bare | .bareEsc => .none
  | .dq | .dqEsc => .double
  | .sq => .single

/-- the text ends right after a bare escape character -/
def Lexed.dangling (l : Lexed) : Bool := l.mode = .bareEsc

def lexStep (isBreak : Char → Bool) (st : Lexed) (i : Nat) (c : Char) : Lexed :=
  let after := i + c.utf8Size
  match st.mode with
  | .bare =>
    if c = '\\' then { st with mode := .bareEsc }
    else if c = '"' then { st with mode := .dq, start := after, path := [] }
    else if c = '\'' then { st with mode := .sq, start := after, path := [] }
    else if isBreak c then { st with start := after, path := [] }
    else { st with path := st.path ++ [c] }
  | .bareEsc => { st with mode := .bare, path := st.path ++ [c], plain := st.plain && isBreak c }
  | .dq =>
    if c = '"' then { st with mode := .bare, start := after, path := [] }
    else if c = '\\' then { st with mode := .dqEsc }
    else { st with path := st.path ++ [c] }
  | .dqEsc => { st with mode := .dq, path := st.path ++ [c] }
  | .sq =>
    if c = '\'' then { st with mode := .bare, start := after, path := [] }
    else { st with path := st.path ++ [c] }

def lexGo (isBreak : Char → Bool) : Text → Nat → Lexed → Lexed
  | [], _, st => st
  | c :: t, i, st => lexGo isBreak t (i + c.utf8Size) (lexStep isBreak st i c)

def lex (isBreak : Char → Bool) (t : Text) : Lexed := lexGo isBreak t 0 {}

/-! ### escape / unescape -/

def openQuote : Quote → Text
  | .double => ['"']
  | .single => ['\'']
  | .none => []

/-- `escaped` is what the code wrote for `s` in context `q`, `unescaped` what it read back.
    Read back intact: the unescape function returns `s`, and the reading of the typed line
    `open-quote ++ escaped` is "still in context `q`, path `s`, started right after the quote".
    Inside single quotes names containing a single quote are not considered. -/
def escVerdict (isBreak : Char → Bool) (q : Quote) (s escaped unescaped : Text) : String :=
  if q = .single ∧ s.contains '\'' then "ok"
  else if unescaped ≠ s then "fail:unescape"
  else
    let l := lex isBreak (openQuote q ++ escaped)
    if l.ctx ≠ q ∨ l.dangling then "fail:context"
    else if l.start ≠ blen (openQuote q) then "fail:start"
    else if l.path ≠ s then "fail:reads-back-differently"
    else "ok"

/-! ### the word before the cursor (bare context) -/

/-- the word the completer must find for the text `l` before the cursor: defined when the text
    is bare at its end, not cut after an escape, and plain -/
def expectedWord (isBreak : Char → Bool) (l : Text) : Option (Nat × Text) :=
  let r := lex isBreak l
  if r.ctx = .none ∧ !r.dangling ∧ r.plain then
    (splitAtByte l r.start).map (fun p => (r.start, p.2))
  else none

/-! ### the public helper `extract_word`

  `extract_word` is a public, general-purpose function (third-party completers call it on ordinary
  text); its documented contract knows word-break characters and the escape character only.  A
  quote is an ordinary break character for it (`don't foo` has the word `foo`), so it is judged
  against a reader that does not interpret quotes.  The quote-aware reading above (`lex`,
  `expectedWord`) is what the property demands of the file name completer, and is judged there
  (`fsVerdict`); the two readers differ exactly on lines like `'\'a` (finding D26, repaired in the
  completer). -/

def helperStep (isBreak : Char → Bool) (st : Lexed) (i : Nat) (c : Char) : Lexed :=
  match st.mode with
  | .bareEsc => { st with mode := .bare, path := st.path ++ [c], plain := st.plain && isBreak c }
  | _ =>
    if c = '\\' then { st with mode := .bareEsc }
    else if isBreak c then { st with start := i + c.utf8Size, path := [] }
    else { st with path := st.path ++ [c] }

def helperGo (isBreak : Char → Bool) : Text → Nat → Lexed → Lexed
  | [], _, st => st
  | c :: t, i, st => helperGo isBreak t (i + c.utf8Size) (helperStep isBreak st i c)

/-- the word the public `extract_word` must report for the text `l` before the cursor when a
    backslash escapes: defined when the text is not cut after an escape and is plain -/
def expectedWordHelper (isBreak : Char → Bool) (l : Text) : Option (Nat × Text) :=
  let r := helperGo isBreak l 0 {}
  if !r.dangling ∧ r.plain then
    (splitAtByte l r.start).map (fun p => (r.start, p.2))
  else none

/-- without an escape character: the word starts after the last word-break character -/
def expectedWordNoEsc (isBreak : Char → Bool) (l : Text) : Nat × Text :=
  let w := (l.reverse.takeWhile (fun c => !isBreak c)).reverse
  (blen l - blen w, w)

/-! ### longest common prefix -/

def isPrefix (p t : Text) : Bool := p.isPrefixOf t

/-- `r` = reported prefix.  It must be a prefix (as a sequence of characters, hence ending on a
    character boundary) of every candidate, and no candidate-wide prefix may be one character
    longer.  Nothing reported: allowed only if the candidates share no first character
    (or there is no candidate). -/
def lcpVerdict (cs : List Text) (r : Option Text) : String :=
  match r with
  | some p =>
    if cs.isEmpty then "fail:prefix-of-nothing"
    else if !(cs.all (isPrefix p)) then "fail:not-common"
    else
      match cs.head? with
      | some c0 =>
        match (c0.drop p.length).head? with
        | some x => if cs.all (isPrefix (p ++ [x])) then "fail:not-longest" else "ok"
        | none => "ok"
      | none => "ok"
  | none =>
    match cs.head? with
    | none => "ok"
    | some c0 =>
      match c0.head? with
      | some x => if cs.all (isPrefix [x]) then "fail:missed" else "ok"
      | none => "ok"

/-! ### completion in a directory -/

/-- (directory part including its separator, partial name) -/
def splitLast (path : Text) : Text × Text :=
  let name := (path.reverse.takeWhile (· ≠ '/')).reverse
  (path.take (path.length - name.length), name)

/-- the directory a directory part addresses, as the `dir`/`full` key of the listing; `none`
    when the spelling is outside what is claimed (absolute, empty or dot components) -/
def dirKey (dirPart : Text) : Option Text :=
  if dirPart.isEmpty then some []
  else
    let key := dirPart.dropLast
    let comps := key.splitOn '/'
    if comps.any (fun c => c.isEmpty ∨ c = ['.'] ∨ c = ['.', '.'] ∨ c = ['~']) then none else some key

def textLt : Text → Text → Bool
  | _, [] => false
  | [], _ :: _ => true
  | a :: s, b :: t => a.toNat < b.toNat || (a = b && textLt s t)

def strictlySorted : List Text → Bool
  | [] => true
  | [_] => true
  | a :: b :: t => textLt a b && strictlySorted (b :: t)

/-- entries of the addressed directory whose names start with the partial name -/
def expectedEntries (fs : Listing) (key partial_ : Text) : List Entry :=
  if key.isEmpty ∨ fs.any (fun e => e.isDir ∧ e.full = key) then
    fs.filter (fun e => e.dir = key ∧ partial_.isPrefixOf e.name)
  else []

/-- one candidate as observed: display, replacement, and the re-completion made from
    `line[..start] ++ replacement` (trailing separator removed): (start, displays) -/
structure Cand where
  display : Text
  replacement : Text
  reStart : Nat
  reDisplays : List Text

/-- Verdict on an observed completion `(start, cands)` for the text `l` before the cursor in a
    directory tree `fs`.  `-` = the line is outside the claim (see `lex`). -/
def fsVerdict (isBreak : Char → Bool) (fs : Listing) (l : Text) (start : Nat) (cands : List Cand) :
    String :=
  let r := lex isBreak l
  if r.dangling ∨ (r.ctx = .none ∧ !r.plain) then "-"
  else
    let (dirPart, partial_) := splitLast r.path
    match dirKey dirPart with
    | none => "-"
    | some key =>
      -- inside single quotes names containing a single quote are not considered
      let considered := fun (n : Text) => !(r.ctx = .single ∧ n.contains '\'')
      let exp := (expectedEntries fs key partial_).filter (fun e => considered e.name)
      let cands := cands.filter (fun c => considered c.display)
      if start ≠ r.start then s!"fail:start-{start}-expected-{r.start}"
      else if !(cands.all (fun c => exp.any (fun e => e.name = c.display))) then "fail:offers-a-non-match"
      else if !(exp.all (fun e => cands.any (fun c => c.display = e.name))) then "fail:misses-a-match"
      else if !(strictlySorted (cands.map (·.display))) then "fail:order-or-duplicate"
      else
        match splitAtByte l start with
        | none => "fail:start-off-boundary"
        | some (pre, _) =>
          let bad := cands.findIdx? (fun c =>
            match exp.find? (fun e => e.name = c.display) with
            | none => true
            | some e =>
              let r2 := lex isBreak (pre ++ c.replacement)
              let want := dirPart ++ e.name ++ (if e.isDir then ['/'] else [])
              r2.dangling ∨ r2.start ≠ start ∨ r2.ctx ≠ r.ctx ∨ r2.path ≠ want)
          match bad with
          | some k => s!"fail:replacement-{k}-reads-back-differently"
          | none =>
            match cands.findIdx? (fun c => c.reStart ≠ start ∨ !(c.reDisplays.contains c.display)) with
            | some k => s!"fail:candidate-{k}-not-offered-again"
            | none => "ok"

end Rl.Spec.Completion
