/-
  Oracle for C08 (incremental history search): the search loop as an abstract machine over the
  implementation's callbacks, using the declarative nearest-match spec of C09 (`Spec.find`).
-/
import Rl.Spec.OracleNav
namespace Rl.Spec
open Rl Rl.Wire

/-- `idx` is the position of the entry ON DISPLAY (before the first hit: the newest entry, where the
    search starts); it moves only when a search hits -/
structure SearchSt where
  buf : Text
  idx : Nat
  dir : Dir
  backup : Text × Nat

def isAbortKey (mode : String) (k : KeyEvent) : Bool :=
  mode == "e" && (k == ⟨.char 'G', 8⟩ || k == ⟨.char 'G', 12⟩ || k == ⟨.esc, 0⟩)

def oracleC08 (hist : List Text) (o : ImplObs) : OVerdict :=
  let len := hist.length
  -- one search for `st.buf` starting at `start` (the shown entry itself after a typed character, its
  -- neighbour in the search direction for a repeated search key)
  let doSearch (k : Nat) (st : SearchSt) (start : Nat) (cb : Obs) (nl : Text) (np : Option Nat) : SearchSt × OVerdict :=
    match Spec.find true hist st.buf start st.dir with
    | some (i, e, off) =>
      let v : OVerdict :=
        if nl != e then some s!"C08:shown-line-is-not-the-nearest-matching-entry(cb {k})"
        else match np with
          | some q => if q == off then none else some s!"C08:cursor-not-at-the-match(cb {k})"
          | none => none
      ({ st with idx := i }, v)
    | none =>
      -- failure: the line shown stays, and so does the position (the next repeat is again judged
      -- from the entry on display: no nearer match may be skipped)
      (st, if nl == cb.line then none else some s!"C08:line-changed-although-nothing-matches(cb {k})")
  let rec go (k : Nat) (cur : Option SearchSt) : List (Obs × Text × Option Nat) → OVerdict
    | [] => none
    | (cb, nl, np) :: rest =>
      match cb.keys with
      | [key] =>
        match cur with
        | none =>
          if key == ⟨.char 'R', 8⟩ && len > 0 then
            -- the search starts: the user's own line stays on display
            let v : OVerdict := if nl == cb.line then none else some s!"C08:line-changed-when-search-started(cb {k})"
            match v with
            | some w => some w
            | none => go (k + 1) (some { buf := [], idx := len - 1, dir := .reverse, backup := (cb.line, cb.pos) }) rest
          else go (k + 1) none rest
        | some st =>
          -- a vi command-mode key inside a search (Esc glued to a character: "fast command mode")
          -- may re-issue an earlier command (`.` repeats a typed character or a Backspace, `X` is
          -- a rubout): what the search text is from here on is not determined by the keys alone,
          -- so nothing further is judged
          if cb.mode == "vc" || (cb.mode == "vi" && key.mods == Mods.alt && (match key.code with | .char _ => true | _ => false)) then none
          else if isPlainChar key && cb.mode != "vr" && cb.mode != "vc" && (cb.mode != "e" || cb.positive) then
            match key.code with
            | .char c =>
              let st := { st with buf := st.buf ++ [c] }
              let (st', v) := doSearch k st st.idx cb nl np
              match v with | some w => some w | none => go (k + 1) (some st') rest
            | _ => go (k + 1) (some st) rest
          else if ((key == ⟨.backspace, 0⟩ || key == ⟨.char 'H', 8⟩) && cb.mode != "vc" && (cb.mode != "e" || cb.positive))
                  -- with a negative argument C-d (on a non-empty line) and Delete are Kill(BackwardChar) too
                  || (cb.mode == "e" && !cb.positive && ((key == ⟨.char 'D', 8⟩ && !cb.line.isEmpty) || key == ⟨.delete, 0⟩)) then
            let st := { st with buf := st.buf.dropLast }
            if nl == cb.line then go (k + 1) (some st) rest else some s!"C08:backspace-changed-the-line(cb {k})"
          else if key == ⟨.char 'R', 8⟩ then
            if st.idx > 0 then
              let st := { st with dir := .reverse }
              let (st', v) := doSearch k st (st.idx - 1) cb nl np
              match v with | some w => some w | none => go (k + 1) (some st') rest
            else
              if nl == cb.line then go (k + 1) (some { st with dir := .reverse }) rest
              else some s!"C08:line-changed-at-oldest-entry(cb {k})"
          else if key == ⟨.char 'S', 8⟩ then
            if st.idx + 1 < len then
              let st := { st with dir := .forward }
              let (st', v) := doSearch k st (st.idx + 1) cb nl np
              match v with | some w => some w | none => go (k + 1) (some st') rest
            else
              if nl == cb.line then go (k + 1) (some { st with dir := .forward }) rest
              else some s!"C08:line-changed-at-newest-entry(cb {k})"
          else if isAbortKey cb.mode key then
            if nl != st.backup.1 then some s!"C08:abort-did-not-restore-the-line(cb {k})"
            else match np with
              | some q => if q == st.backup.2 then go (k + 1) none rest
                          else some s!"C08:abort-did-not-restore-the-cursor(cb {k})"
              | none => go (k + 1) none rest
          else
            -- any other command ends the search and is executed normally (not constrained here);
            -- it may itself be C-r … handled from the main loop on the next key
            go (k + 1) none rest
      | _ => go (k + 1) cur rest
  go 0 none o.steps

end Rl.Spec
