/-
  Property C01 — the documented key bindings AS DATA, and their declarative meaning.

  Written from README.md (sections "Actions / For all modes", "Emacs mode", "vi command mode",
  "vi insert mode") and the GNU readline / vi conventions for counts, negative arguments, words and
  operator + motion — NOT from `src/keymap.rs`.  The meaning of an action on (text, cursor) is given
  with the declarative targets and spans of `Rl/Spec/Motion.lean` (C04), never with the line-buffer
  model.

  * `Doc.table mode`     : (key event, documented action) per mode,
  * `Doc.encodings`      : the byte encodings of the documented keys (xterm CSI / SS3, vt `~`,
                            rxvt, linux console, ESC-prefixed Meta),
  * `DocAction.resolve`  : count and sign conventions (negative argument swaps the direction),
  * `Act.apply`          : the documented edit of a resolved action on (text, cursor),
  * `argValue`           : the value of a typed numeric argument.

  Kill-ring contents, yank, history, search, completion, undo and redo are left to C05–C08 / C14:
  those keys are in the table as `other` and are not judged here.
-/
import Rl.Keys
import Rl.Types
import Rl.Cmd
import Rl.Spec.Motion
set_option linter.unusedVariables false
namespace Rl.Spec.Doc
open Rl Rl.Spec

inductive Mode | emacs | viCommand | viInsert | viReplace
deriving DecidableEq, Repr

def Mode.ofString (s : String) : Option Mode :=
  if s == "e" then some .emacs else if s == "vc" then some .viCommand
  else if s == "vi" then some .viInsert else if s == "vr" then some .viReplace else none

/-- the motions the README names -/
inductive DocMove
  | bol | eol | charLeft | charRight
  | wordLeft (w : Word) | wordRight (a : At) (w : Word)
  | firstPrint | wholeLine | lineUp | lineDown
deriving DecidableEq, Repr

inductive Operator | delete | change | yank
deriving DecidableEq, Repr

/-- documented actions, as the README words them (arguments still to be read) -/
inductive DocAction
  | move (m : DocMove)                 -- "Move cursor …"
  | delete (m : DocMove)               -- "Delete …" (the text between the cursor and where `m` goes)
  | change (m : DocMove)               -- delete, then enter input mode (vi `s`, `C`, `S`)
  | insertMode (pre : Option DocMove)  -- vi `i` `a` `A` `I`
  | editWord (a : WordAction)          -- M-u M-l M-c
  | transposeChars
  | deleteOrEof                        -- C-d
  | accept | interrupt
  | toCommand                          -- vi insert Esc
  | operator (o : Operator)            -- vi d c y + movement
  | charSearch (k : Char)              -- vi f F t T + char
  | repeatSearch (opposite : Bool)     -- vi ; ,
  | replaceChar                        -- vi r + char
  | quotedInsert                       -- C-v / C-q + char
  | digitArg                           -- M-0 … M-9, M--
  | other (what : String)              -- documented, judged by another property (C05–C08, C14) or not at all
deriving DecidableEq, Repr

def ctrl (c : Char) : KeyEvent := ⟨.char c, 8⟩
def altk (c : Char) : KeyEvent := ⟨.char c, 4⟩
def plain (c : Char) : KeyEvent := ⟨.char c, 0⟩
def key (k : KeyCode) : KeyEvent := ⟨k, 0⟩

/-- README "For all modes" -/
def commonTable : List (KeyEvent × DocAction) :=
  [ (key .home, .move .bol), (key .end_, .move .eol),
    (key .left, .move .charLeft), (key .right, .move .charRight),
    (ctrl 'C', .interrupt),
    (ctrl 'D', .deleteOrEof), (key .delete, .delete .charRight),
    (ctrl 'J', .accept), (ctrl 'M', .accept), (key .enter, .accept),
    (ctrl 'R', .other "reverse-search"), (ctrl 'S', .other "forward-search"),
    (ctrl 'T', .transposeChars),
    (ctrl 'U', .delete .bol),
    (ctrl 'V', .quotedInsert), (ctrl 'Q', .quotedInsert),
    (ctrl 'W', .delete (.wordLeft .big)),
    (ctrl 'Y', .other "yank"), (ctrl 'Z', .other "suspend"), (ctrl '_', .other "undo") ]

/-- README "Emacs mode" (single keys; `C-x C-u` is the only two-key entry, see `emacsCx`) -/
def emacsTable : List (KeyEvent × DocAction) :=
  [ (ctrl 'A', .move .bol), (ctrl 'B', .move .charLeft), (ctrl 'E', .move .eol), (ctrl 'F', .move .charRight),
    (ctrl 'H', .delete .charLeft), (key .backspace, .delete .charLeft),
    (ctrl 'I', .other "complete"), (key .tab, .other "complete"),
    (ctrl 'K', .delete .eol), (ctrl 'L', .other "clear-screen"),
    (ctrl 'N', .other "next-history"), (key .down, .other "next-history"),
    (ctrl 'P', .other "previous-history"), (key .up, .other "previous-history"),
    (altk '<', .other "first-history"), (altk '>', .other "last-history"),
    (altk 'b', .move (.wordLeft .emacs)), (altk 'B', .move (.wordLeft .emacs)),
    (⟨.left, 4⟩, .move (.wordLeft .emacs)),
    (altk 'c', .editWord .capitalize), (altk 'C', .editWord .capitalize),
    (altk 'd', .delete (.wordRight .afterEnd .emacs)), (altk 'D', .delete (.wordRight .afterEnd .emacs)),
    (altk 'f', .move (.wordRight .afterEnd .emacs)), (altk 'F', .move (.wordRight .afterEnd .emacs)),
    (⟨.right, 4⟩, .move (.wordRight .afterEnd .emacs)),
    (altk 'l', .editWord .lowercase), (altk 'L', .editWord .lowercase),
    (altk 't', .other "transpose-words"), (altk 'T', .other "transpose-words"),
    (altk 'u', .editWord .uppercase), (altk 'U', .editWord .uppercase),
    (altk 'y', .other "yank-pop"), (altk 'Y', .other "yank-pop"),
    (⟨.backspace, 4⟩, .delete (.wordLeft .emacs)),
    (altk '0', .digitArg), (altk '1', .digitArg), (altk '2', .digitArg), (altk '3', .digitArg),
    (altk '4', .digitArg), (altk '5', .digitArg), (altk '6', .digitArg), (altk '7', .digitArg),
    (altk '8', .digitArg), (altk '9', .digitArg), (altk '-', .digitArg) ]

/-- the documented two-key entry of emacs mode -/
def emacsCx : List (KeyEvent × DocAction) := [ (ctrl 'U', .other "undo") ]

/-- README "vi command mode" -/
def viCommandTable : List (KeyEvent × DocAction) :=
  [ (plain '$', .move .eol), (key .end_, .move .eol),
    (plain '.', .other "redo"),
    (plain ';', .repeatSearch false), (plain ',', .repeatSearch true),
    (plain '0', .move .bol), (key .home, .move .bol),
    (plain '^', .move .firstPrint),
    (plain 'a', .insertMode (some .charRight)), (plain 'A', .insertMode (some .eol)),
    (plain 'b', .move (.wordLeft .vi)), (plain 'B', .move (.wordLeft .big)),
    (plain 'c', .operator .change), (plain 'C', .change .eol),
    (plain 'd', .operator .delete), (plain 'D', .delete .eol), (ctrl 'K', .delete .eol),
    (plain 'e', .move (.wordRight .beforeEnd .vi)), (plain 'E', .move (.wordRight .beforeEnd .big)),
    (plain 'f', .charSearch 'f'), (plain 'F', .charSearch 'F'),
    (plain 'h', .move .charLeft), (ctrl 'H', .move .charLeft), (key .backspace, .move .charLeft),
    (plain 'l', .move .charRight), (plain ' ', .move .charRight),
    (ctrl 'L', .other "clear-screen"),
    (plain 'i', .insertMode none), (plain 'I', .insertMode (some .bol)),
    (plain '+', .other "next-history"), (plain 'j', .other "next-history"), (ctrl 'N', .other "next-history"),
    (plain '-', .other "previous-history"), (plain 'k', .other "previous-history"), (ctrl 'P', .other "previous-history"),
    (plain 'p', .other "paste-after"), (plain 'P', .other "paste-before"),
    (plain 'r', .replaceChar),
    (plain 's', .change .charRight), (plain 'S', .change .wholeLine),
    (plain 't', .charSearch 't'), (plain 'T', .charSearch 'T'),
    (plain 'u', .other "undo"),
    (plain 'w', .move (.wordRight .start .vi)), (plain 'W', .move (.wordRight .start .big)),
    (plain 'x', .delete .charRight), (plain 'X', .delete .charLeft),
    (plain 'y', .operator .yank) ]

/-- README "vi insert mode" -/
def viInsertTable : List (KeyEvent × DocAction) :=
  [ (ctrl 'H', .delete .charLeft), (key .backspace, .delete .charLeft),
    (ctrl 'I', .other "complete"), (key .tab, .other "complete"),
    (key .esc, .toCommand) ]

/-- the movements a vi operator accepts (README `c<movement>` …: the motion keys of the command
    table, plus the operator key doubled = the whole line, plus vi's `j` `k` line motions) -/
def viMotionTable : List (KeyEvent × DocAction) :=
  [ (plain '$', .move .eol), (plain '0', .move .bol), (plain '^', .move .firstPrint),
    (plain 'b', .move (.wordLeft .vi)), (plain 'B', .move (.wordLeft .big)),
    (plain 'e', .move (.wordRight .beforeEnd .vi)), (plain 'E', .move (.wordRight .beforeEnd .big)),
    (plain 'f', .charSearch 'f'), (plain 'F', .charSearch 'F'), (plain 't', .charSearch 't'), (plain 'T', .charSearch 'T'),
    (plain ';', .repeatSearch false), (plain ',', .repeatSearch true),
    (plain 'h', .move .charLeft), (ctrl 'H', .move .charLeft), (key .backspace, .move .charLeft),
    (plain 'l', .move .charRight), (plain ' ', .move .charRight),
    (plain 'w', .move (.wordRight .start .vi)), (plain 'W', .move (.wordRight .start .big)),
    (plain 'j', .move .lineDown), (plain '+', .move .lineDown),
    (plain 'k', .move .lineUp), (plain '-', .move .lineUp) ]

/-- the mode's own table first, then "For all modes" -/
def table : Mode → List (KeyEvent × DocAction)
  | .emacs => emacsTable ++ commonTable
  | .viCommand => viCommandTable ++ commonTable
  | .viInsert => viInsertTable ++ commonTable
  | .viReplace => viInsertTable ++ commonTable

def lookup (t : List (KeyEvent × DocAction)) (k : KeyEvent) : Option DocAction :=
  (t.find? (fun e => e.1 == k)).map (·.2)

/-- a key that inserts itself: a printable character without modifiers -/
def printable (k : KeyEvent) : Option Char :=
  match k.code with
  | .char c => if k.mods == 0 && !isControl c then some c else none
  | _ => none

/-! ### byte encodings of the documented keys -/

def csi (rest : List UInt8) : List UInt8 := 0x1b :: 0x5b :: rest
def ss3 (b : UInt8) : List UInt8 := [0x1b, 0x4f, b]

/-- escape-sequence encodings (xterm, vt220 `~`, rxvt, linux console, SS3 application mode) -/
def encodings : List (List UInt8 × KeyEvent) :=
  [ (csi [0x41], key .up), (ss3 0x41, key .up), (csi [0x42], key .down), (ss3 0x42, key .down),
    (csi [0x43], key .right), (ss3 0x43, key .right), (csi [0x44], key .left), (ss3 0x44, key .left),
    (csi [0x48], key .home), (ss3 0x48, key .home), (csi [0x31, 0x7e], key .home), (csi [0x37, 0x7e], key .home),
    (csi [0x46], key .end_), (ss3 0x46, key .end_), (csi [0x34, 0x7e], key .end_), (csi [0x38, 0x7e], key .end_),
    (csi [0x33, 0x7e], key .delete),
    (csi [0x5a], key .backTab),
    (ss3 0x4d, key .enter),
    -- Alt-arrows: xterm `1;3`, `1;9`, and ESC-prefixed arrows
    (csi [0x31, 0x3b, 0x33, 0x43], ⟨.right, 4⟩), (csi [0x31, 0x3b, 0x33, 0x44], ⟨.left, 4⟩),
    (csi [0x31, 0x3b, 0x39, 0x43], ⟨.right, 4⟩), (csi [0x31, 0x3b, 0x39, 0x44], ⟨.left, 4⟩),
    (0x1b :: csi [0x43], ⟨.right, 4⟩), (0x1b :: csi [0x44], ⟨.left, 4⟩),
    (0x1b :: ss3 0x43, ⟨.right, 4⟩), (0x1b :: ss3 0x44, ⟨.left, 4⟩),
    -- Ctrl-arrows: xterm `1;5`, linux/rxvt `\E[5C`, `\EOc`
    (csi [0x31, 0x3b, 0x35, 0x43], ⟨.right, 8⟩), (csi [0x31, 0x3b, 0x35, 0x44], ⟨.left, 8⟩),
    (csi [0x35, 0x43], ⟨.right, 8⟩), (csi [0x35, 0x44], ⟨.left, 8⟩),
    (ss3 0x63, ⟨.right, 8⟩), (ss3 0x64, ⟨.left, 8⟩),
    -- Meta-Backspace
    ([0x1b, 0x7f], ⟨.backspace, 4⟩), ([0x1b, 0x08], ⟨.backspace, 4⟩) ]

/-- one UTF-8 encoded scalar value (standard decoding: shortest form, no surrogates) -/
def utf8One (bs : List UInt8) : Option Char :=
  let cont (b : UInt8) : Option Nat := if 0x80 ≤ b.toNat && b.toNat ≤ 0xBF then some (b.toNat - 0x80) else none
  match bs with
  | [a] => if a.toNat < 0x80 then some (Char.ofNat a.toNat) else none
  | [a, b] => do
    let y ← cont b
    if 0xC2 ≤ a.toNat && a.toNat ≤ 0xDF then some (Char.ofNat ((a.toNat - 0xC0) * 64 + y)) else none
  | [a, b, c] => do
    let y ← cont b
    let z ← cont c
    if 0xE0 ≤ a.toNat && a.toNat ≤ 0xEF then
      let n := (a.toNat - 0xE0) * 4096 + y * 64 + z
      if n < 0x800 || (0xD800 ≤ n && n ≤ 0xDFFF) then none else some (Char.ofNat n)
    else none
  | [a, b, c, d] => do
    let y ← cont b
    let z ← cont c
    let w ← cont d
    if 0xF0 ≤ a.toNat && a.toNat ≤ 0xF4 then
      let n := (a.toNat - 0xF0) * 262144 + y * 4096 + z * 64 + w
      if n < 0x10000 || n > 0x10FFFF then none else some (Char.ofNat n)
    else none
  | _ => none

/-- ASCII control bytes: `C-@ … C-_`, with the named keys Tab, Enter, Backspace -/
def controlKey (n : Nat) : Option KeyEvent :=
  if n == 0x09 then some (key .tab)
  else if n == 0x0d then some (key .enter)
  else if n == 0x08 || n == 0x7f then some (key .backspace)
  else if n == 0x1b then none       -- ESC alone starts a sequence
  else if n < 0x20 then some (ctrl (Char.ofNat (n + 0x40)))
  else none

/-- the key press a byte string written in one go stands for, by the documented encodings:
    an escape sequence of the table, a control byte, `ESC` + a printable character (Meta), `ESC` + a
    control byte (Meta-Control), or one UTF-8 encoded character -/
def keyOfBytes (bs : List UInt8) : Option KeyEvent :=
  match encodings.find? (fun e => e.1 == bs) with
  | some e => some e.2
  | none =>
    match bs with
    | [b] =>
      (match controlKey b.toNat with
       | some k => some k
       | none => if 0x20 ≤ b.toNat && b.toNat < 0x7f then some (plain (Char.ofNat b.toNat)) else none)
    | [0x1b, b] =>
      if 0x20 ≤ b.toNat && b.toNat < 0x7f && b != 0x5b && b != 0x4f then some (altk (Char.ofNat b.toNat))
      else if b == 0x09 || b == 0x0d || b == 0x1b then none
      else (controlKey b.toNat).map (fun k => ⟨k.code, k.mods + 4⟩)
    | _ =>
      match utf8One bs with
      | some c => if isControl c then none else some (plain c)
      | none => none

/-! ### numeric arguments -/

/-- value of a typed digit string: decimal, digits after the fourth significant one are ignored
    ("shouldn't ever need more than 4 digits") -/
def argValue (ds : List Nat) : Nat := ds.foldl (fun v d => if v < 1000 then 10 * v + d else v) 0

/-- count and direction of an emacs argument `M-[-]d₁…d_k`: `M--` alone is −1; a value of 0 is not
    judged (`none`) -/
def emacsArg (negative : Bool) (ds : List Nat) : Option (Nat × Bool) :=
  if ds.isEmpty then (if negative then some (1, false) else none)
  else
    let v := argValue ds
    if v == 0 then none else some (v, !negative)

/-! ### resolved actions: what is applied to (text, cursor) -/

inductive Act
  | insert (n : Nat) (c : Char)
  | move (m : Movement)
  | kill (m : Movement)
  | change (m : Movement)              -- kill + insert mode
  | yankOnly (m : Movement)
  | editWord (a : WordAction)
  | transposeChars
  | replaceChar (n : Nat) (c : Char)
  | toInsert (pre : Option Movement)
  | toCommand
  | accept | eof | interrupt
  | nothing                            -- documented to leave text and cursor alone
  | unjudged
deriving DecidableEq, Repr

/-- GNU readline convention: a negative argument makes a command act in the opposite direction
    (`bol`/`eol` swap only for the kill commands C-k / C-u). -/
def DocMove.toMovement (m : DocMove) (n : Nat) (positive : Bool) (forKill : Bool) : Option Movement :=
  match m with
  | .bol => some (if positive || !forKill then .beginningOfLine else .endOfLine)
  | .eol => some (if positive || !forKill then .endOfLine else .beginningOfLine)
  | .charLeft => some (if positive then .backwardChar n else .forwardChar n)
  | .charRight => some (if positive then .forwardChar n else .backwardChar n)
  | .wordLeft w =>
    if positive then some (.backwardWord n w)
    else if w == .vi then none else some (.forwardWord n .afterEnd w)
  | .wordRight a w =>
    if positive then some (.forwardWord n a w)
    else if a == .afterEnd then some (.backwardWord n w) else none
  | .firstPrint => some .viFirstPrint
  | .wholeLine => some .wholeLine
  | .lineUp => some (.lineUp n)
  | .lineDown => some (.lineDown n)

/-- the span an operator covers for a motion: `e`/`E` include the character they land on, and
    `cw` is `ce` (vi convention) -/
def operatorMovement (m : DocMove) (n : Nat) (isChange : Bool) : Option Movement :=
  match m with
  | .wordRight .beforeEnd w => some (.forwardWord n .afterEnd w)
  | .wordRight .start w => some (if isChange then .forwardWord n .afterEnd w else .forwardWord n .start w)
  | m => m.toMovement n true true

def Operator.act (o : Operator) (m : Movement) : Act :=
  match o with
  | .delete => .kill m
  | .change => .change m
  | .yank => .yankOnly m

/-- resolve an argument-free documented action with its count and direction; `lineEmpty` decides
    C-d; `vi` = a vi mode (counts are never negative there) -/
def DocAction.resolve (a : DocAction) (n : Nat) (positive : Bool) (lineEmpty : Bool) (vi : Bool) : Act :=
  match a with
  | .move m => match m.toMovement n positive false with | some mv => .move mv | none => .unjudged
  | .delete m => match m.toMovement n positive true with | some mv => .kill mv | none => .unjudged
  | .change m => match m.toMovement n true true with | some mv => .change mv | none => .unjudged
  | .insertMode none => .toInsert none
  | .insertMode (some m) => match m.toMovement n true false with | some mv => .toInsert (some mv) | none => .unjudged
  | .editWord w => if n == 1 && positive then .editWord w else .unjudged
  | .transposeChars => if n == 1 && positive then .transposeChars else .unjudged
  | .deleteOrEof =>
    if lineEmpty then .eof
    else if vi then .unjudged      -- README: delete; readline's vi-eof-maybe: accept — not judged
    else .kill (if positive then .forwardChar n else .backwardChar n)
  | .accept => .accept
  | .interrupt => .interrupt
  | .toCommand => .toCommand
  | _ => .unjudged

/-- the character search a vi `f F t T` + char denotes -/
def charSearchOf (k c : Char) : CharSearch :=
  if k == 'f' then .forward c else if k == 't' then .forwardBefore c
  else if k == 'F' then .backward c else .backwardAfter c

/-! ### the documented edit -/

/-- what must hold after the action: `none` components are not judged -/
structure Want where
  text : Option Text := none
  pos : Option Nat := none
  mode : Option Mode := none
deriving Repr

def firstPrintOf (S : Segmenter) (U : UData) (buf : Text) (pos : Nat) : Option Nat :=
  let ls := lineStartOf buf pos
  match splitAt? buf ls with
  | none => none
  | some (_, rest) =>
    let line := rest.takeWhile (· != '\n')
    let gs := S.seg line
    let k := (gs.takeWhile (fun g => g.any U.ws)).length
    -- a line without a non-blank character has no "first non-blank character": not judged
    if k == gs.length then none else some (ls + offOf gs k)

/-- where a documented motion puts the cursor: `some (some t)` = at `t`, `some none` = the motion has
    nowhere to go (cursor stays), `none` = not judged -/
def moveTarget (S : Segmenter) (U : UData) (buf : Text) (pos : Nat) (m : Movement) : Option (Option Nat) :=
  match m with
  | .beginningOfLine => some (some (lineStartOf buf pos))
  | .endOfLine => some (some (lineEndOf buf pos))
  | .backwardChar n => if n == 0 then none else some (charTargetBwd S buf pos n)
  | .forwardChar n => if n == 0 then none else some (charTargetFwd S buf pos n)
  | .backwardWord n w => if n == 0 then none else some (wordTargetBwd S U buf pos w n)
  | .forwardWord n a w =>
    if n == 0 || (a == .beforeEnd && w == .emacs) then none else some (wordTargetFwd S U buf pos a w n true)
  | .viFirstPrint => (firstPrintOf S U buf pos).map some
  | .viCharSearch n cs =>
    if n == 0 then none
    else
      -- no occurrence at all: the cursor stays; fewer than `n` occurrences: not judged (C04 reading)
      let one : Bool := match cs with
        | .forward c | .forwardBefore c => (occFwd S buf pos c 1).isSome
        | .backward c | .backwardAfter c => (occBwd buf pos c 1).isSome
      if !one then some none
      else match charSearchTarget S buf pos cs n with
        | some t => some (some t)
        | none => none
  | .beginningOfBuffer => some (some 0)
  | .endOfBuffer => some (some (blen buf))
  | _ => none

def mapWord (S : Segmenter) (U : UData) (a : WordAction) (word : Text) : Text :=
  match a with
  | .uppercase => word.flatMap U.upper
  | .lowercase => word.flatMap U.lower
  | .capitalize =>
    match (S.seg word).head? with
    | some g => g.flatMap U.upper ++ (word.drop g.length).flatMap U.lower
    | none => word

/-- M-u / M-l / M-c: the next word (maximal run of alphanumeric clusters at or after the cursor) is
    case-mapped, the cursor ends after it; without a word nothing changes -/
def editWordWant (S : Segmenter) (U : UData) (buf : Text) (pos : Nat) (a : WordAction) : Option (Text × Option Nat) :=
  match splitAt? buf pos with
  | none => none
  | some (pre, suf) =>
    let gs := S.seg suf
    let skip := gs.takeWhile (fun g => !g.all U.alnum)
    let rest := (gs.drop skip.length).flatten
    let word := ((S.seg rest).takeWhile (fun g => g.all U.alnum)).flatten
    if word.isEmpty then some (buf, none)
    else
      let post := rest.drop word.length
      let mapped := mapWord S U a word
      some (pre ++ skip.flatten ++ mapped ++ post, some (blen (pre ++ skip.flatten ++ mapped)))

/-- C-t: the cluster before the cursor and the cluster at the cursor (the last two clusters when the
    cursor is at the end) are exchanged, the cursor ends after the pair -/
def transposeWant (S : Segmenter) (buf : Text) (pos : Nat) : Option (Text × Option Nat) :=
  if pos == 0 || (S.seg buf).length < 2 then some (buf, some pos)
  else
    let p := if pos == blen buf then (charTargetBwd S buf pos 1).getD pos else pos
    match splitAt? buf p with
    | none => none
    | some (pre, suf) =>
      match (S.seg pre).getLast?, (S.seg suf).head? with
      | some g1, some g2 =>
        let pre' := pre.take (pre.length - g1.length)
        some (pre' ++ g2 ++ g1 ++ suf.drop g2.length, some (blen (pre' ++ g2 ++ g1)))
      | _, _ => none

def wordTag : Word → String | .big => "big" | .emacs => "emacs" | .vi => "vi"
def atTag : At → String | .start => "start" | .beforeEnd => "beforeEnd" | .afterEnd => "afterEnd"

def mvTag : Movement → String
  | .wholeLine => "wholeLine" | .beginningOfLine => "bol" | .endOfLine => "eol"
  | .backwardWord n w => s!"bwdword-{wordTag w}-{n}"
  | .forwardWord n a w => s!"fwdword-{atTag a}-{wordTag w}-{n}"
  | .viCharSearch n _ => s!"search-{n}"
  | .viFirstPrint => "firstPrint"
  | .backwardChar n => s!"bwdchar-{n}" | .forwardChar n => s!"fwdchar-{n}"
  | .lineUp n => s!"lineUp-{n}" | .lineDown n => s!"lineDown-{n}"
  | .wholeBuffer => "wholeBuffer" | .beginningOfBuffer => "bob" | .endOfBuffer => "eob"

/-- short name of a resolved action, for failure messages (and known-finding signatures) -/
def Act.tag : Act → String
  | .insert n _ => s!"insert-{n}"
  | .move m => "move:" ++ mvTag m
  | .kill m => "kill:" ++ mvTag m
  | .change m => "change:" ++ mvTag m
  | .yankOnly m => "yank:" ++ mvTag m
  | .editWord _ => "edit-word"
  | .transposeChars => "transpose-chars"
  | .replaceChar n _ => s!"replace-char-{n}"
  | .toInsert (some m) => "insert-mode:" ++ mvTag m
  | .toInsert none => "insert-mode"
  | .toCommand => "command-mode"
  | .accept => "accept" | .eof => "eof" | .interrupt => "interrupt"
  | .nothing => "nothing" | .unjudged => "unjudged"

def replicateText (n : Nat) (c : Char) : Text := List.replicate n c

/-- the documented effect of a resolved action on (text, cursor) in mode `mode` -/
def Act.apply (S : Segmenter) (U : UData) (mode : Mode) (buf : Text) (pos : Nat) : Act → Want
  | .insert n c =>
    if n == 0 then {}
    else match insertAt buf pos (replicateText n c) with
      | some t => { text := some t, pos := some (pos + n * c.utf8Size), mode := some mode }
      | none => {}
  | .move m =>
    -- no motion changes the text, whatever its target
    match moveTarget S U buf pos m with
    | some (some t) => { text := some buf, pos := some t, mode := some mode }
    | some none => { text := some buf, pos := some pos, mode := some mode }
    | none => { text := some buf, mode := some mode }
  | .kill m =>
    match spanOf S U buf pos m false with
    | .span a b => (match removeSpan buf a b with
                    | some (t, _) => { text := some t, pos := some a, mode := some mode }
                    | none => {})
    | .nothing => { text := some buf, pos := some pos, mode := some mode }
    | .unjudged => { mode := some mode }
  | .change m =>
    match spanOf S U buf pos m false with
    | .span a b => (match removeSpan buf a b with
                    | some (t, _) => { text := some t, pos := some a, mode := some .viInsert }
                    | none => {})
    | .nothing => { text := some buf, pos := some pos, mode := some .viInsert }
    | .unjudged => { mode := some .viInsert }
  | .yankOnly _ => { text := some buf, mode := some mode }
  | .editWord a =>
    match editWordWant S U buf pos a with
    | some (t, p) => { text := some t, pos := p, mode := some mode }
    | none => {}
  | .transposeChars =>
    match transposeWant S buf pos with
    | some (t, p) => { text := some t, pos := p, mode := some mode }
    | none => {}
  | .replaceChar n c =>
    if n == 0 then {}
    else match splitAt? buf pos with
      | none => {}
      | some (pre, suf) =>
        let gs := S.seg suf
        if gs.length < n then { mode := some mode }      -- vi refuses; not judged
        else { text := some (pre ++ replicateText n c ++ (gs.drop n).flatten),
               pos := some (pos + (n - 1) * c.utf8Size), mode := some mode }
  | .toInsert pre =>
    match pre with
    | none => { text := some buf, pos := some pos, mode := some .viInsert }
    | some m =>
      match moveTarget S U buf pos m with
      | some (some t) => { text := some buf, pos := some t, mode := some .viInsert }
      | some none => { text := some buf, pos := some pos, mode := some .viInsert }
      | none => { text := some buf, mode := some .viInsert }
  | .toCommand => { text := some buf, pos := charTargetBwd S buf pos 1, mode := some .viCommand }
  | .nothing => { text := some buf, pos := some pos, mode := some mode }
  | .accept | .eof | .interrupt | .unjudged => {}

end Rl.Spec.Doc
