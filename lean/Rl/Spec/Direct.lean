/-
  Declarative specification of reading from a pipe or file (property C18, and the non-terminal
  clause of C13), written from the property text, not from the code.

  * the input is the sequence of its lines: the pieces between LF characters (`splitLF`; the meaning
    of `lines` is pinned by `C18_lines_join` / `C18_lines_no_lf` / `C18_lines_shape`: the contents
    followed by their terminators give the input back, no content contains LF, only the last line
    can lack a terminator); a piece that was followed by LF and
    ends in CR had the terminator CRLF; the piece after the last LF is the final unterminated line
    and counts only if it is not empty;
  * "each backspace character having removed the grapheme before it": evaluate the clusters left to
    right on a stack, a cluster that is exactly U+0008 pops, any other cluster is pushed (`stackEval`);
  * without a validator the k-th read returns the k-th line so treated, then end of file;
  * with a validator (C13 wording: Incomplete → a line break is kept and reading continues, Invalid →
    the text is left unchanged and reading continues, an error is returned as an error) the text
    handed to the validator is the text kept so far followed by the next line, backspaces applied.
-/
import Rl.Text
import Rl.Seg
import Rl.Direct
namespace Rl.Spec.Direct
open Rl.Direct (bs Verdict DResult)

/-- stack evaluation of a cluster sequence; the stack has its top first -/
def stackGo : List Text → List Text → List Text
  | st, [] => st
  | st, g :: gs => if g = [bs] then stackGo st.tail gs else stackGo (g :: st) gs

/-- clusters that survive, first to last -/
def stackEval (gs : List Text) : List Text := (stackGo [] gs).reverse

/-- the text after every backspace removed the cluster before it -/
def removeBackspaces (S : Segmenter) (t : Text) : Text := (stackEval (S.seg t)).flatten

/-- pieces between LF characters (always at least one piece) -/
def splitLF : Text → List Text
  | [] => [[]]
  | c :: t =>
    if c = '\n' then [] :: splitLF t
    else
      match splitLF t with
      | p :: ps => (c :: p) :: ps
      | [] => [[c]]

inductive Term | none | lf | crlf
deriving DecidableEq, Repr

def Term.text : Term → Text
  | .none => []
  | .lf => ['\n']
  | .crlf => ['\r', '\n']

/-- a piece that was followed by LF: content and terminator kind -/
def terminated (p : Text) : Text × Term :=
  if p.getLast? = some '\r' then (p.dropLast, .crlf) else (p, .lf)

/-- the lines of a stream: (content, terminator) -/
def lines (stream : Text) : List (Text × Term) :=
  let ps := splitLF stream
  let last := ps.getLast?.getD []
  ps.dropLast.map terminated ++ (if last = [] then [] else [(last, .none)])

/-- one read with validator `V`, `acc` being the text kept so far: result and the lines left -/
def readV (S : Segmenter) (V : Text → Verdict) : Text → List (Text × Term) → DResult × List (Text × Term)
  | _, [] => (.eof, [])
  | acc, (c, t) :: ls =>
    let x := removeBackspaces S (acc ++ c)
    match V x with
    | .valid => (.line x, ls)
    | .error => (.err, ls)
    | .incomplete => readV S V (x ++ t.text) ls
    | .invalidMsg => readV S V x ls
    | .invalidNone => readV S V x ls

/-- the sequence of results an application sees that reads until end of file -/
def results (S : Segmenter) : Option (Text → Verdict) → Nat → List (Text × Term) → List DResult
  | none, _, ls => ls.map (fun l => .line (removeBackspaces S l.1)) ++ [.eof]
  | some _, 0, _ => []
  | some V, fuel + 1, ls =>
    match readV S V [] ls with
    | (.eof, _) => [.eof]
    | (r, rest) => r :: results S (some V) fuel rest

def expected (S : Segmenter) (V : Option (Text → Verdict)) (stream : Text) : List DResult :=
  let ls := lines stream
  results S V (ls.length + 1) ls

/-- bracket validator, from its documentation ("matching bracket validator"): scanning left to right,
    a closing bracket must match the innermost open one (otherwise Invalid); at the end the text is
    Valid if nothing is open, else Incomplete -/
def brackets : List Char → Text → Verdict
  | opened, [] => if opened.isEmpty then .valid else .incomplete
  | opened, c :: t =>
    if c ∈ ['(', '[', '{'] then brackets (c :: opened) t
    else if c ∈ [')', ']', '}'] then
      match opened with
      | o :: rest => if (o, c) ∈ [('(', ')'), ('[', ']'), ('{', '}')] then brackets rest t else .invalidMsg
      | [] => .invalidMsg
    else brackets opened t

end Rl.Spec.Direct
