/-
  Declarative specification of the SQLite-backed history (property C20), written from the
  property text, not from the code.  It is an oracle: `judge` looks at what the implementation
  answered to an operation and says whether the property allows it.

  * A line is refused iff it is empty, the size limit is zero, or it starts with a blank while
    ignore-space is on (the default history's rules without the consecutive-duplicate rule).
  * The store is the sequence of accepted lines, oldest first, each tagged with the session
    (one per open) that stored it; with ignore-duplicates on, a line re-entered in the same
    session counts as its newest occurrence only.  `set_max_len n` keeps the newest `n`.
    Closing, reopening and abrupt termination change nothing.
  * Walking from the newest entry to the oldest and back shows every stored line exactly once
    each way, in order.
  * A search answers nothing, or a stored line that really contains / starts with the text
    ignoring (ASCII) case at an offset inside that line; never an error; the hinter never panics.
-/
import Rl.Text
import Rl.History
import Rl.Sqlite
namespace Rl.Spec.Sq
open Rl Rl.Sq

structure SState where
  entries : List (Nat × Text) := []
  epoch : Nat := 0
  max : Nat
  ignoreSpace : Bool
  ignoreDups : Bool
deriving Repr

def refused (ws : Char → Bool) (s : SState) (l : Text) : Bool :=
  l.isEmpty || s.max == 0 || (s.ignoreSpace && (l.head?.map ws).getD false)

/-- only the newest occurrence of every (session, line) -/
def collapse : List (Nat × Text) → List (Nat × Text)
  | [] => []
  | x :: xs => if xs.contains x then collapse xs else x :: collapse xs

def takeLast (n : Nat) (l : List α) : List α := l.drop (l.length - n)

def addLine (ws : Char → Bool) (s : SState) (l : Text) : SState × Bool :=
  if refused ws s l then (s, false)
  else
    let old := if s.ignoreDups then s.entries.filter (· != (s.epoch, l)) else s.entries
    ({ s with entries := old ++ [(s.epoch, l)] }, true)

def addLines (ws : Char → Bool) (s : SState) : List Text → SState × List Bool
  | [] => (s, [])
  | l :: ls =>
    let (s', b) := addLine ws s l
    let (s'', bs) := addLines ws s' ls
    (s'', b :: bs)

def reopen (s : SState) (c : Cfg) : SState :=
  { entries := if c.ignoreDups then collapse s.entries else s.entries,
    epoch := s.epoch + 1, max := c.maxLen, ignoreSpace := c.ignoreSpace, ignoreDups := c.ignoreDups }

/-- fold ASCII case -/
def fold (t : Text) : Text := t.map Char.toLower

/-- `t` occurs in `e` at byte offset `pos`, ignoring case; `pos` is inside `e`, on a boundary -/
def containsAt (t e : Text) (pos : Nat) : Bool :=
  match splitAtByte e pos with
  | some (_, b) => (fold t).isPrefixOf (fold b)
  | none => false

/-- `e` starts with `t` ignoring case, and `pos` is the offset just after it -/
def startsAt (t e : Text) (pos : Nat) : Bool :=
  match splitAtByte e pos with
  | some (a, _) => fold a == fold t
  | none => false

def strictlyDecreasing : List Nat → Bool
  | a :: b :: l => b < a && strictlyDecreasing (b :: l)
  | _ => true

def lines (s : SState) : List Text := s.entries.map (·.2)

/-- verdict on the implementation's answer to one operation: `none` = allowed -/
def judge (ws : Char → Bool) (s : SState) : QOp → QObs → SState × Option String
  | _, .err c => (s, some ("error-" ++ c))
  | .add l, o =>
    let (s', b) := addLine ws s l
    (s', if o = .bool b then none else some "add-verdict")
  | .setMax n, o => ({ s with max := n, entries := takeLast n s.entries }, if o = .unit then none else some "set-max-len")
  | .dups b, o =>
    ({ s with ignoreDups := b, entries := if b && !s.ignoreDups then collapse s.entries else s.entries },
      if o = .unit then none else some "ignore-dups")
  | .space b, o => ({ s with ignoreSpace := b }, if o = .unit then none else some "ignore-space")
  | .reopen c, o => (reopen s c, if o = .unit then none else some "reopen")
  | .crash c ls, o =>
    let (s', bs) := addLines ws (reopen s c) ls
    (reopen s' c, if o = .bools bs then none else some "crash-adds")
  | .len, o => (s, match o with | .nat _ => none | _ => some "len")
  | .get _ _, o =>
    (s, match o with
      | .got none => none
      | .got (some (_, e)) => if (lines s).contains e then none else some "get-unknown-entry"
      | _ => some "get")
  | .walk, o =>
    (s, match o with
      | .walk d u =>
        if d.map (·.2) != (lines s).reverse then some "walk-down-lines"
        else if !strictlyDecreasing (d.map (·.1)) then some "walk-down-order"
        else if u != d.reverse.drop 1 then some "walk-up"
        else none
      | _ => some "walk")
  | .search t _ _, o =>
    (s, match o with
      | .found none => none
      | .found (some (_, e, pos)) =>
        if !(lines s).contains e then some "search-unknown-entry"
        else if t.isEmpty then some "search-empty-text"
        else if containsAt t e pos then none else some "search-not-contained"
      | _ => some "search")
  | .startsWith t _ _, o =>
    (s, match o with
      | .found none => none
      | .found (some (_, e, pos)) =>
        if !(lines s).contains e then some "starts-with-unknown-entry"
        else if t.isEmpty then some "starts-with-empty-text"
        else if startsAt t e pos then none else some "starts-with-not-prefix"
      | _ => some "starts-with")
  | .hint t, o =>
    (s, match o with
      | .hint none => some "hinter-panic"
      | .hint (some none) => none
      | .hint (some (some r)) =>
        if (lines s).any (fun e => match splitAtByte e (blen t) with
            | some (a, b) => fold a == fold t && b == r
            | none => false) then none else some "hint-not-a-completion"
      | _ => some "hint")

/-- first failure of a run: `none` = everything allowed -/
def judgeAll (ws : Char → Bool) (s : SState) : Nat → List (QOp × QObs) → Option String
  | _, [] => none
  | k, (op, o) :: rest =>
    match judge ws s op o with
    | (_, some why) => some (toString k ++ ":" ++ why)
    | (s', none) => judgeAll ws s' (k + 1) rest

end Rl.Spec.Sq
