/-
  C02, declarative side: the ideal screen.

  `Shows` (DESIGN.md "### C02", 7.1): a terminal shows `(prompt, line, pos, hint)` when
    * its visible cells equal those of a blank terminal of the same width that has been fed
      `prompt ++ line ++ hint` from the origin (row 0, column 0) — so nothing is left over from earlier
      states, neither inside the text rows nor below them;
    * its cursor is on the insertion-point cell of the logical cursor: where the terminal cursor
      stands after `prompt ++ line[..pos]` has been printed from the origin, a pending wrap counted as
      column 0 of the next row;
    * no wrap is pending and no escape sequence is half-received.
  The definition is in terms of the terminal only; `calculate_position` does not occur in it.

  Reading decision ("and hint, if any"): the hint the editor holds (`EventContext::hint_text`) may be on
  the screen or not — `State::move_cursor` repaints without the hint when a bracket gets or loses its
  highlight, but keeps `self.hint` — so the executable oracle accepts the rendering with that hint and
  the rendering without any hint; anything else (a stale hint, a partial hint, leftovers) is a failure.
-/
import Rl.Term
namespace Rl.Spec
open Rl

/-- the from-scratch rendering -/
def idealTerm (cw : Char → Nat) (cols : Nat) (prompt line hint : Text) : Term :=
  (Term.blank cols).feed cw (prompt ++ line ++ hint)

/-- insertion point after `text` printed from the origin (pending wrap = column 0 of the next row) -/
def insertionPoint (cw : Char → Nat) (cols : Nat) (text : Text) : Nat × Nat :=
  let t := (Term.blank cols).feed cw text
  if t.pending then (t.cr + 1, 0) else (t.cr, t.cc)

/-- the property as a proposition -/
def Shows (cw : Char → Nat) (t : Term) (prompt before after hint : Text) : Prop :=
  t.grid.canon = (idealTerm cw t.cols prompt (before ++ after) hint).grid.canon ∧
  (t.cr, t.cc) = insertionPoint cw t.cols (prompt ++ before) ∧
  t.pending = false ∧ t.ps = .ground

/-- executable check; `none` = the terminal shows the state, `some why` otherwise -/
def showsCheck (cw : Char → Nat) (t : Term) (prompt before after hint : Text) : Option String :=
  if t.ps != .ground then some "escape-sequence-incomplete"
  else if t.bad then some "unsupported-control-function"
  else if t.grid.canon != (idealTerm cw t.cols prompt (before ++ after) hint).grid.canon &&
          t.grid.canon != (idealTerm cw t.cols prompt (before ++ after) []).grid.canon then some "cells"
  else if t.pending then some "wrap-pending"
  else
    let ip := insertionPoint cw t.cols (prompt ++ before)
    if (t.cr, t.cc) != ip then some s!"cursor:{t.cr},{t.cc}:want:{ip.1},{ip.2}"
    else none

/-- on return: the text is displayed (no hint), and the cursor stands at column 0 of a row below
    every row of the text, so that application output starts on a fresh row -/
def finalCheck (cw : Char → Nat) (t : Term) (prompt line hint : Text) : Option String :=
  let ideal0 := idealTerm cw t.cols prompt line hint
  let ideal := if t.grid.canon == ideal0.grid.canon then ideal0 else idealTerm cw t.cols prompt line []
  if t.ps != .ground then some "escape-sequence-incomplete"
  else if t.bad then some "unsupported-control-function"
  else if t.grid.canon != ideal.grid.canon then some "final-cells"
  else if t.pending || t.cc != 0 || t.cr ≤ ideal.cr then some s!"final-cursor:{t.cr},{t.cc}:text-ends-on-row:{ideal.cr}"
  else none

end Rl.Spec
