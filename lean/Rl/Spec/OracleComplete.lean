/-
  Oracle for C14 (completion): the property as an abstract machine over the implementation's
  callbacks, driven by the request's scripted completer (a function of the text).
-/
import Rl.Spec.OracleNav
namespace Rl.Spec
open Rl Rl.Wire

structure CompSt where
  start : Nat
  cands : List Text
  i : Nat
  backup : Text × Nat
  tail : Text              -- text after the cursor when completion started

def spliceCand (st : CompSt) (c : Text) : Text × Nat :=
  let pre := takeB st.backup.1 st.start
  (pre ++ c ++ st.tail, blen pre + blen c)

/-- what the line must show for index `i` (index n = the original text) -/
def shownFor (st : CompSt) : Text × Nat :=
  match st.cands[st.i]? with
  | some c => spliceCand st c
  | none => st.backup

def commonPrefix : Text → Text → Text
  | x :: xs, y :: ys => if x == y then x :: commonPrefix xs ys else []
  | _, _ => []

def lcpOf : List Text → Text
  | [] => []
  | c :: cs => cs.foldl commonPrefix c

def isTab (k : KeyEvent) : Bool := k == ⟨.tab, 0⟩ || k == ⟨.char 'I', 8⟩

def oracleC14 (completer : Text → Nat → Nat × List Text) (circular : Bool) (o : ImplObs) : OVerdict :=
  let checkShown (k : Nat) (exp : Text × Nat) (nl : Text) (np : Option Nat) (what : String) : OVerdict :=
    if nl != exp.1 then some s!"C14:{what}:wrong-text(cb {k})"
    else match np with
      | some q => if q == exp.2 then none else some s!"C14:{what}:wrong-cursor(cb {k})"
      | none => none
  let rec go (k : Nat) (cur : Option CompSt) (pendingUndo : Option Text) :
      List (Obs × Text × Option Nat) → OVerdict
    | [] => none
    | (cb, nl, np) :: rest =>
      match cb.keys with
      | [key] =>
        -- "one Undo after an accepted completion restores the pre-completion text"
        let undoCheck : OVerdict :=
          match pendingUndo with
          | some pre =>
            if cb.mode == "e" && key == ⟨.char '_', 8⟩ && cb.n == 1 then
              (if nl == pre then none else some s!"C14:undo-after-completion-did-not-restore-the-text(cb {k})")
            else none
          | none => none
        match undoCheck with
        | some w => some w
        | none =>
        match cur with
        | none =>
          let tabHere := (cb.mode == "e" && isTab key && cb.positive) || ((cb.mode == "vi" || cb.mode == "vr") && isTab key)
          if tabHere then
            let (start, cands) := completer cb.line cb.pos
            if cands.isEmpty then
              (if nl == cb.line then go (k + 1) none none rest else some s!"C14:no-candidate-but-text-changed(cb {k})")
            else if circular then
              let st : CompSt := { start, cands, i := 0, backup := (cb.line, cb.pos), tail := dropB cb.line cb.pos }
              match checkShown k (shownFor st) nl np "first-candidate" with
              | some w => some w
              | none => go (k + 1) (some st) none rest
            else
              -- list mode: the span becomes the longest common prefix when that extends it
              let lcp := lcpOf cands
              let st : CompSt := { start, cands, i := 0, backup := (cb.line, cb.pos), tail := dropB cb.line cb.pos }
              let extend := !lcp.isEmpty && (blen lcp > cb.pos - start || cands.length == 1)
              let exp := if extend then spliceCand st lcp else (cb.line, cb.pos)
              match checkShown k exp nl np "list-lcp" with
              | some w => some w
              | none => none   -- what follows (second Tab, listing) is not constrained here
          else go (k + 1) none none rest
        | some st =>
          let n := st.cands.length
          if isTab key && (cb.mode != "e" || cb.positive) then
            let st := { st with i := (st.i + 1) % (n + 1) }
            match checkShown k (shownFor st) nl np "next-candidate" with
            | some w => some w
            | none => go (k + 1) (some st) none rest
          else if key == ⟨.backTab, 0⟩ || (isTab key && cb.mode == "e" && !cb.positive) then
            let st := { st with i := if st.i == 0 then n else st.i - 1 }
            match checkShown k (shownFor st) nl np "previous-candidate" with
            | some w => some w
            | none => go (k + 1) (some st) none rest
          else if isAbortKeyC cb.mode key then
            match checkShown k st.backup nl np "abort" with
            | some w => some w
            | none => go (k + 1) none none rest
          else
            -- any other key keeps the shown candidate and is executed: the next key may be the Undo probe
            let accepted := st.i < n
            if cb.mode == "e" && key == ⟨.char '_', 8⟩ && cb.n == 1 && accepted then
              (if nl == st.backup.1 then go (k + 1) none none rest
               else some s!"C14:undo-after-completion-did-not-restore-the-text(cb {k})")
            else go (k + 1) none none rest
      | _ => go (k + 1) cur none rest
  go 0 none none o.steps
where
  isAbortKeyC (mode : String) (k : KeyEvent) : Bool :=
    mode == "e" && (k == ⟨.char 'G', 8⟩ || k == ⟨.char 'G', 12⟩ || k == ⟨.esc, 0⟩)

end Rl.Spec
