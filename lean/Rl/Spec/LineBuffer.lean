/-
  Declarative side of C03, written from the property text: what a well-formed state is, how a list
  of change notifications is replayed on a text, which operations are motions/copies, which honour
  the fixed capacity, and which argument values the explicit-index primitives accept by contract.
  Everything is executable, so the same definitions serve as the oracle on the implementation's
  observations and as the statements of the theorems in `Rl/Props/C03.lean`.
-/
import Rl.LineBuffer
namespace Rl.Spec
open Rl

/-- cursor inside the text on a character boundary (executable form of `IsBoundary`) -/
def boundaryB (t : Text) (p : Nat) : Bool := (splitAtByte t p).isSome

/-- remove `s` at byte offset `i` of `t`, if it is there -/
def removeAt (t : Text) (i : Nat) (s : Text) : Option Text :=
  match splitAtByte t i with
  | some (x, rest) => if s.isPrefixOf rest then some (x ++ rest.drop s.length) else none
  | none => none

def insertAt (t : Text) (i : Nat) (s : Text) : Option Text :=
  match splitAtByte t i with
  | some (x, z) => some (x ++ s ++ z)
  | none => none

/-- apply one notification to a text -/
def replayOne (t : Text) : Notif → Option Text
  | .insChar i c => insertAt t i [c]
  | .insStr i s => insertAt t i s
  | .del i s _ => removeAt t i s
  | .repl i old new =>
    match removeAt t i old with
    | some t' => insertAt t' i new
    | none => none
  | .startKill => some t
  | .stopKill => some t

/-- replay a notification sequence on the old text -/
def replay : List Notif → Text → Option Text
  | [], t => some t
  | n :: ns, t =>
    match replayOne t n with
    | some t' => replay ns t'
    | none => none

def Notif.isMarker : Notif → Bool
  | .startKill | .stopKill => true
  | _ => false

/-- operations that are motions, queries or copies: they must not change the text -/
def Op.isMotionOrCopy : Op → Bool
  | .moveBackward _ | .moveForward _ | .moveBufferStart | .moveBufferEnd | .moveHome | .moveEnd | .moveToFirstPrint
  | .isEndOfInput | .moveToPrevWord _ _ | .moveToNextWord _ _ _ | .moveToLineUp _ _
  | .moveToLineDown _ _ | .moveTo _ _ | .copy _ | .setPos _ | .nextPos _ => true
  | _ => false

/-- operations that honour a fixed capacity -/
def Op.honoursCapacity : Op → Bool
  | .insert _ _ | .yank _ _ | .update _ _ => true
  | _ => false

/-- operations whose answer tells the caller whether anything happened (`false` / `None` = nothing): every
    `bool` / `Option` answer except `insert_str`'s (which says "appended at the end") -/
def Op.answersChange : Op → Bool
  | .insertStr _ _ | .isEndOfInput | .nextPos _ => false
  | _ => true

/-- the answer "nothing happened" -/
def Ret.saysNothing : Ret → Bool
  | .bool false | .optBool none | .optText none => true
  | _ => false

/-- contract of the explicit-index primitives (what the code `assert!`s or slices by contract);
    every cursor-relative operation accepts every argument value -/
def Op.argsValid (lb : LB) : Op → Bool
  | .update b p => boundaryB b p
  | .yankPop k _ => k ≤ lb.pos && boundaryB lb.buf (lb.pos - k)
  | .replace a b _ => a ≤ b && boundaryB lb.buf a && boundaryB lb.buf b
  | .deleteRange a b => a ≤ b && boundaryB lb.buf a && boundaryB lb.buf b
  | .insertStr i _ => boundaryB lb.buf i
  | .setPos p => boundaryB lb.buf p
  | .indent _ k _ => decide (k ≤ 255)   -- `amount : u8` in the code (the wire rejects larger values too)
  | _ => true

/-- well-formed state: cursor on a boundary; with a fixed capacity the text fits -/
def wfB (lb : LB) : Bool := boundaryB lb.buf lb.pos

/-- outcome of one operation as observed: `none` = panic -/
abbrev Outcome := Option (Text × Nat × Ret × List Notif)

/-- the five conjuncts of C03 on one observed step (and a sixth, which C02 rests on and the API documents: an
    operation that answers "nothing happened" left text and cursor alone — it is what caught D44); `capKnown` = the capacity if it is known to be
    still the one the buffer was created with. Returns `none` when satisfied, else the reason. -/
def c03Step (old : LB) (capKnown : Option Nat) (op : Op) (o : Outcome) : Option String :=
  if !wfB old || !Op.argsValid old op then none
  else
    match o with
    | none => some "panic"
    | some (buf, pos, r, ns) =>
      if !boundaryB buf pos then some "cursor-off-boundary"
      else if replay ns old.buf != some buf then some "notifications-do-not-replay"
      else if Op.isMotionOrCopy op && (buf != old.buf || !ns.all Notif.isMarker) then some "motion-changed-text"
      else if Op.answersChange op && Ret.saysNothing r && (buf != old.buf || pos != old.pos) then
        some "said-nothing-but-changed"
      else
        match capKnown with
        | some c =>
          if Op.honoursCapacity op && !old.canGrow && blen buf > c then some "capacity-exceeded" else none
        | none => none

end Rl.Spec
