/-
  Declarative specification of bracket matching for `MatchingBracketHighlighter` ("highlight
  matching bracket when typed or cursor moved on"), written from the usual meaning of "the matching
  bracket": the partner of an opening bracket at byte `p` is the first later position at which the
  closing brackets of the same kind outnumber the opening ones counted from `p + 1`; symmetrically
  towards the start of the line for a closing bracket.  Counting, no scan state.
-/
import Rl.Text
import Rl.Highlight
namespace Rl.Spec.Highlight
open Rl.Highlight

/-- bytes with index in `[lo, hi)` -/
def seg (bs : Bytes) (lo hi : Nat) : Bytes := (bs.take hi).drop lo

def partner (bs : Bytes) (p : Nat) (bracket : UInt8) : Option Nat :=
  let m := matchingBracket bracket
  if isOpenB bracket then
    (List.range bs.length).find? (fun q => p < q && (seg bs (p + 1) (q + 1)).count m == (seg bs (p + 1) (q + 1)).count bracket + 1)
  else
    (List.range (min p bs.length)).reverse.find? (fun q => (seg bs q p).count m == (seg bs q p).count bracket + 1)

/-- expected answer of `highlight` when the highlighter remembers `(bracket, p)` and byte `p` of the
    line is that bracket (otherwise — a remembered position from another line — no oracle: `none`) -/
def highlight (st : HlState) (line : Text) : Option Obs :=
  if blen line ≤ 1 then some .borrowed
  else
    match st with
    | none => some .borrowed
    | some (bracket, p) =>
      let bs := bytesOf line
      if bs[p]? ≠ some bracket ∨ ¬ (isOpenB bracket || isCloseB bracket) then none
      else
        match partner bs p bracket with
        | none => some .borrowed
        | some q =>
          match splitAtByte line q with
          | some (a, _ :: b) => some (.owned (a ++ escOn ++ [Char.ofNat (matchingBracket bracket).toNat] ++ escOff ++ b))
          | _ => none

/-- the remembered bracket is taken from the model's `highlightChar` (the oracle is about the
    partner search); `none` = no oracle for this request -/
def run (st : HlState) : List Op → Option (List Obs)
  | [] => some []
  | .hchar l p k :: ops =>
    let (st', b) := highlightChar l p k
    (run st' ops).map (fun os => .bool b :: os)
  | .hl l :: ops =>
    match highlight st l with
    | none => none
    | some o => (run st ops).map (fun os => o :: os)

end Rl.Spec.Highlight
