/-
  C19, executable declarative spec: the property text evaluated on the trace the harness observed on
  the real terminal (independent of the protocol model in Rl/Printer.lean, of which only the event
  vocabulary is reused).

  Trace tokens (one run of the real code, in terminal-stream order):
    I:t:id     main thread hands message `id` to printing thread `t`
    R          main thread asks the editing thread to start a read
    K:<key> D  main thread starts / has finished writing a key (p<cp> plain, e Enter, s `M-1`, r `C-r`, x `C-g`)
    S:1 | S:0  every `print` call issued so far has returned | gave up waiting
    Q:b|r|f|t  the reader sleeps in select | sleeps in read(0) (sub-loop) | no read is running | gave up
    + | -      bracketed-paste-on / -off marker in the stream (raw mode entered / about to be left)
    P          first drawing of the prompt after `+`
    M:s:t:id:w message shown by the editor (preceded by the row-clearing sequence); w = 1 iff it is
               followed by a line break and a repaint of prompt + line (inside a sub-loop: of the
               sub-loop's own prompt)
    M:d:t:id:w message written directly; w = 1 iff its own line break (if any) follows
    X          a fragment of a message
    => L=<lines returned by the reads>
-/
import Rl.Wire
import Rl.Printer
namespace Rl.Spec.Printer
open Rl Rl.Wire Rl.Printer

structure Obs where
  trace : List (TEv × Bool)     -- event, well-formedness flag (messages only; `true` otherwise)
  results : List (List Nat)

def parseKey (s : String) : Option Key :=
  if s == "e" then some .enter
  else if s == "s" || s == "r" then some .sub   -- digit argument / incremental search (left with C-g)
  else if s == "x" then some .exit
  else if s.startsWith "p" then
    (s.drop 1).toString.toNat?.bind (fun c => if 97 ≤ c && c ≤ 122 then some (.plain c) else none)
  else none

def parseEv (tok : String) : Option (TEv × Bool) :=
  match splitOnChar tok ':' with
  | ["I", t, id] => do pure (.issue (← t.toNat?) (← id.toNat?), true)
  | ["R"] => some (.read, true)
  | ["K", k] => do pure (.keyW (← parseKey k), true)
  | ["D"] => some (.keyD, true)
  | ["S", b] => do pure (.sync (← parseBool b), true)
  | ["Q", "b"] => some (.quiet .inSelect, true)
  | ["Q", "r"] => some (.quiet .inRead, true)
  | ["Q", "f"] => some (.quiet .noRead, true)
  | ["Q", "t"] => some (.quiet .unknown, true)
  | ["+"] => some (.on, true)
  | ["-"] => some (.off, true)
  | ["P"] => some (.prompt, true)
  | ["M", "s", t, id, w] => do pure (.shown ⟨← t.toNat?, ← id.toNat?⟩, ← parseBool w)
  | ["M", "d", t, id, w] => do pure (.direct ⟨← t.toNat?, ← id.toNat?⟩, ← parseBool w)
  | ["X"] => some (.broken, true)
  | _ => none

def parseObs (impl : String) : Option Obs :=
  let toks := (impl.splitOn " ").filter (· ≠ "")
  let (evs, rest) := toks.span (· ≠ "=>")
  match rest with
  | ["=>", l] =>
    if l.startsWith "L=" then do
      let lines ← parseTexts (l.drop 2).toString
      let tr ← evs.mapM parseEv
      pure { trace := tr, results := lines.map (fun t => t.map Char.toNat) }
    else none
  | _ => none

/-! ## the oracle -/

structure OSt where
  issued : List (Msg × Option Nat) := []   -- message, the wait during which it was sent (oldest first);
                                           -- `none`: not sent while the read was known to be waiting
  appeared : List Msg := []
  inRead : Bool := false
  wait : Nat := 0
  waiting : Bool := false           -- the reader was seen asleep and no key was typed since
  afterSync : Bool := false
  -- expected editing result: keys only
  line : List Nat := []
  lines : List (List Nat) := []

def missing (st : OSt) : Bool := st.issued.any (fun (m, _) => !st.appeared.contains m)

def onMessage (st : OSt) (m : Msg) (direct wf : Bool) : Except String OSt :=
  match st.issued.find? (fun (m', _) => m' == m) with
  | none => .error "message-never-sent"
  | some (_, w) =>
    if st.appeared.contains m then .error "message-appears-twice"
    else if !wf then .error (if direct then "message-line-break-lost" else "no-line-break-or-no-repaint-after-message")
    else if direct && st.inRead then .error "D18:direct-write-after-the-prompt-was-drawn-nothing-repainted"
    else
      -- messages one thread sends during a single wait appear in the order sent
      let earlier := st.issued.takeWhile (fun (m', _) => m' != m)
      if earlier.any (fun (m', w') => m'.tid == m.tid && w.isSome && w' == w && !st.appeared.contains m') then
        .error "order-within-one-wait-not-kept"
      else .ok { st with appeared := st.appeared ++ [m] }

def oStep (st : OSt) (e : TEv × Bool) : Except String OSt :=
  let st' := { st with afterSync := false }
  match e.1 with
  | .issue t id =>
    if st.issued.any (fun (m, _) => m == ⟨t, id⟩) then .error "harness:duplicate-id"
    else .ok { st' with issued := st.issued ++ [(⟨t, id⟩, if st.waiting then some st.wait else none)] }
  | .read => .ok st'
  | .keyW k =>
    let st' := { st' with wait := st.wait + 1, waiting := false }
    .ok (match k with
      | .plain c => { st' with line := st.line ++ [c] }
      | .enter => { st' with lines := st.lines ++ [st.line], line := [] }
      | .sub => st'
      | .exit => st')
  | .keyD => .ok st'
  | .sync ok => .ok { st' with afterSync := ok }
  | .quiet .inSelect =>
    if st.afterSync && missing st then .error "message-not-shown-although-a-read-waits-with-no-key-pending"
    else .ok { st' with waiting := true }
  | .quiet .inRead =>
    if st.afterSync && missing st then .error "D21:message-not-shown-while-a-sub-loop-waits-with-no-key-pending"
    else .ok { st' with waiting := true }
  | .quiet _ => .ok st'
  | .on => .ok st'
  | .prompt => .ok { st' with inRead := true }
  | .off => .ok { st' with inRead := false, wait := st.wait + 1, waiting := false }
  | .shown m => onMessage st' m false e.2
  | .direct m => onMessage st' m true e.2
  | .broken => .error "message-not-whole"

def oracle (o : Obs) : Except String Unit := do
  let st ← o.trace.foldlM oStep ({} : OSt)
  -- a read returns the text typed for it (keys typed for a read that never ran are not judged)
  if st.lines.take o.results.length != o.results then .error "edited-text-affected" else pure ()

def verdict (o : Obs) : String :=
  match oracle o with
  | .ok _ => "ok"
  | .error w => "fail:" ++ w

end Rl.Spec.Printer
