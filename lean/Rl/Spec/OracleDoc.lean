/-
  Oracle for C01 (keystrokes produce the documented edit), run over the implementation's
  `Event::Any` callbacks and the result of the read.  It uses the README tables and the declarative
  meaning of `Rl/Spec/Doc.lean`, the byte strings of the request (decoded with the documented
  encodings `Doc.keyOfBytes`), the scripted validator and the custom bindings of the request —
  never the editor model.

  The request's key presses are grouped the way the documentation groups them: `[numeric argument]
  key [argument keys]` (second key of `C-x`, the character of `f t F T r`, of `C-v`, the movement of
  an operator with its own count).  The first key of a group that is not custom-bound is the one the
  handler is shown; a custom-bound key is dispatched without a callback, so its documented effect is
  composed with the preceding step.  For every step the state the handler saw *before* the key is
  taken from the implementation, the documented action is applied to it, and the result is compared
  with what the handler sees next (or with the outcome of the read).  Whenever the grouping cannot
  be followed (a byte string outside the documented encodings, a completion or vi-mode search
  sub-loop, input running out inside a group) the oracle stops judging: it never guesses.
-/
import Rl.Spec.EdObs
import Rl.Spec.EdOracle
import Rl.Spec.OracleNav
import Rl.Spec.Doc
set_option linter.unusedVariables false
namespace Rl.Spec
open Rl Rl.Wire Rl.Spec.Doc

structure DocCtx where
  S : Segmenter
  U : UData
  binds : List (List KeyEvent × Cmd)
  histEmpty : Bool
  hasCompleter : Bool
  validator : Text → Verdict

/-- the key presses still to come: a key pushed back (vi insert `Alt-c` = `Esc` then `c`) and the
    byte strings of the request -/
structure Inp where
  pending : Option KeyEvent := none
  toks : List (List UInt8)

def Inp.next (i : Inp) : Option (KeyEvent × Inp) :=
  match i.pending with
  | some k => some (k, { i with pending := none })
  | none =>
    match i.toks with
    | t :: rest => (keyOfBytes t).map (fun k => (k, { i with toks := rest }))
    | [] => none

/-- the raw character a quoted insert reads: the next byte string must be exactly one character -/
def Inp.nextRawChar (i : Inp) : Option (Char × Inp) :=
  match i.pending, i.toks with
  | none, t :: rest => (utf8One t).map (fun c => (c, { i with toks := rest }))
  | _, _ => none

def digitOf (k : KeyEvent) (allowAlt : Bool) : Option Nat :=
  match k.code with
  | .char c => if isDigit c && (k.mods == 0 || (allowAlt && k.mods == 4)) then some (c.toNat - 48) else none
  | _ => none

def isMinus (k : KeyEvent) : Bool := k == plain '-' || k == altk '-'

/-- emacs: the keys following `M-digit` / `M--`; result: digits, "a minus was typed inside", and the
    input positioned at the key that ends the argument -/
def collectEmacs : Nat → Inp → List Nat → Bool → Option (List Nat × Bool × Inp)
  | 0, _, _, _ => none
  | fuel + 1, i, ds, minus =>
    match i.next with
    | none => none
    | some (k, i') =>
      match digitOf k true with
      | some d => collectEmacs fuel i' (ds ++ [d]) minus
      | none => if isMinus k then collectEmacs fuel i' ds true else some (ds, minus, i)

/-- vi: the digits following a first digit `1-9` -/
def collectVi : Nat → Inp → List Nat → Option (List Nat × Inp)
  | 0, _, _ => none
  | fuel + 1, i, ds =>
    match i.next with
    | none => none
    | some (k, i') =>
      match digitOf k false with
      | some d => collectVi fuel i' (ds ++ [d])
      | none => some (ds, i)

/-- an optional vi count at the head of the input -/
def viCount (fuel : Nat) (i : Inp) : Option (Option Nat × Inp) :=
  match i.next with
  | none => none
  | some (k, i') =>
    match digitOf k false with
    | some d =>
      if d == 0 then some (none, i)
      else (collectVi fuel i' [d]).map (fun (ds, i'') => (some (argValue ds), i''))
    | none => some (none, i)

def recount (m : Movement) (new : Option Nat) : Movement :=
  match new with
  | none => m
  | some n =>
    match m with
    | .backwardWord _ w => .backwardWord n w
    | .forwardWord _ a w => .forwardWord n a w
    | .viCharSearch _ cs => .viCharSearch n cs
    | .backwardChar _ => .backwardChar n
    | .forwardChar _ => .forwardChar n
    | .lineUp _ => .lineUp n
    | .lineDown _ => .lineDown n
    | m => m

/-- documented meaning of a custom binding: a key bound to `Simple cmd` executes `cmd`, a repeatable
    command with the typed count in place of its own -/
def cmdAct (c : Cmd) (new : Option Nat) : Act :=
  match c with
  | .move m => .move (recount m new)
  | .kill m => .kill (recount m new)
  | .noop => .nothing
  | .acceptLine => .accept
  | .newline => .insert 1 '\n'
  | .upcaseWord => .editWord .uppercase
  | .interrupt => .interrupt
  | _ => .unjudged

def bindOf (ctx : DocCtx) (keys : List KeyEvent) : Option Cmd :=
  (ctx.binds.find? (fun b => b.1 == keys)).map (·.2)

def isPrefixOfBind (ctx : DocCtx) (keys : List KeyEvent) : Bool :=
  ctx.binds.any (fun b => keys.isPrefixOf b.1 && b.1 != keys)

structure Group where
  key : KeyEvent
  /-- the count and direction the handler must be shown, when the documentation fixes them -/
  count : Option (Nat × Bool)
  act : Act
  silent : Bool := false
  rest : Inp
  lastCS : Option CharSearch
  opensSearch : Bool := false
  hadArg : Bool := false

/-- keys with no documented meaning: a key that starts a bound two-key sequence reads the second -/
def unboundKey (ctx : DocCtx) (k : KeyEvent) (cnt : Option (Nat × Bool)) (i : Inp) (lastCS : Option CharSearch)
    (hadArg : Bool) : Option Group :=
  if isPrefixOfBind ctx [k] then
    match i.next with
    | none => none
    | some (k2, i') =>
      let act := match bindOf ctx [k, k2] with | some c => cmdAct c none | none => .unjudged
      some { key := k, count := cnt, act, rest := i', lastCS, hadArg }
  else some { key := k, count := cnt, act := .unjudged, rest := i, lastCS, hadArg }

def quoted (k : KeyEvent) (cnt : Option (Nat × Bool)) (i : Inp) (lastCS : Option CharSearch) (hadArg : Bool) :
    Option Group :=
  match i.nextRawChar with
  | some (c, i') => some { key := k, count := cnt, act := .insert 1 c, rest := i', lastCS, hadArg }
  | none => none

/-- the movement that follows a vi operator: `[count] motion [char]`, or the operator key again -/
def parseMotion (fuel : Nat) (opKey : KeyEvent) (n1 : Nat) (isChange : Bool) (i : Inp) (lastCS : Option CharSearch) :
    Option (Option Movement × Inp × Option CharSearch) := do
  let (k0, i0) ← i.next
  if k0 == opKey then pure (some .wholeLine, i0, lastCS)
  else
    let (c2, i1) ← viCount fuel i
    let n := match c2 with | some c => n1 * c | none => n1
    let (mk, i2) ← i1.next
    match lookup viMotionTable mk with
    | some (.move dm) => pure (operatorMovement dm n isChange, i2, lastCS)
    | some (.charSearch kind) =>
      let (ck, i3) ← i2.next
      (match printable ck with
       | some c => pure (some (.viCharSearch n (charSearchOf kind c)), i3, some (charSearchOf kind c))
       | none => pure (none, i3, lastCS))
    | some (.repeatSearch opp) =>
      pure (lastCS.map (fun cs => .viCharSearch n (if opp then cs.opposite else cs)), i2, lastCS)
    | _ => pure (none, i2, lastCS)

/-- one documented key group at the head of the input; `none` = cannot be followed.
    `cbCount` is the count the handler was shown, used only where the documentation leaves the
    value open (argument 0, a minus sign typed after digits). -/
def parseGroup (ctx : DocCtx) (mode : Mode) (lineEmpty : Bool) (lastCS : Option CharSearch) (inp : Inp)
    (cbCount : Option (Nat × Bool)) : Option Group := do
  let fuel := inp.toks.length + 3
  match mode with
  | .emacs =>
    let (k0, i0) ← inp.next
    let (k, i, cnt, hadArg) ←
      (if lookup emacsTable k0 == some .digitArg then do
        let (ds, minus, i1) ← collectEmacs fuel i0 (digitOf k0 true).toList false
        let (k, i2) ← i1.next
        pure (k, i2, (if minus then none else emacsArg (k0 == altk '-') ds), true)
       else pure (k0, i0, some (1, true), false))
    let eff := match cnt with | some c => some c | none => cbCount
    let n := (eff.map (·.1)).getD 1
    let positive := (eff.map (·.2)).getD true
    let judged := eff.isSome
    match bindOf ctx [k] with
    | some c =>
      let act := if !judged || !positive then Act.unjudged
                 else if c.isRepeatable then cmdAct c (some n) else cmdAct c none
      pure { key := k, count := cnt, act, silent := true, rest := i, lastCS, hadArg }
    | none =>
      if k == ctrl 'X' then
        let (k2, i') ← i.next
        let act := match bindOf ctx [k, k2] with | some c => cmdAct c none | none => .unjudged
        pure { key := k, count := cnt, act, rest := i', lastCS, hadArg }
      else if k == ctrl ']' || k == ⟨.char ']', 12⟩ then
        let (_, i') ← i.next
        pure { key := k, count := cnt, act := .unjudged, rest := i', lastCS, hadArg }
      else
        match printable k with
        | some c =>
          pure { key := k, count := cnt, act := if judged && positive then .insert n c else .unjudged,
                 rest := i, lastCS, hadArg }
        | none =>
          match lookup (table .emacs) k with
          | some .quotedInsert => quoted k cnt i lastCS hadArg
          | some (.other w) =>
            if w == "complete" && ctx.hasCompleter then none
            else pure { key := k, count := cnt, act := .unjudged, rest := i, lastCS, hadArg,
                        opensSearch := w == "reverse-search" && !ctx.histEmpty }
          | some a =>
            pure { key := k, count := cnt, act := if judged then a.resolve n positive lineEmpty false else .unjudged,
                   rest := i, lastCS, hadArg }
          | none => unboundKey ctx k cnt i lastCS hadArg
  | .viCommand =>
    let (c1, i) ← viCount fuel inp
    let n := c1.getD 1
    let cnt := some (n, true)
    let hadArg := c1.isSome
    let (k, i) ← i.next
    match bindOf ctx [k] with
    | some c =>
      let act := if c.isRepeatable then cmdAct c c1 else cmdAct c none
      pure { key := k, count := cnt, act, silent := true, rest := i, lastCS, hadArg }
    | none =>
      let opLike (o : Option Operator) : Option Group := do
        let (mv, i', cs') ← parseMotion fuel k n (o == some .change) i lastCS
        let act := match o, mv with
          | some o, some m => o.act m
          | _, _ => Act.unjudged
        pure { key := k, count := cnt, act, rest := i', lastCS := cs', hadArg }
      if k == plain '<' || k == plain '>' then opLike none
      else
        match lookup (table .viCommand) k with
        | some (.operator o) => opLike (some o)
        | some (.charSearch kind) =>
          let (ck, i') ← i.next
          (match printable ck with
           | some c =>
             pure { key := k, count := cnt, act := .move (.viCharSearch n (charSearchOf kind c)), rest := i',
                    lastCS := some (charSearchOf kind c), hadArg }
           | none => pure { key := k, count := cnt, act := .unjudged, rest := i', lastCS, hadArg })
        | some (.repeatSearch opp) =>
          let act := match lastCS with
            | some cs => Act.move (.viCharSearch n (if opp then cs.opposite else cs))
            | none => .nothing
          pure { key := k, count := cnt, act, rest := i, lastCS, hadArg }
        | some .replaceChar =>
          let (ck, i') ← i.next
          let act := match printable ck with
            | some c => Act.replaceChar n c
            | none => if ck == key .esc then .nothing else .unjudged
          pure { key := k, count := cnt, act, rest := i', lastCS, hadArg }
        | some .quotedInsert => quoted k cnt i lastCS hadArg
        | some (.other w) =>
          if (w == "reverse-search" || w == "forward-search") && !ctx.histEmpty then none
          else pure { key := k, count := cnt, act := .unjudged, rest := i, lastCS, hadArg }
        | some (.insertMode (some .charRight)) =>
          -- `a` with a count: vi repeats the inserted text; not judged
          pure { key := k, count := cnt,
                 act := if n == 1 then (DocAction.insertMode (some .charRight)).resolve 1 true lineEmpty true else .unjudged,
                 rest := i, lastCS, hadArg }
        | some a => pure { key := k, count := cnt, act := a.resolve n true lineEmpty true, rest := i, lastCS, hadArg }
        | none => unboundKey ctx k cnt i lastCS hadArg
  | .viInsert | .viReplace =>
    let (k, i) ← inp.next
    let cnt := some (0, true)
    match bindOf ctx [k] with
    | some c => pure { key := k, count := cnt, act := cmdAct c none, silent := true, rest := i, lastCS }
    | none =>
      match printable k with
      | some c =>
        pure { key := k, count := cnt, act := if mode == .viInsert then .insert 1 c else .unjudged, rest := i, lastCS }
      | none =>
        match k.code with
        | .char c =>
          if k.mods == 4 then
            -- `Esc` directly followed by `c`: command mode, then `c` as a command key
            pure { key := k, count := cnt, act := .unjudged, rest := i, lastCS }
          else
            match lookup (table .viInsert) k with
            | some .quotedInsert => quoted k cnt i lastCS false
            | some (.other w) =>
              if w == "complete" && ctx.hasCompleter then none
              else if (w == "reverse-search" || w == "forward-search") && !ctx.histEmpty then none
              else pure { key := k, count := cnt, act := .unjudged, rest := i, lastCS }
            | some a => pure { key := k, count := cnt, act := a.resolve 1 true lineEmpty true, rest := i, lastCS }
            | none => unboundKey ctx k cnt i lastCS false
        | _ =>
          match lookup (table .viInsert) k with
          | some (.other w) =>
            if w == "complete" && ctx.hasCompleter then none
            else pure { key := k, count := cnt, act := .unjudged, rest := i, lastCS }
          | some a => pure { key := k, count := cnt, act := a.resolve 1 true lineEmpty true, rest := i, lastCS }
          | none => unboundKey ctx k cnt i lastCS false

def modeStr : Mode → String
  | .emacs => "e" | .viCommand => "vc" | .viInsert => "vi" | .viReplace => "vr"

def Doc.Act.isTerminal : Act → Bool
  | .accept | .eof | .interrupt => true
  | _ => false

/-- result of a chain of custom-bound (silent) groups -/
structure Chain where
  e : Want
  inp : Inp
  lastCS : Option CharSearch
  terminal : Option (Act × Option Text) := none

/-- compose the documented effects of the custom-bound keys that follow a dispatched key -/
def silentChain (ctx : DocCtx) (nextMode : Option Mode) : Nat → Chain → Chain
  | 0, c => c
  | fuel + 1, c =>
    match (match c.e.mode with | some m => some m | none => nextMode) with
    | none => c
    | some m =>
      let lineEmpty := (c.e.text.map List.isEmpty).getD false
      match parseGroup ctx m lineEmpty c.lastCS c.inp none with
      | some g =>
        if !g.silent then c
        else if g.act.isTerminal then { c with inp := g.rest, lastCS := g.lastCS, terminal := some (g.act, c.e.text) }
        else
          let e' : Want := match c.e.text, c.e.pos with
            | some t, some p => g.act.apply ctx.S ctx.U m t p
            | _, _ => {}
          silentChain ctx nextMode fuel { e := e', inp := g.rest, lastCS := g.lastCS }
      | none => c

def checkOutcome (k : Nat) (ctx : DocCtx) (a : Act) (text : Option Text) (o : ImplObs) : OVerdict :=
  match a with
  | .accept =>
    (match text with
     | some t =>
       (match ctx.validator t with
        | .valid _ =>
          if o.outcome.startsWith "line:" && o.returnedLine == some t then none
          else some s!"C01:enter-did-not-return-the-edited-line(cb {k}):{o.outcome}"
        | _ => none)
     | none => none)
  | .eof => if o.outcome == "eof" then none else some s!"C01:ctrl-d-on-empty-line-is-not-eof(cb {k}):{o.outcome}"
  | .interrupt => if o.outcome == "int" then none else some s!"C01:ctrl-c-is-not-interrupt(cb {k}):{o.outcome}"
  | _ => none

def emacsSearchAbort (k : KeyEvent) : Bool := k == ctrl 'G' || k == ⟨.char 'G', 12⟩ || k == key .esc

/-- the verdict, and the number of steps on which text, cursor or outcome was actually compared -/
def oracleC01Cov (ctx : DocCtx) (toks : List (List UInt8)) (o : ImplObs) : OVerdict × Nat :=
  let rec go : Nat → Nat → Nat → Inp → Option CharSearch → Bool → List Obs → OVerdict × Nat
    | 0, j, _, _, _, _, _ => (none, j)
    | _, j, _, _, _, _, [] => (none, j)
    | fuel + 1, j, k, inp, lastCS, inSearch, cb :: rest =>
      match Mode.ofString cb.mode with
      | none => (none, j)
      | some mode =>
      match parseGroup ctx mode cb.line.isEmpty lastCS inp (some (cb.n, cb.positive)) with
      | none => (none, j)
      | some g =>
        if g.silent || cb.keys != [g.key] then (none, j)       -- cannot follow: stop judging
        else
        -- C01 numeric argument: the handler is shown the documented count and direction
        match (match g.count with
               | some (n, p) => if cb.n != n || cb.positive != p then
                   some s!"C01:numeric-argument(cb {k}):documented:{n}/{showBool p}:got:{cb.n}/{showBool cb.positive}" else none
               | none => none) with
        | some w => (some w, j)
        | none =>
        if inSearch && mode != .emacs then (none, j)
        else if inSearch && g.hadArg then (none, j)
        else if inSearch && searchConsumes cb.mode g.key then
          go fuel j (k + 1) g.rest g.lastCS (!emacsSearchAbort g.key) rest
        else if g.opensSearch then
          if mode == .emacs then go fuel j (k + 1) g.rest g.lastCS true rest else (none, j)
        else
        -- vi insert `Alt-c`: command mode, then `c` dispatched as a command key with the same text
        let altChar : Option Char :=
          if mode == .viInsert || mode == .viReplace then
            (match g.key.code with | .char c => if g.key.mods == 4 then some c else none | _ => none)
          else none
        match altChar with
        | some c =>
          (match rest with
           | nx :: _ =>
             if nx.line != cb.line || nx.pos != cb.pos then (some s!"C01:esc-changed-text-or-cursor(cb {k})", j)
             else if nx.mode != "vc" then (some s!"C01:esc-did-not-enter-command-mode(cb {k})", j)
             else go fuel (j + 1) (k + 1) { g.rest with pending := some (plain c) } g.lastCS false rest
           | [] => (none, j))
        | none =>
        let hintRight := g.key == key .right && cb.hasHint && cb.pos == blen cb.line
        let e0 : Want := if hintRight then {} else g.act.apply ctx.S ctx.U mode cb.line cb.pos
        let c0 : Chain :=
          if g.act.isTerminal then { e := e0, inp := g.rest, lastCS := g.lastCS, terminal := some (g.act, some cb.line) }
          else { e := e0, inp := g.rest, lastCS := g.lastCS }
        let nextMode := (rest.head?).bind (fun nx => Mode.ofString nx.mode)
        let c := if ctx.binds.isEmpty || g.act.isTerminal then c0 else silentChain ctx nextMode (fuel + 1) c0
        match c.terminal with
        | some (a, text) =>
          let judgedAccept := match a, text with
            | .accept, some t => (match ctx.validator t with | .valid _ => true | _ => false)
            | .accept, none => false
            | _, _ => true
          (match rest with
           | _ :: _ => if judgedAccept then (some s!"C01:read-went-on-after-a-finishing-key(cb {k})", j) else (none, j)
           | [] => (checkOutcome k ctx a text o, if judgedAccept then j + 1 else j))
        | none =>
          match rest with
          | nx :: _ =>
            let tv : OVerdict := match c.e.text with
              | some t => if nx.line != t then some s!"C01:text-after-key-is-not-the-documented-one(cb {k})" else none
              | none => none
            -- a documented cursor that would fall inside a cluster of the new text is not judged
            let onBoundary (p : Nat) : Bool := match c.e.text with
              | some t => (bounds 0 (ctx.S.seg t)).contains p
              | none => true
            let pv : OVerdict := match c.e.pos with
              | some p => if onBoundary p && nx.pos != p then some s!"C01:cursor-after-key-is-not-the-documented-one(cb {k}):want-{p}-got-{nx.pos}" else none
              | none => none
            let mv : OVerdict := match c.e.mode with
              | some m => if nx.mode != modeStr m then some s!"C01:mode-after-key-is-not-the-documented-one(cb {k})" else none
              | none => none
            (match firstFail [tv, pv, mv] with
             | some w =>
               (some (w ++ ":" ++ g.act.tag ++ (if cb.line.contains '\n' then ":ml" else "")
                       ++ (if c.inp.toks.length != g.rest.toks.length then ":+bound-keys" else "")), j)
             | none => go fuel (if c.e.text.isSome && c.e.pos.isSome then j + 1 else j) (k + 1) c.inp c.lastCS false rest)
          | [] =>
            -- last dispatched key, not a finishing one: the read cannot have returned a line
            match c.e.text, o.returnedLine with
            | some t, some l =>
              if o.outcome.startsWith "line:" then (some s!"C01:read-returned-without-a-finishing-key(cb {k})", j) else (none, j)
            | _, _ => (none, j)
  go (o.cbs.length + 1) 0 0 { toks } none false o.cbs

def oracleC01 (ctx : DocCtx) (toks : List (List UInt8)) (o : ImplObs) : OVerdict := (oracleC01Cov ctx toks o).1

end Rl.Spec
