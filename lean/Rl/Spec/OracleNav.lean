/-
  Oracles for C07 (history recall), C08 (incremental search) and C14 (completion): the property
  statements as small abstract machines run over the implementation's callbacks.  They use the
  history spec of C09 (`Spec.find`) and the scripted helpers of the request, never the editor model.
-/
import Rl.Spec.EdObs
import Rl.Spec.EdOracle
import Rl.Spec.History
namespace Rl.Spec
open Rl Rl.Wire

def countNl (t : Text) : Nat := (t.filter (· == '\n')).length

def takeB (t : Text) (n : Nat) : Text := match splitAtByte t n with | some (a, _) => a | none => t
def dropB (t : Text) (n : Nat) : Text := match splitAtByte t n with | some (_, b) => b | none => []

inductive NavKey | prev | next | first | last | up | down | other
deriving DecidableEq, Repr

/-- documented history bindings (README): C-p, C-n, Up, Down, M-lt, M-gt; vi command mode j, k, plus, minus -/
def classifyNav (o : Obs) : NavKey :=
  match o.keys with
  | [k] =>
    if o.mode == "e" then
      if k == ⟨.char 'P', 8⟩ then .prev else if k == ⟨.char 'N', 8⟩ then .next
      else if k == ⟨.up, 0⟩ then .up else if k == ⟨.down, 0⟩ then .down
      else if k == ⟨.char '<', 4⟩ then .first else if k == ⟨.char '>', 4⟩ then .last
      else .other
    else if o.mode == "vc" then
      if k == ⟨.char 'P', 8⟩ then .prev else if k == ⟨.char 'N', 8⟩ then .next
      else if k == ⟨.up, 0⟩ || k == ⟨.char 'k', 0⟩ || k == ⟨.char '-', 0⟩ then .up
      else if k == ⟨.down, 0⟩ || k == ⟨.char 'j', 0⟩ || k == ⟨.char '+', 0⟩ then .down
      else .other
    else
      if k == ⟨.up, 0⟩ then .up else if k == ⟨.down, 0⟩ then .down else .other
  | _ => .other

structure NavSt where
  idx : Nat
  saved : Text × Nat

/-- expectation after one key: `none` = no constraint -/
inductive Expect
  | any
  | exact (line : Text) (pos : Nat)
  | sameTextEarlierLine
  | sameTextLaterLine

def navStep (hist : List Text) (st : NavSt) (o : Obs) : NavSt × Expect :=
  let len := hist.length
  let same := Expect.exact o.line o.pos
  let showEntry (i : Nat) : Expect :=
    match hist[i]? with | some e => .exact e (blen e) | none => .any
  let prev : NavSt × Expect :=
    if len == 0 then (st, same)
    else
      let st := if st.idx == len then { st with saved := (o.line, o.pos) } else st
      if st.idx == 0 then (st, same)
      else ({ st with idx := st.idx - 1 }, showEntry (st.idx - 1))
  let next : NavSt × Expect :=
    if len == 0 || st.idx == len then (st, same)
    else
      let i := st.idx + 1
      if i == len then ({ st with idx := i }, .exact st.saved.1 st.saved.2)
      else ({ st with idx := i }, showEntry i)
  match classifyNav o with
  | .other => (st, .any)
  | .prev => prev
  | .next => next
  | .first =>
    if len == 0 then (st, same)
    else
      let st := if st.idx == len then { st with saved := (o.line, o.pos) } else st
      if st.idx == 0 then (st, same) else ({ st with idx := 0 }, showEntry 0)
  | .last =>
    if len == 0 || st.idx == len then (st, same)
    else ({ st with idx := len }, .exact st.saved.1 st.saved.2)
  | .up => if (takeB o.line o.pos).contains '\n' then (st, .sameTextEarlierLine) else prev
  | .down => if (dropB o.line o.pos).contains '\n' then (st, .sameTextLaterLine) else next

def checkExpect (k : Nat) (o : Obs) (e : Expect) (nl : Text) (np : Option Nat) : OVerdict :=
  match e with
  | .any => none
  | .exact l p =>
    if nl != l then some s!"C07:wrong-text-after-history-key(cb {k})"
    else match np with
      | some q => if q == p then none else some s!"C07:wrong-cursor-after-history-key(cb {k})"
      | none => none
  | .sameTextEarlierLine =>
    if nl != o.line then some s!"C07:text-changed-by-line-motion(cb {k})"
    else match np with
      | some q => if countNl (takeB nl q) < countNl (takeB o.line o.pos) then none
                  else some s!"C07:up-did-not-move-to-an-earlier-line(cb {k})"
      | none => none
  | .sameTextLaterLine =>
    if nl != o.line then some s!"C07:text-changed-by-line-motion(cb {k})"
    else match np with
      | some q => if countNl (takeB nl q) > countNl (takeB o.line o.pos) then none
                  else some s!"C07:down-did-not-move-to-a-later-line(cb {k})"
      | none => none

/-- is this key handled by a sub-loop (search / completion) rather than the main loop?  The nav
    machine is only applied to keys dispatched by the main loop: a key that *ends* a sub-loop is
    executed normally afterwards, so it counts; keys consumed inside do not. -/
structure LoopSt where
  inSearch : Bool := false
  inCompletion : Bool := false

def isPlainChar (k : KeyEvent) : Bool := match k.code with | .char _ => k.mods == 0 | _ => false

/-- keys the i-search loop consumes itself -/
def searchConsumes (mode : String) (k : KeyEvent) : Bool :=
  isPlainChar k || k == ⟨.backspace, 0⟩ || k == ⟨.char 'H', 8⟩ || k == ⟨.char 'R', 8⟩ || k == ⟨.char 'S', 8⟩
    || (mode == "e" && (k == ⟨.char 'G', 8⟩ || k == ⟨.char 'G', 12⟩ || k == ⟨.esc, 0⟩))

def completionConsumes (mode : String) (k : KeyEvent) : Bool :=
  k == ⟨.tab, 0⟩ || k == ⟨.char 'I', 8⟩ || k == ⟨.backTab, 0⟩
    || (mode == "e" && (k == ⟨.char 'G', 8⟩ || k == ⟨.char 'G', 12⟩ || k == ⟨.esc, 0⟩))

def oracleC07 (hist : List Text) (hasCompleter : Bool) (circular : Bool) (o : ImplObs) : OVerdict :=
  let rec go (k : Nat) (st : NavSt) (ls : LoopSt) : List (Obs × Text × Option Nat) → OVerdict
    | [] => none
    | (cb, nl, np) :: rest =>
      match cb.keys with
      | [key] =>
        -- track the sub-loops so that keys they swallow are not read as navigation
        if ls.inSearch && searchConsumes cb.mode key then
          let stillIn := !(cb.mode == "e" && (key == ⟨.char 'G', 8⟩ || key == ⟨.char 'G', 12⟩ || key == ⟨.esc, 0⟩))
          go (k + 1) st { ls with inSearch := stillIn } rest
        else if ls.inCompletion && completionConsumes cb.mode key then
          let stillIn := key == ⟨.tab, 0⟩ || key == ⟨.char 'I', 8⟩ || key == ⟨.backTab, 0⟩
          go (k + 1) st { ls with inCompletion := stillIn } rest
        else
          let ls := { ls with inSearch := false, inCompletion := false }
          let startsSearch := key == ⟨.char 'R', 8⟩ && !hist.isEmpty
          let startsCompletion := hasCompleter && circular && cb.mode != "vc" && (key == ⟨.tab, 0⟩ || key == ⟨.char 'I', 8⟩)
          if startsSearch then go (k + 1) st { ls with inSearch := true } rest
          else if startsCompletion then
            -- whether the loop is entered depends on the candidates: be conservative, stop checking
            none
          else if hasCompleter && !circular && (key == ⟨.tab, 0⟩ || key == ⟨.char 'I', 8⟩) then none
          else
            let (st', e) := navStep hist st cb
            match checkExpect k cb e nl np with
            | some w => some w
            | none => go (k + 1) st' ls rest
      | _ => go (k + 1) st ls rest
  let r := go 0 { idx := hist.length, saved := ([], 0) } {} o.steps
  match r with
  | some w => some w
  | none => if o.histAfter == hist then none else some "C07:stored-history-changed"

end Rl.Spec
