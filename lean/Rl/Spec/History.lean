/-
  Declarative specification of the history store (property C09), written from the
  property text, not from the code.
-/
import Rl.Text
import Rl.History
namespace Rl.Spec

/-- keep the newest `n` -/
def takeLast (n : Nat) (l : List α) : List α := l.drop (l.length - n)

structure HState where
  entries : List Text := []
  max : Nat
  ignoreSpace : Bool
  ignoreDups : Bool

/-- A line is refused iff it is empty, the size limit is zero, it starts with a blank while
    ignore-space is on, or it equals the newest entry while ignore-duplicates is on. -/
def refused (ws : Char → Bool) (s : HState) (l : Text) : Bool :=
  l = [] || s.max = 0 || (s.ignoreSpace && (l.head?.map ws).getD false)
    || (s.ignoreDups && s.entries.getLast? = some l)

/-- `term` occurs somewhere in `e`.  `findSub` is the naive first-occurrence search of
    `Rl/Text.lean`; its declarative meaning (`OccursAt`, minimal offset) is `findSub_some` /
    `findSub_none` there. -/
def contains (term e : Text) : Bool := (findSub term e).isSome

/-- nearest index in direction `d` from `start` (inclusive) whose entry satisfies `p`:
    the first hit walking up from 0 (forward) or down from the top (reverse). -/
def nearest (p : Text → Bool) (es : List Text) (start : Nat) : Dir → Option Nat
  | .forward => (List.range es.length).find? (fun i => start ≤ i && (es[i]?.map p).getD false)
  | .reverse => (List.range es.length).reverse.find? (fun i => i ≤ start && (es[i]?.map p).getD false)

def find (substring : Bool) (es : List Text) (term : Text) (start : Nat) (d : Dir) :
    Option (Nat × Text × Nat) :=
  if term = [] ∨ start ≥ es.length then none
  else
    let p := fun e => if substring then contains term e else term.isPrefixOf e
    match nearest p es start d with
    | none => none
    | some i =>
      match es[i]? with
      | none => none
      | some e => some (i, e, if substring then (findSub term e).getD 0 else blen term)

def step (ws : Char → Bool) (s : HState) : HOp → HState × HObs
  | .add l | .addOwned l =>
    if refused ws s l then (s, .bool false)
    else ({ s with entries := takeLast s.max (s.entries ++ [l]) }, .bool true)
  | .setMax n => ({ s with max := n, entries := takeLast n s.entries }, .unit)
  | .dups b => ({ s with ignoreDups := b }, .unit)
  | .space b => ({ s with ignoreSpace := b }, .unit)
  | .clear => ({ s with entries := [] }, .unit)
  | .get i => (s, .entry s.entries[i]?)
  | .search t st d => (s, .found (find true s.entries t st d))
  | .startsWith t st d => (s, .found (find false s.entries t st d))
  | .len => (s, .nat s.entries.length)
  | .dump => (s, .all s.entries)

def run (ws : Char → Bool) (s : HState) : List HOp → HState × List HObs
  | [] => (s, [])
  | op :: ops =>
    let (s', o) := step ws s op
    let (s'', os) := run ws s' ops
    (s'', o :: os)

end Rl.Spec
