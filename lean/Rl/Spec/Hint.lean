/-
  Declarative specification of the history hinter (attached to property C09), written from the
  documentation of `HistoryHinter` ("suggestion based on previous history entries matching current
  user input") and of `Hinter::hint`, not from the code.  It reuses the declarative `nearest` of
  the store spec (first hit walking down from the start index).
-/
import Rl.Text
import Rl.History
import Rl.Spec.History
namespace Rl.Spec

/-- Expected hint for a context positioned at `idx ≤ es.length` (`idx = es.length`: a fresh line
    being typed).  No hint unless the line is non-empty and the cursor is at its end.  Otherwise
    walk from entry `min idx (es.length - 1)` towards older entries; the first one that starts with
    `line` decides: the hint is its remainder after `line` — unless it *is* the line, then there is
    no hint (the code does not look further back for a longer entry; recorded as surprising in the
    package notes). -/
def hint (es : List Text) (idx : Nat) (line : Text) (pos : Nat) : Option Text :=
  if line = [] ∨ pos ≠ blen line then none
  else
    match nearest (fun e => line.isPrefixOf e) es (min idx (es.length - 1)) .reverse with
    | some i =>
      match es[i]? with
      | some e => if e = line then none else some (e.drop line.length)
      | none => none
    | none => none

/-- the stored entries after `add`ing the lines in order, by the declarative store spec -/
def addAll (ws : Char → Bool) (s : HState) : List Text → HState
  | [] => s
  | l :: ls => addAll ws (step ws s (.add l)).1 ls

end Rl.Spec
