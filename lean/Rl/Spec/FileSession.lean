/-
  Declarative specification for sessions sharing one history file (property C11), written from
  the property text, not from the code.  It is an *oracle*: it judges the observations the real
  implementation produced for a request of target `sess` (and the logs of target `sessx`).

  It works on *logical* content only: the entries the file holds are the ones the real loader
  returns for it (a fresh history with a huge limit and no ignore rules), never the bytes.

  Clauses (per operation, so "after each append"):
  * shape   — after an append by a session with new lines `news` the file holds what it held
              before, possibly minus its oldest entries (only to respect that session's limit)
              and minus consecutive duplicates (only with ignore-dups), followed by `news`;
              an append with nothing new leaves the file alone;
  * no loss — is the shape clause while the limit is not reached: then nothing may be removed,
              so the file is exactly `before ++ news`;
  * no double — for every text, the file never holds more copies than were in the initial file
              plus the number of times sessions entered it;
  * loads   — the file always loads without error;
  * bound   — while every write so far got a modification time distinguishable from all earlier
              ones (and every load was a load-at-start), the file holds at most `max` entries
              after an append by a session with limit `max`.
  `save` overwrites by design: the file must then hold exactly the session's entries.
-/
import Rl.Text
import Rl.History
import Rl.Spec.History
import Rl.HistFile
namespace Rl.Spec.FS
open Rl Rl.Spec

structure Cfg where
  max : Nat
  isp : Bool
  idp : Bool
deriving Repr, DecidableEq

/-- the acceptance / size rule of the store (C09's declarative rule) -/
def accept (ws : Char → Bool) (c : Cfg) (mem : List Text) (l : Text) : Option (List Text) :=
  if refused ws { entries := mem, max := c.max, ignoreSpace := c.isp, ignoreDups := c.idp } l then none
  else some (takeLast c.max (mem ++ [l]))

def addsTo (ws : Char → Bool) (c : Cfg) (mem : List Text) (ls : List Text) : List Text :=
  ls.foldl (fun m l => (accept ws c m l).getD m) mem

/-- The per-append shape.  `addsTo c [] (before ++ news)` is `before ++ news` with consecutive
    duplicates removed (ignore-dups) and cut from the old end to the limit; the third case is the
    one where the new lines alone fill the limit. -/
def shapeOk (ws : Char → Bool) (c : Cfg) (before news after : List Text) : Bool :=
  after == before ++ news
    || after == addsTo ws c [] (before ++ news)
    || (news.length == c.max && after == news)

/-- nothing may be removed: the limit is not reached and no two neighbours are equal -/
def fits (c : Cfg) (es : List Text) : Bool :=
  es.length ≤ c.max && (!c.idp || (es.zip (es.drop 1)).all (fun p => p.1 != p.2))

structure SessSt where
  cfg : Cfg
  /-- entries of the live history -/
  mem : List Text := []
  /-- accepted since the last write of this session (at most `max`) -/
  unsaved : List Text := []

structure St where
  sess : List SessSt
  /-- `none` = no file -/
  disk : Option (List Text)
  /-- every text that may legitimately be in the file, with multiplicity -/
  pool : List Text
  /-- every write so far had a fresh modification time, no outside touch, loads only at start -/
  distinguishable : Bool := true
  /-- the largest modification time index seen so far -/
  clock : Nat := 0

/-- operations of target `sess` (the modification times are part of the observations) -/
inductive TOp
  | load (i : Nat) | add (i : Nat) (l : Text) | append (i : Nat) | save (i : Nat)
  | touch (k : Nat) | dump
deriving Repr

inductive TObs
  | status (s : HfStatus)
  | bool (b : Bool)
  /-- status of the call, modification time afterwards as an index into the distinct times seen
      so far (`none`: no file), the file as the real loader reads it (status, entries) -/
  | write (st : HfStatus) (mt : Option Nat) (lst : HfStatus) (es : Option (List Text))
  | unit
  | dump (lst : HfStatus) (es : Option (List Text)) (sessions : List (List Text))
deriving Repr

def count (x : Text) (l : List Text) : Nat := (l.filter (· == x)).length

def poolOk (pool es : List Text) : Bool := es.all (fun x => count x es ≤ count x pool)

def setAt (l : List α) (i : Nat) (x : α) : List α := l.set i x

def judge (ws : Char → Bool) (s : St) : TOp → TObs → Except String St
  | .load i, .status st =>
    match s.sess[i]? with
    | none => throw "shape"
    | some x =>
      if st = .panic then throw "load:panic" else
      match s.disk with
      | none => if st = .io then pure s else throw "load:no-file-but-no-io-error"
      | some es =>
        if st ≠ .ok then throw "load:error-on-a-file-this-library-wrote"
        else pure { s with sess := setAt s.sess i { x with mem := addsTo ws x.cfg x.mem es, unsaved := [] },
                           distinguishable := s.distinguishable && x.mem.isEmpty }
  | .add i l, .bool b =>
    match s.sess[i]? with
    | none => throw "shape"
    | some x =>
      match accept ws x.cfg x.mem l with
      | none => if b then throw "add:accepted-a-line-the-rules-refuse" else pure s
      | some m' =>
        if !b then throw "add:refused-a-line-the-rules-accept"
        else pure { s with sess := setAt s.sess i { x with mem := m', unsaved := takeLast x.cfg.max (x.unsaved ++ [l]) },
                           pool := l :: s.pool }
  | .append i, .write st mt lst es =>
    match s.sess[i]? with
    | none => throw "shape"
    | some x =>
      if st ≠ .ok then throw "append:error" else
      if lst ≠ .ok && (s.disk.isSome || !x.unsaved.isEmpty) then throw "append:file-does-not-load" else
      if x.unsaved.isEmpty then
        (if es = s.disk then pure s else throw "append:nothing-new-but-the-file-changed")
      else
        match es with
        | none => throw "append:no-file-afterwards"
        | some after =>
          let before := s.disk.getD []
          if !shapeOk ws x.cfg before x.unsaved after then throw "append:shape"
          else if fits x.cfg (before ++ x.unsaved) && after != before ++ x.unsaved then throw "append:lost-a-line-under-the-limit"
          else if !poolOk s.pool after then throw "append:a-line-written-twice"
          else
            let fresh := decide (mt.getD 0 > s.clock)
            let d := s.distinguishable && fresh
            if d && after.length > x.cfg.max then throw "append:limit-exceeded-with-distinguishable-times"
            else pure { s with sess := setAt s.sess i { x with unsaved := [] }, disk := some after, distinguishable := d,
                               clock := max s.clock (mt.getD 0) }
  | .save i, .write st mt lst es =>
    match s.sess[i]? with
    | none => throw "shape"
    | some x =>
      if st ≠ .ok then throw "save:error" else
      if lst ≠ .ok && (s.disk.isSome || !x.unsaved.isEmpty) then throw "save:file-does-not-load" else
      if x.unsaved.isEmpty then
        (if es = s.disk then pure s else throw "save:nothing-new-but-the-file-changed")
      else if es ≠ some x.mem then throw "save:file-is-not-the-history"
      -- whatever a save wrote is legitimately in the file from now on (a history that loaded twice
      -- holds, and saves, the file's entries twice: outside the property, `save` overwrites by design)
      else pure { s with sess := setAt s.sess i { x with unsaved := [] }, disk := es, pool := x.mem ++ s.pool,
                         distinguishable := s.distinguishable && decide (mt.getD 0 > s.clock),
                         clock := max s.clock (mt.getD 0) }
  | .touch _, .unit => pure { s with distinguishable := false }
  | .dump, .dump lst es sessions =>
    if lst ≠ .ok && s.disk.isSome then throw "dump:file-does-not-load"
    else if es ≠ s.disk then throw "dump:file-changed-without-a-write"
    else if sessions ≠ s.sess.map (·.mem) then throw "dump:entries-of-a-session"
    else pure s
  | _, _ => throw "shape"

def judgeAll (ws : Char → Bool) : St → List TOp → List TObs → Nat → String
  | _, [], [], _ => "ok"
  | s, op :: ops, o :: os, i =>
    match judge ws s op o with
    | .ok s' => judgeAll ws s' ops os (i + 1)
    | .error e => s!"fail:{i}:{e}"
  | _, _, _, i => s!"fail:{i}:shape"

def verdict (ws : Char → Bool) (cfgs : List Cfg) (init : Option (List Text)) (ops : List TOp)
    (obs : List TObs) : String :=
  judgeAll ws { sess := cfgs.map (fun c => { cfg := c }), disk := init, pool := init.getD [] } ops obs 0

/-! ### truly concurrent runs (target `sessx`): property oracle only

  Every worker loads the file, then repeatedly adds one fresh line and appends; the observation
  is what each worker entered (in order) and what the file holds at the end (and whether every
  load in between succeeded).  With a limit that is never reached: the initial entries come
  first, every line entered is in the file exactly once, and each worker's lines are in the order
  entered.  With a small limit: the file loads, holds no text that nobody entered, nothing twice,
  and each worker's surviving lines are in the order entered. -/

/-- `a` is a subsequence of `b` -/
def subseq : List Text → List Text → Bool
  | [], _ => true
  | _ :: _, [] => false
  | x :: xs, y :: ys => if x == y then subseq xs ys else subseq (x :: xs) ys

def concVerdict (big : Bool) (init : List Text) (workers : List (List Text)) (allLoadsOk : Bool)
    (final : Option (List Text)) : String :=
  match final with
  | none => "fail:file-does-not-load"
  | some es =>
    let pool := init ++ workers.flatten
    if !allLoadsOk then "fail:a-load-failed-or-saw-a-file-without-entries"
    else if !es.all (fun x => pool.contains x) then "fail:a-line-nobody-entered"
    else if !es.all (fun x => count x es ≤ 1) then "fail:a-line-twice"
    else if !workers.all (fun w => subseq (w.filter (fun x => es.contains x)) es) then "fail:order-of-a-session"
    else if big && !(init.isPrefixOf es) then "fail:initial-entries-not-first"
    else if big && !workers.all (fun w => w.all (fun x => es.contains x)) then "fail:a-line-lost-under-the-limit"
    else "ok"

end Rl.Spec.FS
