/-
  Declarative targets and spans of C04, written from the property text (DESIGN.md "### C04" and the
  reading decisions of 7.1) — not from the code.  With `pre ++ suf = buf`, `blen pre = pos`,
  `gs = S.seg suf` (resp. `S.seg pre` backwards) and `off k` the byte length of the first `k` clusters:

  * character motions go to a cluster boundary: `pos + off (min n |gs|)`;
  * word motions go to the n-th element of the list of word starts / ends after (before) the cursor,
    or to the text end when there are fewer (for *motions* under the Vi/Big definitions: the start of
    the last cluster, as the pinned tests fix; for kills and copies: the buffer end);
  * line motions/kills: start / end of the current line; a kill with nothing left on the line removes
    the adjoining line break; multi-line spans are whole lines with exactly one adjoining line break
    (the following one, or the preceding one when the span reaches the buffer end; a copy has no
    leading break);
  * character searches land on the n-th occurrence after the cluster under the cursor (before the
    cursor, backwards); "before"/"after" step by one cluster;
  * a kill or copy covers exactly `[min pos target, max pos target)`.

  Counts of 0 are outside C04's quantifier and are not judged.
-/
import Rl.LineBuffer
import Rl.Spec.LineBuffer
set_option linter.unusedVariables false
namespace Rl.Spec
open Rl

/-- byte length of the first `k` clusters -/
def offOf (gs : List Text) (k : Nat) : Nat := blen (gs.take k).flatten

/-- all cluster boundaries `base + off k`, `k = 0 … |gs|` -/
def bounds (base : Nat) (gs : List Text) : List Nat :=
  (List.range (gs.length + 1)).map (fun k => base + offOf gs k)

/-- indices `j ≥ 1` of clusters with `P gs[j-1] gs[j]` -/
def pairIdx (P : Text → Text → Bool) : Nat → List Text → List Nat
  | _, [] => []
  | _, [_] => []
  | j, x :: y :: r =>
    if P x y then (j + 1) :: pairIdx P (j + 1) (y :: r) else pairIdx P (j + 1) (y :: r)

def splitAt? (buf : Text) (pos : Nat) : Option (Text × Text) := splitAtByte buf pos

/-- where `n` clusters forward end -/
def charTargetFwd (S : Segmenter) (buf : Text) (pos n : Nat) : Option Nat := do
  let (_, suf) ← splitAt? buf pos
  let gs := S.seg suf
  pure (pos + offOf gs (min n gs.length))

def charTargetBwd (S : Segmenter) (buf : Text) (pos n : Nat) : Option Nat := do
  let (pre, _) ← splitAt? buf pos
  let gs := S.seg pre
  pure (offOf gs (gs.length - min n gs.length))

/-- n-th word start / end after the cursor; `motion = false` for kills and copies.
    `none` = the motion has nowhere to go (cursor stays). -/
def wordTargetFwd (S : Segmenter) (U : UData) (buf : Text) (pos : Nat) (a : At) (d : Word) (n : Nat)
    (motion : Bool) : Option Nat :=
  match splitAt? buf pos with
  | none => none
  | some (_, suf) =>
    if suf.isEmpty then none
    else
      let gs := S.seg suf
      let m := gs.length
      let cands : List Nat := match a with
        | .start => (pairIdx (isStartOfWord U d) 0 gs).map (offOf gs)
        | .afterEnd => (pairIdx (isEndOfWord U d) 0 gs).map (offOf gs)
        | .beforeEnd => ((pairIdx (isEndOfWord U d) 0 gs).filter (· ≥ 2)).map (fun j => offOf gs (j - 1))
      match cands[n - 1]? with
      | some o => some (pos + o)
      | none =>
        -- fewer than n: the text end
        if !motion || d == .emacs || a == .afterEnd then some (blen buf)
        else if m ≥ 2 then some (pos + offOf gs (m - 1)) else none

/-- n-th word start before the cursor, or the text start -/
def wordTargetBwd (S : Segmenter) (U : UData) (buf : Text) (pos : Nat) (d : Word) (n : Nat) : Option Nat :=
  match splitAt? buf pos with
  | none => none
  | some (pre, _) =>
    if pre.isEmpty then none
    else
      let gs := S.seg pre
      let cands := ((pairIdx (isStartOfWord U d) 0 gs).map (offOf gs)).reverse
      match cands[n - 1]? with
      | some o => some o
      | none => some 0

/-- start of the line containing byte offset `p` -/
def lineStartOf (buf : Text) (p : Nat) : Nat :=
  match splitAt? buf p with
  | some (pre, _) => match rfindChar '\n' pre with
    | some i => i + 1
    | none => 0
  | none => 0

/-- end of the line containing `p`: offset of its line break, or the buffer end -/
def lineEndOf (buf : Text) (p : Nat) : Nat :=
  match splitAt? buf p with
  | some (_, suf) => match findChar '\n' suf with
    | some i => p + i
    | none => blen buf
  | none => blen buf

/-- end (offset of the line break, or buffer end) of the line `n` lines below the one ending at `e` -/
def downEnd (buf : Text) : Nat → Nat → Nat
  | 0, e => e
  | n + 1, e => if e ≥ blen buf then e else downEnd buf n (lineEndOf buf (e + 1))

/-- start of the line `n` lines above the one starting at `s` -/
def upStart (buf : Text) : Nat → Nat → Nat
  | 0, s => s
  | n + 1, s => if s == 0 then 0 else upStart buf n (lineStartOf buf (s - 1))

/-- whole lines `[s, e]` (`e` = offset of the last line's break or the buffer end) as a span -/
def linesSpan (buf : Text) (s e : Nat) (forCopy : Bool) : Nat × Nat :=
  if e < blen buf then (s, e + 1)
  else if forCopy then (s, blen buf)
  else (if s > 0 then s - 1 else 0, blen buf)

/-- absolute offset of the n-th occurrence of `c` searching forward from just after the cluster
    under the cursor / backward from the cursor -/
def occFwd (S : Segmenter) (buf : Text) (pos : Nat) (c : Char) (n : Nat) : Option Nat := do
  let (_, suf) ← splitAt? buf pos
  let g ← (S.seg suf).head?
  let shift := pos + blen g
  let (_, rest) ← splitAt? buf shift
  ((occ c rest).map (· + shift))[n - 1]?

def occBwd (buf : Text) (pos : Nat) (c : Char) (n : Nat) : Option Nat := do
  let (pre, _) ← splitAt? buf pos
  ((occ c pre).reverse)[n - 1]?

/-- target of a character search as a motion; `none` = not judged (no n-th occurrence, or the
    occurrence is not on a cluster boundary) -/
def charSearchTarget (S : Segmenter) (buf : Text) (pos : Nat) (cs : CharSearch) (n : Nat) : Option Nat :=
  match cs with
  | .forward c => occFwd S buf pos c n
  | .forwardBefore c => do
    let p ← occFwd S buf pos c n
    let (_, suf) ← splitAt? buf pos
    let bs := bounds pos (S.seg suf)
    if bs.contains p then ((bs.filter (· < p)).getLast?) else none
  | .backward c => occBwd buf pos c n
  | .backwardAfter c => do
    let p ← occBwd buf pos c n
    let (pre, _) ← splitAt? buf pos
    let bs := bounds 0 (S.seg pre)
    if bs.contains p then (bs.find? (· > p)) else none

/-- vi `^`: the first cluster of the current line that holds no white space; the end of the line when the line is
    blank -/
def firstPrintTarget (S : Segmenter) (U : UData) (buf : Text) (pos : Nat) : Option Nat :=
  let ls := lineStartOf buf pos
  match splitAt? buf ls with
  | none => none
  | some (_, rest) =>
    let line := rest.takeWhile (· != '\n')
    let gs := S.seg line
    let k := (gs.takeWhile (fun g => g.any U.ws)).length
    some (ls + offOf gs k)

inductive SpanRes
  | span (a b : Nat)   -- the text to remove / return (a < b)
  | nothing            -- nothing to kill / copy
  | unjudged

/-- the span a kill (`forCopy = false`) or copy (`forCopy = true`) with movement `mvt` covers -/
def spanOf (S : Segmenter) (U : UData) (buf : Text) (pos : Nat) (mvt : Movement) (forCopy : Bool) : SpanRes :=
  let len := blen buf
  let mk (a b : Nat) : SpanRes := if a < b then .span a b else .nothing
  let ls := lineStartOf buf pos
  let le := lineEndOf buf pos
  if buf.isEmpty then .nothing
  else
    match mvt with
    | .wholeLine =>
      if ls < le then .span ls le
      else if forCopy then .nothing
      else if le < len then .span le (le + 1) else .nothing
    | .beginningOfLine =>
      if ls < pos then .span ls pos
      else if forCopy || pos == 0 then .nothing
      else match charTargetBwd S buf pos 1 with
        | some t => mk t pos
        | none => .unjudged
    | .endOfLine =>
      if pos < le then .span pos le
      else if forCopy || pos ≥ len then .nothing
      else match charTargetFwd S buf pos 1 with
        | some t => mk pos t
        | none => .unjudged
    | .backwardWord n d =>
      if n == 0 then .unjudged
      else match wordTargetBwd S U buf pos d n with
        | some t => mk t pos
        | none => .nothing
    | .forwardWord n a d =>
      if n == 0 || a == .beforeEnd then .unjudged
      else match wordTargetFwd S U buf pos a d n false with
        | some t => mk pos t
        | none => .nothing
    | .viCharSearch n cs =>
      if n == 0 then .unjudged
      else match cs with
        | .forward c => match occFwd S buf pos c n with
          | some p => mk pos (p + c.utf8Size)
          | none => .unjudged
        | .forwardBefore c => match occFwd S buf pos c n with
          | some p => mk pos p
          | none => .unjudged
        | .backward c => match occBwd buf pos c n with
          | some p => mk p pos
          | none => .unjudged
        | .backwardAfter c => match charSearchTarget S buf pos cs n with
          | some t => mk t pos
          | none => .unjudged
    | .viFirstPrint =>
      match firstPrintTarget S U buf pos with
      | none => .unjudged
      | some fp => if fp < pos then .span fp pos else if pos < fp then .span pos fp else .nothing
    | .backwardChar n =>
      if n == 0 then .unjudged
      else match charTargetBwd S buf pos n with
        | some t => mk t pos
        | none => .unjudged
    | .forwardChar n =>
      if n == 0 then .unjudged
      else match charTargetFwd S buf pos n with
        | some t => mk pos t
        | none => .unjudged
    | .lineUp n =>
      if n == 0 then .unjudged
      else if ls == 0 then .nothing
      else
        let (a, b) := linesSpan buf (upStart buf n ls) le forCopy
        mk a b
    | .lineDown n =>
      if n == 0 then .unjudged
      else if le ≥ len then .nothing
      else
        let (a, b) := linesSpan buf ls (downEnd buf n le) forCopy
        mk a b
    | .wholeBuffer => mk 0 len
    | .beginningOfBuffer => mk 0 pos
    | .endOfBuffer => mk pos len

def removeSpan (buf : Text) (a b : Nat) : Option (Text × Text) :=
  match split3 buf a b with
  | .ok (x, y, z) => some (x ++ z, y)
  | .error _ => none

def killedText : List Notif → Text
  | [] => []
  | .del _ s _ :: ns => s ++ killedText ns
  | _ :: ns => killedText ns

/-- a kill with movement `mvt` must remove exactly the span, report exactly that text, and leave the
    cursor at the span start -/
def checkKill (S : Segmenter) (U : UData) (old : LB) (mvt : Movement) (buf : Text) (pos : Nat)
    (ns : List Notif) : Option String :=
  match spanOf S U old.buf old.pos mvt false with
  | .unjudged => none
  | .nothing => if buf != old.buf then some "killed-but-span-empty" else none
  | .span a b =>
    match removeSpan old.buf a b with
    | none => none
    | some (buf', txt) =>
      if buf != buf' then some "kill-span"
      else if killedText ns != txt then some "kill-reported-text"
      else if pos != a then some "kill-cursor" else none

def checkCopy (S : Segmenter) (U : UData) (old : LB) (mvt : Movement) (r : Ret) : Option String :=
  match spanOf S U old.buf old.pos mvt true with
  | .unjudged => none
  | .nothing => if r != .optText none && r != .optText (some []) then some "copied-but-span-empty" else none
  | .span a b =>
    match removeSpan old.buf a b with
    | none => none
    | some (_, txt) => if r != .optText (some txt) then some "copy-span" else none

def checkPos (target : Option Nat) (old : LB) (pos : Nat) : Option String :=
  match target with
  | some t => if pos != t then some "motion-target" else none
  | none => if pos != old.pos then some "motion-moved-without-target" else none

/-- index of the line containing `p` -/
def lineNo (buf : Text) (p : Nat) : Nat :=
  match splitAt? buf p with
  | some (pre, _) => (pre.filter (· == '\n')).length
  | none => 0

/-- vertical motion: lands inside the line `n` lines above/below (or the first/last line) -/
def checkVertical (old : LB) (n : Nat) (up : Bool) (pos : Nat) : Option String :=
  if n == 0 then none
  else
    let cur := lineNo old.buf old.pos
    let last := lineNo old.buf (blen old.buf)
    if up && cur == 0 then (if pos != old.pos then some "line-up-on-first-line" else none)
    else if !up && cur == last then (if pos != old.pos then some "line-down-on-last-line" else none)
    else
      let want := if up then cur - min n cur else min (cur + n) last
      if !boundaryB old.buf pos then none
      else if lineNo old.buf pos != want then some "vertical-wrong-line" else none

/-! ### vertical motion: destination line and display column -/

/-- display column of byte offset `p`: the display width of the text between the start of the line
    containing `p` and `p`, plus the prompt width when that line is the first line (the prompt is
    printed in front of the first line only).  0 when `p` is not a character boundary. -/
def displayCol (U : UData) (buf : Text) (p promptCol : Nat) : Nat :=
  let ls := lineStartOf buf p
  match slice buf ls p with
  | .ok cur => U.width cur + (if ls = 0 then promptCol else 0)
  | .error _ => 0

/-- the line a vertical motion by `n` lines goes to, as `(start, end)` (`end` = offset of its line
    break, or the buffer end): the n-th line above / below the line containing `pos`, or the first /
    last line when there are fewer; `none` when the cursor already is on the first / last line. -/
def verticalDest (buf : Text) (pos n : Nat) (up : Bool) : Option (Nat × Nat) :=
  if up then
    if lineStartOf buf pos = 0 then none
    else
      let s := upStart buf n (lineStartOf buf pos)
      some (s, lineEndOf buf s)
  else
    if lineEndOf buf pos ≥ blen buf then none
    else
      let e := downEnd buf n (lineEndOf buf pos)
      some (lineStartOf buf e, e)

/-- where a vertical motion lands in its destination line `[ds, de)`: the FIRST cluster boundary of that
    line (its start and its end included) whose display column is at or right of the display column `c`
    the cursor came from; the line end when there is none (line too short).  So: the boundary at
    exactly column `c` when there is one (the first of them when zero-width clusters follow it); when a
    wide cluster straddles column `c`, the boundary just after that cluster (as Emacs' `move-to-column`
    does); the line start when the prompt already pushes it right of `c`. -/
def verticalTarget (S : Segmenter) (U : UData) (buf : Text) (ds de : Nat) (line : Text) (promptCol c : Nat) : Nat :=
  ((bounds ds (S.seg line)).find? (fun q => displayCol U buf q promptCol ≥ c)).getD de

/-- vertical motion keeps the display column: `none` = satisfied or not judged, else a reason.
    Counts of 0 are not judged.  Without a destination line the cursor must not move.  Otherwise the
    new cursor must be `verticalTarget` of the destination line for the display column of the old cursor. -/
def checkVerticalCol (S : Segmenter) (U : UData) (old : LB) (n : Nat) (up : Bool) (promptCol pos : Nat) :
    Option String :=
  if n == 0 then none
  else
    match verticalDest old.buf old.pos n up with
    | none => if pos != old.pos then some "vertical-moved-without-destination" else none
    | some (ds, de) =>
      match slice old.buf ds de with
      | .error _ => none
      | .ok line =>
        let c := displayCol U old.buf old.pos promptCol
        if pos != verticalTarget S U old.buf ds de line promptCol c then some "vertical-wrong-column" else none

/-- `edit_word`: the next word (maximal run of alphanumeric clusters at or after the cursor) is
    replaced by its case-mapped form, nothing else changes, cursor after it -/
def checkEditWord (S : Segmenter) (U : UData) (old : LB) (a : WordAction) (buf : Text) (pos : Nat) :
    Option String :=
  match splitAt? old.buf old.pos with
  | none => none
  | some (pre, suf) =>
    let gs := S.seg suf
    let skip := gs.takeWhile (fun g => !g.all U.alnum)
    let rest := (gs.drop skip.length).flatten
    let word := ((S.seg rest).takeWhile (fun g => g.all U.alnum)).flatten
    if word.isEmpty then (if buf != old.buf then some "edit-word-no-word" else none)
    else
      let post := rest.drop word.length
      let mapped := match a with
        | .uppercase => word.flatMap U.upper
        | .lowercase => word.flatMap U.lower
        | .capitalize =>
          match (S.seg word).head? with
          | some g => g.flatMap U.upper ++ (word.drop g.length).flatMap U.lower
          | none => word
      let want := pre ++ skip.flatten ++ mapped ++ post
      if buf != want then some "edit-word-range"
      else if pos != blen (pre ++ skip.flatten ++ mapped) then some "edit-word-cursor" else none

/-- `transpose_chars`: the cluster before the cursor and the cluster at the cursor (the last two
    clusters when the cursor is at the end) are exchanged -/
def checkTransposeChars (S : Segmenter) (old : LB) (buf : Text) : Option String :=
  if old.pos == 0 || (S.seg old.buf).length < 2 then (if buf != old.buf then some "transpose-chars-changed" else none)
  else
    let p := if old.pos == blen old.buf then (charTargetBwd S old.buf old.pos 1).getD old.pos else old.pos
    match splitAt? old.buf p with
    | none => none
    | some (pre, suf) =>
      match (S.seg pre).getLast?, (S.seg suf).head? with
      | some g1, some g2 =>
        let want := pre.take (pre.length - g1.length) ++ g2 ++ g1 ++ suf.drop g2.length
        if buf != want then some "transpose-chars" else none
      | _, _ => none

def joinNl : List Text → Text
  | [] => []
  | [l] => l
  | l :: ls => l ++ '\n' :: joinNl ls

/-- `indent` / dedent: exactly the lines meeting the movement's range get `amount` blanks in front
    (lose up to `amount` bytes of leading white space, whole characters only) -/
def checkIndent (S : Segmenter) (U : UData) (old : LB) (mvt : Movement) (amount : Nat) (dedent : Bool)
    (buf : Text) : Option String :=
  let b := old.buf
  let pos := old.pos
  let rng : Option (Nat × Nat) := match mvt with
    | .wholeLine | .beginningOfLine | .viFirstPrint | .endOfLine | .backwardChar _ | .forwardChar _
    | .viCharSearch _ _ => some (pos, pos)
    | .endOfBuffer => some (pos, blen b)
    | .wholeBuffer => some (0, blen b)
    | .beginningOfBuffer => some (0, pos)
    | .backwardWord n d =>
      if n == 0 then none else some ((wordTargetBwd S U b pos d n).getD pos, pos)
    | .forwardWord n a d =>
      if n == 0 || a == .beforeEnd then none else some (pos, (wordTargetFwd S U b pos a d n true).getD pos)
    | .lineUp n =>
      if n == 0 then none
      else if lineStartOf b pos == 0 then some (pos, pos) else some (upStart b n (lineStartOf b pos), pos)
    | .lineDown n =>
      if n == 0 then none
      else if lineEndOf b pos ≥ blen b then some (pos, pos)
      else
        -- an empty last line of the buffer is not part of the range
        let e := downEnd b n (lineEndOf b pos)
        if e == blen b && b.getLast? == some '\n' then some (pos, e - 1) else some (pos, e)
  match rng with
  | none => none
  | some (a, e) =>
    let s := lineStartOf b a
    let e' := lineEndOf b e
    match split3 b s e' with
    | .error _ => none
    | .ok (x, y, z) =>
      let f : Text → Text := fun line =>
        if dedent then
          let wsLen := blen line - blen (line.dropWhile U.ws)
          match splitAtByte line (floorBoundary line (min wsLen amount)) with
          | some (_, rest) => rest
          | none => line
        else List.replicate amount ' ' ++ line
      let want := x ++ joinNl ((LB.splitNl y).map f) ++ z
      if buf != want then some "indent-lines" else none

/-- the C04 verdict on one observed step (`none` = satisfied or not judged) -/
def c04Step (S : Segmenter) (U : UData) (old : LB) (op : Op) (o : Outcome) : Option String :=
  if !wfB old then none
  else
    match o with
    | none => none      -- panics are C03's business
    | some (buf, pos, r, ns) =>
      let b := old.buf
      let p := old.pos
      match op with
      | .moveForward n => if n == 0 then none else checkPos (charTargetFwd S b p n) old pos
      | .moveBackward n => if n == 0 then none else checkPos (charTargetBwd S b p n) old pos
      | .nextPos n =>
        if n == 0 then none
        else if p == blen b then (if r != .optNat none then some "next-pos-at-end" else none)
        else if r != .optNat (charTargetFwd S b p n) then some "next-pos" else none
      | .moveBufferStart => checkPos (some 0) old pos
      | .moveBufferEnd => checkPos (some (blen b)) old pos
      | .moveHome => checkPos (some (lineStartOf b p)) old pos
      | .moveToFirstPrint => checkPos (firstPrintTarget S U b p) old pos
      | .moveEnd => checkPos (some (lineEndOf b p)) old pos
      | .moveToPrevWord d n => if n == 0 then none else checkPos (wordTargetBwd S U b p d n) old pos
      | .moveToNextWord a d n =>
        if n == 0 || (a == .beforeEnd && d == .emacs) then none
        else checkPos (wordTargetFwd S U b p a d n true) old pos
      | .moveToLineUp n pc => (checkVertical old n true pos).orElse (fun _ => checkVerticalCol S U old n true pc pos)
      | .moveToLineDown n pc => (checkVertical old n false pos).orElse (fun _ => checkVerticalCol S U old n false pc pos)
      | .moveTo cs n =>
        if n == 0 then none
        else match charSearchTarget S b p cs n with
          | some t => checkPos (some t) old pos
          | none => none
      | .delete n => checkKill S U old (.forwardChar n) buf pos ns
      | .backspace n => checkKill S U old (.backwardChar n) buf pos ns
      | .killLine => checkKill S U old .endOfLine buf pos ns
      | .killBuffer => checkKill S U old .endOfBuffer buf pos ns
      | .discardLine => checkKill S U old .beginningOfLine buf pos ns
      | .discardBuffer => checkKill S U old .beginningOfBuffer buf pos ns
      | .deletePrevWord d n => checkKill S U old (.backwardWord n d) buf pos ns
      | .deleteWord a d n => checkKill S U old (.forwardWord n a d) buf pos ns
      | .deleteTo cs n => checkKill S U old (.viCharSearch n cs) buf pos ns
      | .kill m => checkKill S U old m buf pos ns
      | .copy m => checkCopy S U old m r
      | .editWord a => checkEditWord S U old a buf pos
      | .transposeChars => checkTransposeChars S old buf
      | .indent m k d => checkIndent S U old m k d buf
      | _ => none

end Rl.Spec
