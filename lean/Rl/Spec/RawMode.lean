/-
  Executable statement of C16 on what the *implementation* did (target `raw`, see
  harness/src/rawmode.rs): for every read that ended while the terminal was still connected, the
  settings read back with `tcgetattr` after the read are identical to those read before it, and if
  a bracketed-paste switch was written during the read the last one written is OFF.
  Independent of the model: only the observation strings are compared.
-/
namespace Rl.Spec.RawMode

structure ReadObs where
  before : String
  during : String
  after : String
  paste : String
  outcome : String
deriving Repr

def field (pre : String) (tok : String) : Option String :=
  if tok.startsWith pre then some (tok.drop pre.length).toString else none

def parseRead (toks : List String) : Option ReadObs :=
  match toks with
  | [b, d, a, p, r] => do
    pure { before := ← field "b=" b, during := ← field "d=" d, after := ← field "a=" a,
           paste := ← field "p=" p, outcome := ← field "r=" r }
  | _ => none

def splitReads : List String → List (List String)
  | [] => [[]]
  | t :: rest =>
    match splitReads rest with
    | cur :: more => if t == "//" then [] :: cur :: more else (t :: cur) :: more
    | [] => [[t]]

def parseImpl (impl : String) : Option (List ReadObs) :=
  (splitReads (impl.splitOn " ")).mapM parseRead

/-- `none` = the property holds on this read -/
def checkRead (k : Nat) (o : ReadObs) : Option String :=
  if (o.outcome.splitOn "wedged").length > 1 then some s!"read {k}: wedged"
  else if o.outcome.startsWith "hup+" then none        -- no terminal left to restore (C17's exit)
  else if o.after == "gone" || o.before == "gone" then some s!"read {k}: settings unreadable"
  else if o.after != o.before then some s!"read {k}: settings-not-restored:{o.outcome}"
  else if o.paste != "-" && !o.paste.endsWith "l" then some s!"read {k}: bracketed-paste-left-on:{o.paste}"
  else none

def oracle (rs : List ReadObs) : String :=
  let rec go (k : Nat) : List ReadObs → Option String
    | [] => none
    | r :: rest => match checkRead k r with
      | some w => some w
      | none => go (k + 1) rest
  match go 1 rs with
  | none => "ok"
  | some w => "fail:" ++ w.replace " " "_"

end Rl.Spec.RawMode
