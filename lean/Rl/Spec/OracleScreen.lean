/-
  C02 oracle, which prompt is on display: the read's own prompt, or — between the key that starts an
  incremental search and the key that ends it — the search prompt `(reverse-i-search)`text': ` /
  `(failed reverse-i-search)`text': `.  Computed from the callbacks (keys, mode, argument) and the stored history
  with the declarative nearest-match search of C09 (`Spec.find`), the same session tracking as the C08 oracle;
  the editor model is not consulted.  Sessions are tracked in emacs mode without numeric argument; anything else
  inside a search (`none`) is not judged from there on.
-/
import Rl.Spec.OracleSearch
namespace Rl.Spec
open Rl Rl.Wire

structure ScreenCb where
  line : Text
  pos : Nat
  hint : Option Text
  mode : String
  keys : List KeyEvent
  n : Nat
  positive : Bool
deriving Repr

def searchPrompt (buf : Text) (ok : Bool) : Text :=
  (if ok then "(reverse-i-search)`" else "(failed reverse-i-search)`").toList ++ buf ++ "': ".toList

structure PromptSt where
  buf : Text
  idx : Nat
  dir : Dir
  ok : Bool

/-- the prompt on display at each callback; `none` = not judged -/
def promptsOnDisplay (own : Text) (hist : List Text) (cbs : List ScreenCb) : List (Option Text) :=
  let len := hist.length
  -- `st.idx` is the entry on display; a search starts at `start` (the entry itself for a typed character,
  -- its neighbour for a repeated search key) and moves `idx` only when it hits
  let search (st : PromptSt) (start : Nat) : PromptSt :=
    match Spec.find true hist st.buf start st.dir with
    | some (i, _, _) => { st with idx := i, ok := true }
    | none => { st with ok := false }
  let rec go (cur : Option PromptSt) (dead : Bool) : List ScreenCb → List (Option Text)
    | [] => []
    | cb :: rest =>
      if dead then none :: go cur true rest
      else
        match cur with
        | none =>
          let next : Option PromptSt × Bool :=
            match cb.keys with
            | [key] =>
              if key == ⟨.char 'R', 8⟩ && len > 0 then
                if cb.mode == "e" then (some { buf := [], idx := len - 1, dir := .reverse, ok := true }, false)
                else (none, true)
              else (none, false)
            | _ => (none, false)
          some own :: go next.1 next.2 rest
        | some st =>
          if cb.n != 1 || !cb.positive || cb.mode != "e" then none :: go cur true rest
          else
            match cb.keys with
            | [key] =>
              let next : Option PromptSt :=
                if isPlainChar key then
                  match key.code with
                  | .char c => some (search { st with buf := st.buf ++ [c] } st.idx)
                  | _ => some st
                else if key == ⟨.backspace, 0⟩ || key == ⟨.char 'H', 8⟩ then some { st with buf := st.buf.dropLast }
                else if key == ⟨.char 'R', 8⟩ then
                  if st.idx > 0 then some (search { st with dir := .reverse } (st.idx - 1))
                  else some { st with dir := .reverse, ok := false }
                else if key == ⟨.char 'S', 8⟩ then
                  if st.idx + 1 < len then some (search { st with dir := .forward } (st.idx + 1))
                  else some { st with dir := .forward, ok := false }
                else none   -- abort or any other command: the search ends, the own prompt is restored
              some (searchPrompt st.buf st.ok) :: go next false rest
            | _ => none :: go cur true rest
  go none false cbs

end Rl.Spec
