/-
  Declarative specification for the history file (properties C10 and C12), written from the
  property texts, not from the code.  It is an *oracle*: it judges the observations the real
  implementation produced for a request of target `hf`.

  What it tracks is the *logical* content: the entries the live history holds (`mem`), the
  entries accepted in this session and not yet written (`unsaved`), and the entries the file
  holds (`disk`).  It never looks at the escaping scheme; the only thing it knows about the
  format is "one entry per line" (to count the complete lines of a torn file).

  C10: loading the file into a fresh history with the same settings yields the entries that
       were written (save = the history, append = the file's entries followed by the new ones,
       under the same acceptance/size rules), byte for byte; a legacy file yields its non-empty
       lines verbatim.
  C12: after the file was cut at ≥ 4 bytes the load does not panic, returns ok or invalid-data,
       and yields the written entries in order, complete ones intact, at most the last one cut
       short (a prefix of the written entry), none invented; arbitrary bytes never panic.
  Where the property texts determine nothing (load into a non-empty history, files changed
  behind a live session) the oracle abstains (`mem`/`disk` unknown) and only forbids panics.
-/
import Rl.Text
import Rl.History
import Rl.Spec.History
import Rl.HistFile
namespace Rl.Spec.HF
open Rl Rl.Spec

structure St where
  max : Nat
  isp : Bool
  idp : Bool
  /-- entries of the live history; `none` = not determined by the property text -/
  mem : Option (List Text) := some []
  /-- accepted in this session since its last write -/
  unsaved : List Text := []
  /-- `none` = unknown, `some none` = no file, `some (some es)` = a file holding `es` -/
  disk : Option (Option (List Text)) := some none
  /-- the file bytes as last observed by `raw` (forgotten at every write) -/
  lastRaw : Option (List Atom) := none
  /-- the file is a prefix (≥ 4 bytes) of a file written with these entries; number of complete
      entry lines in the prefix when the bytes had been observed -/
  torn : Option (List Text × Option Nat) := none
  /-- a torn file has just been loaded into a fresh history; judged at the next `dump` -/
  pending : Option (List Text × Option Nat) := none

/-- the acceptance / size rule of the store (C09's declarative rule) -/
def accept (ws : Char → Bool) (s : St) (mem : List Text) (l : Text) : Option (List Text) :=
  if refused ws { entries := mem, max := s.max, ignoreSpace := s.isp, ignoreDups := s.idp } l then none
  else some (takeLast s.max (mem ++ [l]))

def addsTo (ws : Char → Bool) (s : St) (mem : List Text) (ls : List Text) : List Text :=
  ls.foldl (fun m l => (accept ws s m l).getD m) mem

/-- number of line feeds among the first `k` bytes -/
def newlinesWithin : List Atom → Nat → Nat
  | [], _ => 0
  | a :: t, k =>
    if a.size ≤ k then (if a = .chr '\n' then 1 else 0) + newlinesWithin t (k - a.size) else 0

def fileSize (f : List Atom) : Nat := (f.map Atom.size).sum

/-- split a text at line feeds; a final line without line feed counts, a final line feed does
    not open another line -/
def textLines : Text → List Text
  | [] => []
  | c :: t =>
    if c = '\n' then [] :: textLines t
    else match textLines t with
      | [] => [[c]]
      | l :: rest => (c :: l) :: rest

/-- a legacy file in the sense of the property: valid text, no carriage returns, first line not
    the version header -/
def legacyLines (f : List Atom) : Option (List Text) :=
  match lineText f with
  | none => none
  | some t =>
    if t.contains '\r' then none
    else
      let ls := textLines t
      if ls.head? = some header then none else some ls

/-- the relation between what a torn file yields and what had been written -/
def tornOk (got written : List Text) (complete : Option Nat) : Bool :=
  let n := got.length
  (got == written.take n
    || (n ≥ 1 && got.dropLast == written.take (n - 1)
        && (match got.getLast?, written[n - 1]? with
            | some g, some w => g.isPrefixOf w
            | _, _ => false)))
  && (match complete with
      | none => true
      | some m => n ≥ m && got.take m == written.take m)

def noPanic : FObs → Bool
  | .status .panic => false
  | _ => true

/-- judge one operation with the implementation's observation -/
def judge (ws : Char → Bool) (s : St) : FOp → FObs → Except String St
  | .add l, .bool b =>
    match s.mem with
    | none => pure s
    | some m =>
      match accept ws s m l with
      | none => if b then throw "add:accepted-a-line-the-rules-refuse" else pure s
      | some m' =>
        if !b then throw "add:refused-a-line-the-rules-accept"
        else pure { s with mem := some m', unsaved := takeLast s.max (s.unsaved ++ [l]) }
  | .fresh, .unit => pure { s with mem := some [], unsaved := [], pending := none }
  | .freshLoad, .status st =>
    if st = .panic then throw "load:panic" else
    match s.disk with
    | some none =>
      if st ≠ .io then throw "load:no-file-but-no-io-error"
      else pure { s with mem := some [], unsaved := [], pending := none }
    | some (some es) =>
      if st ≠ .ok then throw "load:error-on-a-file-this-library-wrote"
      else pure { s with mem := some es, unsaved := [], pending := none }
    | none =>
      match s.torn with
      | some t =>
        if st = .ok || st = .invalidData then pure { s with mem := none, unsaved := [], pending := some t }
        else throw "load:torn-file-neither-ok-nor-invalid-data"
      | none => pure { s with mem := none, unsaved := [], pending := none }
  | .load, .status st =>
    if st = .panic then throw "load:panic" else pure { s with mem := none, pending := none }
  | .save, .status st =>
    if st = .panic then throw "save:panic" else
    match s.mem with
    | none => pure { s with disk := none, lastRaw := none, torn := none }
    | some m =>
      if st ≠ .ok then throw "save:error"
      else if s.unsaved.isEmpty then pure s
      else pure { s with disk := some (some m), unsaved := [], lastRaw := none, torn := none }
  | .append, .status st =>
    if st = .panic then throw "append:panic" else
    match s.mem, s.disk with
    | some _, some d =>
      if st ≠ .ok then throw "append:error"
      else if s.unsaved.isEmpty then pure s
      else pure { s with disk := some (some (addsTo ws s (d.getD []) s.unsaved)), unsaved := [],
                         lastRaw := none, torn := none }
    | some _, none =>
      -- unknown file: the append may legitimately fail (foreign bytes); afterwards still unknown
      pure { s with unsaved := if st = .ok then [] else s.unsaved, lastRaw := none, torn := none }
    | none, _ => pure { s with disk := none, lastRaw := none, torn := none }
  | .raw, .file f =>
    match s.disk, f with
    | some none, some _ => throw "raw:file-exists-though-nothing-was-written"
    | some (some _), none => throw "raw:file-missing-after-a-write"
    | _, _ => pure { s with lastRaw := f }
  | .dump, .all es =>
    match s.pending with
    | some (written, complete) =>
      if tornOk es written complete then pure { s with pending := none }
      else throw "torn:entries-are-not-the-written-ones-with-the-last-cut-short"
    | none =>
      match s.mem with
      | some m => if es = m then pure s else throw "entries-differ-from-what-was-written"
      | none => pure s
  | .rm, .unit =>
    pure { s with disk := some none, lastRaw := none, torn := none,
                  mem := if s.mem = some [] then some [] else none }
  | .cut k, .unit =>
    match s.disk with
    | some none => pure s
    | some (some es) =>
      if k < 4 then pure { s with disk := none, torn := none, lastRaw := none }
      else
        match s.lastRaw with
        | some f =>
          if k ≥ fileSize f then pure s
          else pure { s with disk := none, torn := some (es, some (newlinesWithin f k - 1)), lastRaw := none }
        | none => pure { s with disk := none, torn := some (es, none) }
    | none =>
      match s.torn with
      | some (es, _) => if k < 4 then pure { s with torn := none, lastRaw := none }
                        else pure { s with torn := some (es, none), lastRaw := none }
      | none => pure { s with lastRaw := none }
  | .put f, .unit =>
    pure { s with lastRaw := none, torn := none,
                  disk := (legacyLines f).map (fun ls => some (addsTo ws s [] ls)) }
  | _, _ => throw "shape"

def judgeAll (ws : Char → Bool) : St → List FOp → List FObs → Nat → String
  | _, [], [], _ => "ok"
  | s, op :: ops, o :: os, i =>
    if !noPanic o then s!"fail:{i}:panic" else
    match judge ws s op o with
    | .ok s' => judgeAll ws s' ops os (i + 1)
    | .error e => s!"fail:{i}:{e}"
  | _, _, _, i => s!"fail:{i}:shape"

def verdict (ws : Char → Bool) (max : Nat) (isp idp : Bool) (ops : List FOp) (obs : List FObs) : String :=
  judgeAll ws { max, isp, idp } ops obs 0

end Rl.Spec.HF
