/- Model of `src/undo.rs` (`Changeset`): the undo log as a listener of line-buffer notifications. -/
import Rl.Text
import Rl.Seg
import Rl.Types
import Rl.LineBuffer
namespace Rl

inductive Change
  | begin | end_
  | insert (idx : Nat) (text : Text)
  | delete (idx : Nat) (text : Text)
  | replace (idx : Nat) (old new : Text)
deriving DecidableEq, Repr

/-- `undos` has the most recent change FIRST (the Rust `Vec` grows at the end; `last()` = `head?`) -/
structure Changeset where
  level : Nat
  undos : List Change
  redos : List Change
deriving DecidableEq, Repr

namespace Changeset

def new : Changeset := { level := 0, undos := [], redos := [] }

/-- `begin`: returns the mark (stack height before the marker) -/
def begin (c : Changeset) : Changeset × Nat :=
  ({ level := c.level + 1, undos := .begin :: c.undos, redos := [] }, c.undos.length)

/-- `end`: closes *all* open levels -/
def endLoop : Nat → List Change → Bool → List Change × Bool
  | 0, us, t => (us, t)
  | n + 1, us, t =>
    match us with
    | .begin :: rest => endLoop n rest t
    | _ => endLoop n (.end_ :: us) true

def end_ (c : Changeset) : Changeset × Bool :=
  let (us, touched) := endLoop c.level c.undos false
  ({ level := 0, undos := us, redos := [] }, touched)

/-- `insert` (one char), merging consecutive alphanumeric insertions -/
def insertChar (alnum : Char → Bool) (c : Changeset) (idx : Nat) (ch : Char) : Changeset :=
  let c := { c with redos := [] }
  match c.undos with
  | .insert i t :: rest =>
    if alnum ch && i + blen t == idx then { c with undos := .insert i (t ++ [ch]) :: rest }
    else { c with undos := .insert idx [ch] :: c.undos }
  | _ => { c with undos := .insert idx [ch] :: c.undos }

def insertStr (c : Changeset) (idx : Nat) (s : Text) : Changeset :=
  let c := { c with redos := [] }
  if s.isEmpty then c else { c with undos := .insert idx s :: c.undos }

/-- `single_char`: exactly one grapheme, all of whose chars are alphanumeric -/
def singleChar (S : Segmenter) (alnum : Char → Bool) (s : Text) : Bool :=
  match S.seg s with
  | [g] => g.all alnum
  | _ => false

def delete (S : Segmenter) (alnum : Char → Bool) (c : Changeset) (indx : Nat) (s : Text) : Changeset :=
  let c := { c with redos := [] }
  if s.isEmpty then c
  else
    match c.undos with
    | .delete i t :: rest =>
      if singleChar S alnum s && (i == indx || i == indx + blen s) then
        if i == indx then { c with undos := .delete i (t ++ s) :: rest }
        else { c with undos := .delete indx (s ++ t) :: rest }
      else { c with undos := .delete indx s :: c.undos }
    | _ => { c with undos := .delete indx s :: c.undos }

def replace (c : Changeset) (indx : Nat) (old new : Text) : Changeset :=
  let c := { c with redos := [] }
  match c.undos with
  | .replace i o n :: rest =>
    if i + blen n == indx then { c with undos := .replace i (o ++ old) (n ++ new) :: rest }
    else { c with undos := .replace indx old new :: c.undos }
  | _ => { c with undos := .replace indx old new :: c.undos }

/-- the listener: one line-buffer notification -/
def onNotif (S : Segmenter) (alnum : Char → Bool) (c : Changeset) : Notif → Changeset
  | .insChar i ch => c.insertChar alnum i ch
  | .insStr i s => c.insertStr i s
  | .del i s _ => c.delete S alnum i s
  | .repl i o n => c.replace i o n
  | .startKill | .stopKill => c

def onNotifs (S : Segmenter) (alnum : Char → Bool) (c : Changeset) (ns : List Notif) : Changeset :=
  ns.foldl (onNotif S alnum) c

/-- `truncate(len)`: discards the changes above the mark together with the groups they opened -/
def truncate (c : Changeset) (len : Nat) : Changeset :=
  let dropped := c.undos.take (c.undos.length - len)
  let begins := (dropped.filter (· == .begin)).length
  let ends := (dropped.filter (· == .end_)).length
  { c with undos := c.undos.drop (c.undos.length - len), level := (c.level + ends) - begins }

/-- `Changeset::truncate(len)` as the abort paths call it (repair of D48): when every group was closed
    (`end()`, by a key that left vi insert mode inside the sub-loop) the `End` markers above `len` that
    close groups opened below it are cut away too, so these groups are closed again afterwards
    (`truncate` above is the cut itself) -/
def truncateClosed (c : Changeset) (len : Nat) : Changeset :=
  if c.level == 0 then ((c.truncate len).end_).1 else c.truncate len

/-- `last_insert` -/
def lastInsert (c : Changeset) : Option Text :=
  let rec go : List Change → Option Text
    | [] => none
    | .insert _ t :: _ => some t
    | .replace _ _ n :: _ => some n
    | .end_ :: rest => go rest
    | _ => none
  go c.undos

end Changeset

/-- `Change::undo` applied to the line (with `NoListener`) -/
def Change.undoOn (S : Segmenter) (U : UData) (ch : Change) (lb : LB) : Except Panic LB :=
  match ch with
  | .begin | .end_ => .error .panic
  | .insert idx text =>
    match LB.deleteRange S U idx (idx + blen text) lb with
    | .ok (_, lb', _) => .ok lb'
    | .error e => .error e
  | .delete idx text =>
    match LB.insertStr S U idx text lb with
    | .ok (_, lb', _) =>
      match LB.setPosChecked S U (idx + blen text) lb' with
      | .ok (_, lb'', _) => .ok lb''
      | .error e => .error e
    | .error e => .error e
  | .replace idx old new =>
    match LB.replace S U idx (idx + blen new) old lb with
    | .ok (_, lb', _) => .ok lb'
    | .error e => .error e

/-- `Changeset::undo(line, n)`; `wfb` is the `waiting_for_begin` counter (pending `End` markers),
    `level` is `undo_group_level`: a `Begin` popped while no `End` is pending is the marker of a group
    that is still open (Undo requested inside it), the group is gone and the level is lowered -/
def Changeset.undoLoop (S : Segmenter) (U : UData) (n : Nat) :
    List Change → List Change → LB → Int → Nat → Bool → Nat →
      Except Panic (List Change × List Change × LB × Bool × Nat)
  | [], redos, lb, _, _, undone, level => .ok ([], redos, lb, undone, level)
  | ch :: rest, redos, lb, wfb, count, undone, level =>
    let step : Except Panic (LB × Int × Bool × Nat) :=
      match ch with
      | .begin => if 0 < wfb then .ok (lb, wfb - 1, undone, level) else .ok (lb, wfb, undone, level - 1)
      | .end_ => .ok (lb, wfb + 1, undone, level)
      | _ => match ch.undoOn S U lb with
             | .ok lb' => .ok (lb', wfb, true, level)
             | .error e => .error e
    match step with
    | .error e => .error e
    | .ok (lb', wfb', undone', level') =>
      let redos' := ch :: redos
      if wfb' ≤ 0 then
        let count' := count + 1
        if count' ≥ n then .ok (rest, redos', lb', undone', level')
        else Changeset.undoLoop S U n rest redos' lb' wfb' count' undone' level'
      else Changeset.undoLoop S U n rest redos' lb' wfb' count undone' level'

def Changeset.undo (S : Segmenter) (U : UData) (c : Changeset) (lb : LB) (n : Nat) :
    Except Panic (Changeset × LB × Bool) :=
  match Changeset.undoLoop S U n c.undos c.redos lb 0 0 false c.level with
  | .ok (us, rs, lb', undone, level) => .ok ({ level := level, undos := us, redos := rs }, lb', undone)
  | .error e => .error e

end Rl
