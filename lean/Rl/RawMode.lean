/-
  Model of what a read does to the terminal's line settings (property C16).

  Transliterated code:
  * `src/tty/unix.rs` `termios_::enable_raw_mode` / `termios_::disable_raw_mode` (default build: the
    `nix` wrapper, not the `termios` feature), `PosixTerminal::enable_raw_mode`, `PosixMode` and its
    `RawMode::disable_raw_mode`;
  * `src/lib.rs` `struct Guard` + `impl Drop`, `readline_with` (terminal branch) and the
    `Cmd::Suspend` branch of `readline_edit`.

  `Termios` is `libc::termios` on Linux (four flag words, `c_line`, `c_cc`, the two speeds).
  `NixTermios` is `nix::sys::termios::Termios` (nix 0.29): the kernel's struct kept verbatim in
  `inner`, plus typed copies of the flag words built with `from_bits_truncate`, i.e. WITHOUT the bits
  nix has no name for (`IUCLC`, `XCASE`, `OFILL`, …).  `tcsetattr` through nix writes the typed copies
  back (`getLibc`); `From<Termios> for libc::termios` hands out `inner` untouched (`intoLibc`).

  `disableRaw` follows the tree after the repair of D27 (`fix: restore the exact termios read by
  tcgetattr when leaving raw mode`): it restores `intoLibc`.  `disableRawTyped` is the code before
  the repair (restores `getLibc`), kept for the counter-example in `Rl/Props/C16.lean`.

  The kernel is modelled as obeying: `tcsetattr` on a connected terminal stores exactly the value
  given (the pty correspondence observes this), and fails without effect once the terminal has hung
  up.  Rust's drop rules are modelled by `Flow`: a value leaves `readline_edit` either by a normal
  return (`Ok` or `Err`) or by unwinding; a live `Guard` is dropped on every way out of its scope.
-/
namespace Rl.RawMode

abbrev Flags := BitVec 32

/-- `libc::termios` -/
structure Termios where
  iflag : Flags
  oflag : Flags
  cflag : Flags
  lflag : Flags
  line : Nat
  cc : List Nat
  ispeed : Nat
  ospeed : Nat
deriving DecidableEq, Repr

/-! ### constants (Linux, asm-generic) -/

def IGNBRK : Flags := 0x1
def BRKINT : Flags := 0x2
def IGNPAR : Flags := 0x4
def PARMRK : Flags := 0x8
def INPCK : Flags := 0x10
def ISTRIP : Flags := 0x20
def INLCR : Flags := 0x40
def IGNCR : Flags := 0x80
def ICRNL : Flags := 0x100
def IUCLC : Flags := 0x200
def IXON : Flags := 0x400
def IXANY : Flags := 0x800
def IXOFF : Flags := 0x1000
def IMAXBEL : Flags := 0x2000
def IUTF8 : Flags := 0x4000

def OFILL : Flags := 0x40
def CS8 : Flags := 0x30

def ISIG : Flags := 0x1
def ICANON : Flags := 0x2
def XCASE : Flags := 0x4
def ECHO : Flags := 0x8
def IEXTEN : Flags := 0x8000

def VINTR : Nat := 0
def VQUIT : Nat := 1
def VTIME : Nat := 5
def VMIN : Nat := 6
def VSUSP : Nat := 10

/-- all bits of `nix::sys::termios::InputFlags` (every Linux input flag except `IUCLC`) -/
def inputKnown : Flags := 0x7dff
/-- all bits of `OutputFlags` (every Linux output flag except `OFILL`) -/
def outputKnown : Flags := 0xffbf
/-- all bits of `ControlFlags`: CBAUD, CSIZE, CSTOPB, CREAD, PARENB, PARODD, HUPCL, CLOCAL, CBAUDEX,
    CIBAUD, CMSPAR, CRTSCTS -/
def controlKnown : Flags := 0xd00f1fff
/-- all bits of `LocalFlags` (every Linux local flag except `XCASE`) -/
def localKnown : Flags := 0x1dffb

/-! ### the nix wrapper -/

/-- `nix::sys::termios::Termios` -/
structure NixTermios where
  inner : Termios
  inputFlags : Flags
  outputFlags : Flags
  controlFlags : Flags
  localFlags : Flags
  controlChars : List Nat
  lineDiscipline : Nat
deriving DecidableEq, Repr

/-- `impl From<libc::termios> for Termios` (what `tcgetattr` returns) -/
def NixTermios.ofLibc (t : Termios) : NixTermios :=
  { inner := t,
    inputFlags := t.iflag &&& inputKnown,
    outputFlags := t.oflag &&& outputKnown,
    controlFlags := t.cflag &&& controlKnown,
    localFlags := t.lflag &&& localKnown,
    controlChars := t.cc,
    lineDiscipline := t.line }

/-- `Termios::get_libc_termios` (what `tcsetattr` passes to the kernel): `inner` with the public
    fields written over it -/
def NixTermios.getLibc (n : NixTermios) : Termios :=
  { n.inner with
    iflag := n.inputFlags, oflag := n.outputFlags, cflag := n.controlFlags, lflag := n.localFlags,
    cc := n.controlChars, line := n.lineDiscipline }

/-- `impl From<Termios> for libc::termios`: `inner` as it is -/
def NixTermios.intoLibc (n : NixTermios) : Termios := n.inner

/-! ### the terminal -/

/-- an effect on the terminal that this property is about -/
inductive Eff
  | setattr (t : Termios)   -- a successful `tcsetattr`
  | pasteOn                 -- `ESC [ ? 2004 h` written
  | pasteOff                -- `ESC [ ? 2004 l` written
deriving DecidableEq, Repr

structure Term where
  termios : Termios
  /-- effects so far, oldest first -/
  log : List Eff
  /-- `PosixTerminal::raw_mode` (shared `AtomicBool`) -/
  rawFlag : Bool
  /-- false once the terminal has hung up: `tcgetattr` / `tcsetattr` / `write` fail from then on -/
  connected : Bool
deriving DecidableEq, Repr

def Term.fresh (t : Termios) : Term := { termios := t, log := [], rawFlag := false, connected := true }

/-- `tcsetattr(fd, TCSADRAIN, v)`; `false` = it failed -/
def Term.setattr (t : Term) (v : Termios) : Bool × Term :=
  if t.connected then (true, { t with termios := v, log := t.log ++ [.setattr v] }) else (false, t)

/-- `write_all(tty_out, …)` of a paste switch; `ok` = the write succeeds -/
def Term.write (t : Term) (ok : Bool) (e : Eff) : Bool × Term :=
  if t.connected && ok then (true, { t with log := t.log ++ [e] }) else (false, t)

structure Cfg where
  /-- `Config::enable_signals` -/
  enableSignals : Bool
  /-- `Config::enable_bracketed_paste` -/
  bracketedPaste : Bool
  /-- do writes of a paste switch to the (connected) terminal succeed -/
  writeOk : Bool := true
  /-- `Config::auto_add_history` -/
  autoAddHistory : Bool := false
  /-- `add_history_entry` returns `Err` (only consulted under `autoAddHistory`) -/
  historyAddFails : Bool := false
deriving DecidableEq, Repr

/-- `PosixMode` -/
structure Mode where
  termios : NixTermios
  /-- `tty_out : Option<RawFd>` is `Some` -/
  ttyOut : Bool
deriving DecidableEq, Repr

/-- the settings `termios_::enable_raw_mode` computes from the original ones -/
def rawOf (enableSignals : Bool) (original : NixTermios) : NixTermios :=
  let l := original.localFlags &&& ~~~(ECHO ||| ICANON ||| IEXTEN ||| ISIG)
  { original with
    inputFlags := original.inputFlags &&& ~~~(BRKINT ||| ICRNL ||| INPCK ||| ISTRIP ||| IXON),
    controlFlags := original.controlFlags ||| CS8,
    localFlags := if enableSignals then l ||| ISIG else l,
    controlChars := (original.controlChars.set VMIN 1).set VTIME 0 }

/-- `PosixTerminal::enable_raw_mode` on a terminal (`is_in_a_tty`); `none` = `Err` (nothing changed) -/
def enableRaw (cfg : Cfg) (t : Term) : Option Mode × Term :=
  if !t.connected then (none, t)                      -- `tcgetattr` fails
  else
    let original := NixTermios.ofLibc t.termios        -- `termios::tcgetattr(fd)?`
    let raw := rawOf cfg.enableSignals original
    match t.setattr raw.getLibc with                   -- `termios::tcsetattr(fd, TCSADRAIN, &raw)?`
    | (false, t) => (none, t)
    | (true, t) =>
      let t := { t with rawFlag := true }
      let (out, t) :=
        if !cfg.bracketedPaste then (false, t)
        else t.write cfg.writeOk .pasteOn              -- failure is only logged: `tty_out = None`
      (some { termios := original, ttyOut := out }, t)

/-- `PosixMode::disable_raw_mode`; `false` = `Err` -/
def disableRaw (m : Mode) (writeOk : Bool) (t : Term) : Bool × Term :=
  match t.setattr m.termios.intoLibc with              -- `termios_::disable_raw_mode(…)?`
  | (false, t) => (false, t)
  | (true, t) =>
    if m.ttyOut then
      match t.write writeOk .pasteOff with             -- `write_all(out, BRACKETED_PASTE_OFF)?`
      | (false, t) => (false, t)
      | (true, t) => (true, { t with rawFlag := false })
    else (true, { t with rawFlag := false })

/-- the same before the repair of D27: the typed copies are written back -/
def disableRawTyped (m : Mode) (writeOk : Bool) (t : Term) : Bool × Term :=
  match t.setattr m.termios.getLibc with
  | (false, t) => (false, t)
  | (true, t) =>
    if m.ttyOut then
      match t.write writeOk .pasteOff with
      | (false, t) => (false, t)
      | (true, t) => (true, { t with rawFlag := false })
    else (true, { t with rawFlag := false })

/-! ### the read -/

/-- the ways `readline_edit` ends -/
inductive Exit
  | line                      -- Enter on an accepted line
  | eof                       -- C-d on an empty line
  | interrupt                 -- C-c
  | invalidInput              -- undecodable input (`InvalidData`)
  | ioError                   -- an I/O error on a terminal that is still connected
  | helperError               -- an application-supplied helper returned `Err`
  | helperPanic (k : Nat)     -- a helper panicked at its k-th call (unwinding)
  | hangup                    -- the terminal went away (excluded by C16; covered by C17)
deriving DecidableEq, Repr

/-- what `readline_with` hands back -/
inductive Res
  | line | eof | interrupted | invalidData | io | helperErr | historyErr
deriving DecidableEq, Repr

/-- how control leaves a Rust function body -/
inductive Flow
  | ret (r : Res)    -- normal return of `Ok`/`Err`
  | unwind           -- a panic propagating
deriving DecidableEq, Repr

/-- one `Cmd::Suspend` round trip; `env` = settings somebody installed while the process was stopped -/
structure Suspend where
  env : Option Termios := none
deriving DecidableEq, Repr

structure Script where
  suspends : List Suspend
  exit : Exit
deriving DecidableEq, Repr

/-- the `Cmd::Suspend` branch: `original_mode.disable_raw_mode()?; tty::suspend()?;
    let _ = self.term.enable_raw_mode()?;` — `none` = the `?` left `readline_edit` with an `Err` -/
def suspendResume (cfg : Cfg) (mode : Mode) (s : Suspend) (t : Term) : Option Unit × Term :=
  match disableRaw mode cfg.writeOk t with
  | (false, t) => (none, t)
  | (true, t) =>
    -- stopped; the shell (or `stty`) may change the settings before the process is continued
    let t := match s.env with
      | some v => if t.connected then { t with termios := v } else t
      | none => t
    match enableRaw cfg t with                         -- the new `PosixMode` is discarded
    | (none, t) => (none, t)
    | (some _, t) => (some (), t)

/-- `readline_edit` as far as the terminal settings are concerned -/
def readlineEdit (cfg : Cfg) (mode : Mode) : List Suspend → Exit → Term → Flow × Term
  | s :: rest, exit, t =>
    match suspendResume cfg mode s t with
    | (none, t) => (.ret .io, t)
    | (some (), t) => readlineEdit cfg mode rest exit t
  | [], exit, t =>
    match exit with
    | .line => (.ret .line, t)
    | .eof => (.ret .eof, t)
    | .interrupt => (.ret .interrupted, t)
    | .invalidInput => (.ret .invalidData, t)
    | .ioError => (.ret .io, t)
    | .helperError => (.ret .helperErr, t)
    | .helperPanic _ => (.unwind, t)
    | .hangup => (.ret .io, { t with connected := false })

/-- `impl Drop for Guard`: `mode.disable_raw_mode()` with the result ignored -/
def dropGuard (cfg : Cfg) (mode : Mode) (t : Term) : Term := (disableRaw mode cfg.writeOk t).2

/-- `readline_with`, terminal branch.  The guard is live from `Guard(&original_mode)` on; it is
    dropped by the explicit `drop(guard)`, by the `?` after `add_history_entry`, or by unwinding. -/
def readlineWith (cfg : Cfg) (sc : Script) (t : Term) : Flow × Term :=
  match enableRaw cfg t with
  | (none, t) => (.ret .io, t)                         -- `enable_raw_mode()?`
  | (some mode, t) =>
    match readlineEdit cfg mode sc.suspends sc.exit t with
    | (.unwind, t) => (.unwind, dropGuard cfg mode t)  -- unwinding runs the guard's drop
    | (.ret user, t) =>
      if cfg.autoAddHistory && user == .line && cfg.historyAddFails then
        (.ret .historyErr, dropGuard cfg mode t)       -- `?`: the scope is left, the guard dropped
      else
        let t := dropGuard cfg mode t                  -- `drop(guard)`
        (.ret user, t)                                 -- `self.term.writeln()?` touches no setting

/-- successive reads on one editor -/
def reads (cfg : Cfg) : List Script → Term → Term
  | [], t => t
  | sc :: rest, t => reads cfg rest (readlineWith cfg sc t).2

/-- the paste switches among some effects -/
def switches (l : List Eff) : List Eff := l.filter (fun e => e == .pasteOn || e == .pasteOff)

/-! ### the line discipline in raw mode (kernel side, n_tty) -/

/-- What the reader gets for one byte typed while the settings `t` are in force and `ICANON`, `ISTRIP`,
    `IUCLC`, `IXON`, `ICRNL` are off (they are, after `rawOf`): signal characters are consumed by the
    line discipline when `ISIG` is on, CR is dropped under `IGNCR`, NL becomes CR under `INLCR`,
    0xFF is doubled under `PARMRK`. -/
def ldiscIn (t : Termios) (b : UInt8) : List UInt8 :=
  let n := b.toNat
  let isSig := t.lflag &&& ISIG != 0 && n != 0 &&
    (t.cc[VINTR]? == some n || t.cc[VQUIT]? == some n || t.cc[VSUSP]? == some n)
  if isSig then []
  else if n == 13 then (if t.iflag &&& IGNCR != 0 then [] else [b])
  else if n == 10 then (if t.iflag &&& INLCR != 0 then [13] else [b])
  else if n == 255 && t.iflag &&& PARMRK != 0 then [b, b]
  else [b]

end Rl.RawMode
