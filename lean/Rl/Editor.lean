/-
  Model of the interactive editor: `src/keymap.rs` (InputState: emacs / vi command / vi insert,
  numeric arguments, `.` redo, custom bindings), `src/command.rs` (`execute`), `src/edit.rs`
  (State), and the loops of `src/lib.rs` (`readline_edit`, `complete_line`,
  `reverse_incremental_search`).  Rendering is not modelled here (see Rl/Render.lean); what is
  kept of the refresh calls is their effect on the hint.
  One observation is emitted exactly where the real code calls a handler bound to `Event::Any`.
-/
import Rl.Text
import Rl.Seg
import Rl.Types
import Rl.Cmd
import Rl.Keys
import Rl.LineBuffer
import Rl.Undo
import Rl.KillRing
import Rl.History
import Rl.RenderOp
import Rl.Layout
namespace Rl

inductive InputMode | command | insert | replace
deriving DecidableEq, Repr

inductive Verdict
  | incomplete | invalid (msg : Bool) | valid (msg : Bool) | error | panic
deriving DecidableEq, Repr

/-- A history back end whose indices may have holes (`SQLiteHistory`: the index of an entry is its
    `rowid - 1`; `INSERT OR REPLACE` under the unique index and `set_max_len` delete rows, row ids are
    never reused).  `idx` is the index of each entry of `EdCfg.hist` (same length, strictly
    increasing); `len` is what `History::len()` answers (the largest row id seen, which is NOT the
    number of entries). -/
structure RowStore where
  idx : List Nat
  len : Nat
deriving Repr, DecidableEq

/-- configuration and application-supplied helpers (functions of the text) -/
structure EdCfg where
  vi : Bool
  listCompletion : Bool := false
  withPrinter : Bool := false
  /-- terminal width and the default prompt (for `layout.prompt_size.col`, used by line up/down) -/
  cols : Nat := 80
  prompt : Text := ['>', ' ']
  indentSize : Nat := 2
  hasHelper : Bool := false
  hasCompleter : Bool := false
  /-- `(start, candidates)` for the text before the cursor -/
  completer : Text → Nat → Nat × List Text := fun _ _ => (0, [])
  validator : Text → Verdict := fun _ => .valid false
  hinter : Text → Nat → Option Text := fun _ _ => none
  /-- the hinter panics at its k-th call (application-supplied helpers may panic: C16) -/
  hinterPanicAt : Option Nat := none
  /-- hinter calls made by earlier reads on the same editor (the helper outlives a read) -/
  hintCallsBase : Nat := 0
  /-- `highlight_char` of the installed highlighter (only its effect on `s.highlight_char` matters here) -/
  highlightChar : Text → Nat → Bool := fun _ _ => false
  binds : List (List KeyEvent × Cmd) := []
  /-- the stored history entries, oldest first -/
  hist : List Text := []
  /-- `none`: the index of an entry is its position in `hist` (memory / file history);
      `some r`: the indices are `r.idx` (SQLite history).  Recall (`edit_history_next`,
      `edit_history`) goes through `histLen` / `histGetDir`; the searches (`memHist`) are modelled
      for `none` only. -/
  histRows : Option RowStore := none

structure InputState where
  inputMode : InputMode := .insert
  numArgs : Int := 0
  lastCmd : Cmd := .noop
  lastCharSearch : Option CharSearch := none
deriving Repr

/-- what the `Event::Any` handler sees -/
structure Obs where
  line : Text
  pos : Nat
  mode : String
  hasHint : Bool
  keys : List KeyEvent
  n : Nat
  positive : Bool
deriving Repr

inductive Outcome
  | line (t : Text) | eof | interrupted | io | invalidData | helperError | panic | fuel
deriving DecidableEq, Repr

structure Ed where
  line : LB
  saved : LB
  changes : Changeset
  ring : KillRing
  histIdx : Nat
  inp : InputState
  hint : Option Text
  highlightChar : Bool
  defaultPrompt : Bool
  /-- `layout.prompt_size.col`: column where the text starts, as of the last refresh / cursor move -/
  layoutPromptCol : Nat := 0
  /-- `layout.cursor`: where the renderer believes the cursor is.  Written by every `refresh`
      (`compute_layout`), by `move_cursor`, by the fast path of `edit_insert` and reset by
      `clear_screen`.  (`external_print` and `page_completions` reset it right before a refresh, which
      overwrites it; `move_cursor_to_end` sets it to `layout.end` only right before the read returns —
      Interrupt / accept — which is why `layout.end` itself need not be tracked: nothing the editor
      model decides depends on it; lib.rs:188 touches only `end.row`.) -/
  layoutCursor : Pos := {}
  input : Input
  obs : List Obs          -- most recent first
  validatorCalls : List Text  -- most recent first
  suspends : Nat := 0
  hintCalls : Nat := 0
  /-- C02: the calls made on the renderer, most recent first (a pure log: nothing reads it) -/
  render : List RenderOp := []

/-- state + early exit -/
def EM (α : Type) : Type := Ed → Except (Outcome × Ed) (α × Ed)

instance : Monad EM where
  pure a := fun s => .ok (a, s)
  bind m f := fun s => match m s with
    | .error e => .error e
    | .ok (a, s') => f a s'

namespace EM
def get : EM Ed := fun s => .ok (s, s)
def set (s : Ed) : EM Unit := fun _ => .ok ((), s)
def modify (f : Ed → Ed) : EM Unit := fun s => .ok ((), f s)
def exit {α : Type} (o : Outcome) : EM α := fun s => .error (o, s)
def liftP {α : Type} (e : Except Panic α) : EM α := fun s =>
  match e with | .ok a => .ok (a, s) | .error _ => .error (.panic, s)
end EM
open EM

section
variable (S : Segmenter) (U : UData) (cfg : EdCfg)

/-! ### reading keys -/

def rdErr {α : Type} : RdErr → EM α
  | .eof => exit .eof
  | .io => exit .io
  | .invalidData => exit .invalidData

/-- `rdr.next_key(single_esc_abort)` -/
def nextKey (singleEscAbort : Bool) : EM KeyEvent := fun s =>
  match s.input.nextKey singleEscAbort with
  | .ok (k, i) => .ok (k, { s with input := i })
  | .error e => rdErr e s

/-- `rdr.next_char()` -/
def nextChar : EM Char := fun s =>
  match s.input.nextChar with
  | .ok (c, i) => .ok (c, { s with input := i })
  | .error e => rdErr e s

/-- `rdr.wait_for_input`: with an external printer attached the reader goes through `select`;
    since the D13 repair it first serves bytes already in the user-space buffer, so for key input
    it behaves like `next_key` (a pending printer message is handled by the printer model, C19). -/
def waitForInput (singleEscAbort : Bool) : EM KeyEvent := nextKey singleEscAbort

def readPasted : EM Text := fun s =>
  match s.input.readPasted (s.input.size + 1) [] with
  | .ok (t, i) => .ok (normalizePaste t, { s with input := i })
  | .error e => rdErr e s

/-! ### line-buffer calls with their listeners -/

/-- run a line-buffer operation with the undo log as `ChangeListener` -/
def lb {α : Type} (op : LM α) : EM α := fun s =>
  match op s.line with
  | .error _ => .error (.panic, s)
  | .ok (a, l, ns) => .ok (a, { s with line := l, changes := s.changes.onNotifs S U.alnum ns })

/-- with `NoListener` (pure motions go through here too: they emit no notification) -/
def lbQuiet {α : Type} (op : LM α) : EM α := fun s =>
  match op s.line with
  | .error _ => .error (.panic, s)
  | .ok (a, l, _) => .ok (a, { s with line := l })

def ringNotif (k : KillRing) : Notif → Except Panic KillRing
  | .startKill => .ok k.startKilling
  | .stopKill => .ok k.stopKilling
  | .del _ t d => k.onDelete t d
  | _ => .ok k

/-- `edit_kill`: the `Proxy` fans every notification out to the undo log and the kill ring -/
def lbKill {α : Type} (op : LM α) : EM α := fun s =>
  match op s.line with
  | .error _ => .error (.panic, s)
  | .ok (a, l, ns) =>
    let rec go : List Notif → KillRing → Except Panic KillRing
      | [], k => .ok k
      | n :: rest, k => match ringNotif k n with | .ok k' => go rest k' | .error e => .error e
    match go ns s.ring with
    | .error _ => .error (.panic, s)
    | .ok k => .ok (a, { s with line := l, changes := s.changes.onNotifs S U.alnum ns, ring := k })

def changesBegin : EM Nat := fun s =>
  let (c, m) := s.changes.begin
  .ok (m, { s with changes := c })

def changesEnd : EM Bool := fun s =>
  let (c, t) := s.changes.end_
  .ok (t, { s with changes := c })

/-! ### refresh (effects on the hint / highlight flag only) -/

def computeHint (s : Ed) : Option Text :=
  if cfg.hasHelper then
    match cfg.hinter s.line.buf s.line.pos with
    | some h => if h.isEmpty then none else some h
    | none => none
  else none

/-- `State::hint()`: asks the hinter (which may panic at its k-th call) -/
def updateHint : EM Unit := fun s =>
  if cfg.hasHelper then
    let n := s.hintCalls + 1
    if cfg.hinterPanicAt == some (cfg.hintCallsBase + n) then .error (.panic, { s with hintCalls := n })
    else .ok ((), { s with hint := computeHint cfg s, hintCalls := n })
  else .ok ((), { s with hint := none })

/-- `State::highlight_char(kind)`: returns whether a full refresh is needed -/
def highlightCharStep : EM Bool := fun s =>
  if cfg.hasHelper then
    let hc := cfg.highlightChar s.line.buf s.line.pos
    if hc then .ok (true, { s with highlightChar := true })
    else if s.highlightChar then .ok (true, { s with highlightChar := false })
    else .ok (false, s)
  else .ok (false, s)

/-- what `PosixRenderer` knows (terminal width, tab stop 8, the width tables) -/
def edR : RCfg := { cols := cfg.cols, gw := U.width, cw := U.cwidth }

/-- `out.calculate_position(prompt, Position::default())` -/
def promptSizeOf (t : Text) : Pos := calculatePosition S (edR U cfg) t {}

/-- column reached after printing `t` from column 0 on a `cols`-wide terminal -/
def promptColOf (t : Text) : Nat := (promptSizeOf S U cfg t).col

/-- `calculate_position(&line[..pos], prompt_size)`: the cursor cell for the current line.  (Off a
    character boundary the real code panics on the slice; the cursor is always on a boundary — C03 —
    and the renderer model `computeLayout` keeps that panic, so the fallback is never observed.) -/
def cursorFor (psize : Pos) (s : Ed) : Pos :=
  match splitAtByte s.line.buf s.line.pos with
  | some (before, _) => calculatePosition S (edR U cfg) before psize
  | none => psize

/-- C02: append to the render log -/
def logRender (f : Ed → RenderOp) : EM Unit := modify (fun s => { s with render := f s :: s.render })

/-- the layout fields the editor model tracks, as `State::refresh` (= `compute_layout`) leaves them -/
def setRefreshLayout (prompt : Text) (dflt : Bool) : EM Unit :=
  modify (fun s => { s with defaultPrompt := dflt, layoutPromptCol := promptColOf S U cfg prompt,
                            layoutCursor := cursorFor S U cfg (promptSizeOf S U cfg prompt) s })

def refreshLine : EM Unit := do
  updateHint cfg
  let _ ← highlightCharStep cfg
  setRefreshLayout S U cfg cfg.prompt true
  logRender (fun s => .refresh none s.line.buf s.line.pos s.hint)

/-- `msg` is the text displayed in place of the hint (C02 log only) -/
def refreshLineWithMsg (msg : Option Text := none) : EM Unit := do
  modify (fun s => { s with hint := none })
  let _ ← highlightCharStep cfg
  setRefreshLayout S U cfg cfg.prompt true
  logRender (fun s => .refresh none s.line.buf s.line.pos msg)

/-- `prompt` is the dynamic prompt text -/
def refreshPromptAndLine (prompt : Text) : EM Unit := do
  updateHint cfg
  let _ ← highlightCharStep cfg
  setRefreshLayout S U cfg prompt false
  logRender (fun s => .refresh (some prompt) s.line.buf s.line.pos s.hint)

/-- `move_cursor` (edit.rs:132-151): nothing at all happens — `highlight_char` is not even asked —
    when the renderer already believes the cursor to be in the right cell; otherwise a full refresh
    (default prompt, no hint display, `self.hint` untouched) when a character gets or loses its
    highlight, else the cursor is moved and `layout.prompt_size` / `layout.cursor` are updated.
    (The log entry is written in every case: the renderer model takes the same decision itself;
    `hl = false` stands for "not asked".) -/
def moveCursor : EM Unit := do
  let s ← get
  let cursor := cursorFor S U cfg (promptSizeOf S U cfg cfg.prompt) s
  if s.layoutCursor == cursor then
    logRender (fun s => .moveCursor s.line.buf s.line.pos false)
  else do
    let hl ← highlightCharStep cfg
    if hl then setRefreshLayout S U cfg cfg.prompt true
    else modify (fun s => { s with layoutPromptCol := promptColOf S U cfg cfg.prompt, layoutCursor := cursor })
    logRender (fun s => .moveCursor s.line.buf s.line.pos hl)

/-! ### custom bindings -/

def modeName (s : Ed) : String :=
  if !cfg.vi then "e"
  else match s.inp.inputMode with
    | .command => "vc" | .insert => "vi" | .replace => "vr"

/-- `custom_binding`: an exact `Simple` binding wins; otherwise the `Event::Any` recorder is
    called (it returns `None`) -/
def customBinding (keys : List KeyEvent) (n : Nat) (positive : Bool) : EM (Option Cmd) := fun s =>
  match cfg.binds.find? (fun b => b.1 == keys) with
  | some (_, c) => .ok (some c, s)
  | none =>
    let o : Obs := { line := s.line.buf, pos := s.line.pos, mode := modeName cfg s,
                     hasHint := s.hint.isSome, keys, n, positive }
    .ok (none, { s with obs := o :: s.obs, render := .sync s.line.buf s.line.pos s.hint :: s.render })

def hasDescendant (keys : List KeyEvent) : Bool :=
  cfg.binds.any (fun b => keys.isPrefixOf b.1)

/-- `custom_seq_binding`: returns the command (if any) and the key sequence read so far -/
def customSeqBinding : Nat → List KeyEvent → Nat → Bool → EM (Option Cmd × List KeyEvent)
  | 0, keys, _, _ => pure (none, keys)
  | fuel + 1, keys, n, positive => do
    if hasDescendant cfg keys then
      let snd ← nextKey true
      let keys' := keys ++ [snd]
      match cfg.binds.find? (fun b => b.1 == keys') with
      | some (_, c) => pure (some c, keys')
      | none =>
        -- `subtrie.get(evt)`: no exact entry; an `Event::Any` handler is not consulted here
        customSeqBinding fuel keys' n positive
    else pure (none, keys)

/-! ### numeric arguments -/

def digitVal (c : Char) : Int := (c.toNat - '0'.toNat : Nat)

def i16max : Int := 32767
def satMulAdd (a : Int) (d : Int) : Int :=
  let m := a * 10
  let m := if m > i16max then i16max else if m < -32768 then -32768 else m
  let r := m + d
  if r > i16max then i16max else r

/-- `format!("(arg: {}) ", self.num_args)` -/
def argPrompt (n : Int) : Text := "(arg: ".toList ++ (toString n).toList ++ ") ".toList

/-- magnitude of the argument after one more digit ("shouldn't ever need more than 4 digits") -/
def digitAccum (mag : Option Nat) (d : Nat) : Option Nat :=
  let cur := mag.getD 0
  some (if cur < 1000 then cur * 10 + d else cur)

/-- `num_args` while the argument is typed: sign and magnitude are kept apart, a lone `-` is -1 -/
def argOf (negative : Bool) (mag : Option Nat) : Int :=
  match mag with
  | some m => if negative then -(m : Int) else (m : Int)
  | none => -1

/-- the loop of `emacs_digit_argument` (after the repair of D4: `M-- 1 2` is -12) -/
def emacsDigitLoop (negative : Bool) : Nat → Option Nat → EM KeyEvent
  | 0, _ => exit .fuel
  | fuel + 1, mag => do
    modify (fun s => { s with inp := { s.inp with numArgs := argOf negative mag } })
    refreshPromptAndLine S U cfg (argPrompt (argOf negative mag))
    let key ← nextKey true
    match key.code with
    | .char d =>
      if isDigit d && (key.mods == 0 || key.mods == Mods.alt) then
        emacsDigitLoop negative fuel (digitAccum mag (d.toNat - '0'.toNat))
      else if d == '-' && (key.mods == 0 || key.mods == Mods.alt) then emacsDigitLoop negative fuel mag
      else do refreshLine S U cfg; pure key
    | _ => do refreshLine S U cfg; pure key

/-- `emacs_digit_argument` -/
def emacsDigitArgument (fuel : Nat) (digit : Char) : EM KeyEvent :=
  emacsDigitLoop S U cfg (digit == '-') fuel (if digit == '-' then none else some (digit.toNat - '0'.toNat))

/-- `num_args` (consumes) -/
def takeNumArgs : EM Int := fun s =>
  let a := if s.inp.numArgs == 0 then 1 else s.inp.numArgs
  .ok (a, { s with inp := { s.inp with numArgs := 0 } })

def emacsNumArgs : EM (Nat × Bool) := do
  let a ← takeNumArgs
  if a < 0 then pure (a.natAbs, false) else pure (a.toNat, true)

def viNumArgs : EM Nat := do
  let a ← takeNumArgs
  if a < 0 then exit .panic else pure a.toNat

/-- `vi_arg_digit` -/
def viDigitLoop : Nat → EM KeyEvent
  | 0 => exit .fuel
  | fuel + 1 => do
    let a ← (fun s => .ok (s.inp.numArgs, s) : EM Int)
    refreshPromptAndLine S U cfg (argPrompt a)
    let key ← nextKey false
    match key.code with
    | .char d =>
      if isDigit d && key.mods == 0 then do
        modify (fun s =>
          let a := s.inp.numArgs
          let a' := if a.natAbs < 1000 then satMulAdd a (digitVal d) else a
          { s with inp := { s.inp with numArgs := a' } })
        viDigitLoop fuel
      else do refreshLine S U cfg; pure key
    | _ => do refreshLine S U cfg; pure key

def viArgDigit (fuel : Nat) (digit : Char) : EM KeyEvent := do
  modify (fun s => { s with inp := { s.inp with numArgs := digitVal digit } })
  viDigitLoop S U cfg fuel

/-! ### keymaps -/

def u16 (n : Nat) : Nat := n   -- counts stay within u16 by construction (|num_args| ≤ 9999)

def lastInsert : EM (Option Text) := fun s => .ok (s.changes.lastInsert, s)

def redoCmd (c : Cmd) (new : Option Nat) : EM Cmd := do
  let li ← lastInsert
  liftP (c.redo new li)

/-- `term_binding`: VEOF, VINTR, VQUIT, VSUSP of the terminal (default control characters) -/
def termBinding (key : KeyEvent) : EM (Option Cmd) := fun s =>
  let c : Option Cmd :=
    if key == ⟨.char 'D', 8⟩ then some .endOfFile
    else if key == ⟨.char 'C', 8⟩ then some .interrupt
    else if key == ⟨.char '\\', 8⟩ then some .interrupt
    else if key == ⟨.char 'Z', 8⟩ then some .suspend
    else none
  if c == some .endOfFile && !s.line.buf.isEmpty then .ok (none, s) else .ok (c, s)

def lineEmpty : EM Bool := fun s => .ok (s.line.buf.isEmpty, s)
def hasHint : EM Bool := fun s => .ok (s.hint.isSome, s)
def cursorAtEnd : EM Bool := fun s => .ok (s.line.pos == blen s.line.buf, s)

def dirMove (positive : Bool) (a b : Movement) : Movement := if positive then a else b

/-- `common` -/
def common (fuel : Nat) (keys : List KeyEvent) (key : KeyEvent) (n : Nat) (positive : Bool) : EM Cmd := do
  let plain := key.mods == 0
  let ctrl := key.mods == 8
  match key.code with
  | .home => if plain then pure (.move .beginningOfLine) else fallback
  | .left => if plain then pure (.move (dirMove positive (.backwardChar n) (.forwardChar n))) else fallback
  | .delete => if plain then pure (.kill (dirMove positive (.forwardChar n) (.backwardChar n))) else fallback
  | .end_ => if plain then pure (.move .endOfLine) else fallback
  | .right => if plain then pure (.move (dirMove positive (.forwardChar n) (.backwardChar n))) else fallback
  | .enter => if plain then pure (.acceptOrInsertLine true) else fallback
  | .down => if plain then pure (.lineDownOrNextHistory 1) else fallback
  | .up => if plain then pure (.lineUpOrPreviousHistory 1) else fallback
  | .unknownEscSeq => if plain then pure .noop else fallback
  | .bracketedPasteStart =>
    if plain then do
      let t ← readPasted
      pure (.insert 1 t)
    else fallback
  | .char c =>
    if ctrl then
      if c == 'D' then do
        let empty ← lineEmpty
        if !cfg.vi && !empty then pure (.kill (dirMove positive (.forwardChar n) (.backwardChar n)))
        else if !empty then pure .endOfFile
        else pure .unknown
      else if c == 'J' || c == 'M' then pure (.acceptOrInsertLine true)
      else if c == 'R' then pure .reverseSearchHistory
      else if c == 'S' then pure .forwardSearchHistory
      else if c == 'T' then pure .transposeChars
      else if c == 'U' then pure (.kill (dirMove positive .beginningOfLine .endOfLine))
      else if c == 'Q' || c == 'V' then pure .quotedInsert
      else if c == 'W' then pure (.kill (dirMove positive (.backwardWord n .big) (.forwardWord n .afterEnd .big)))
      else if c == 'Y' then pure (if positive then .yank n .before else .unknown)
      else if c == '_' then pure (.undo n)
      else fallback
    else fallback
  | _ => fallback
where
  fallback : EM Cmd := do
    let (c, _) ← customSeqBinding cfg fuel keys n positive
    pure (c.getD .unknown)

/-- `emacs` -/
def emacs (fuel : Nat) (key0 : KeyEvent) : EM Cmd := do
  let key ←
    match key0.code with
    | .char d =>
      if key0.mods == Mods.alt && (d == '-' || isDigit d) then emacsDigitArgument S U cfg fuel d else pure key0
    | _ => pure key0
  let (n, positive) ← emacsNumArgs
  let keys := [key]
  match ← customBinding cfg keys n positive with
  | some cmd => if cmd.isRepeatable then redoCmd cmd (some n) else pure cmd
  | none =>
  match ← termBinding key with
  | some cmd => pure cmd
  | none =>
  let m := key.mods
  match key.code with
  | .char c =>
    if m == 0 then pure (if positive then .selfInsert n c else .unknown)
    else if m == 8 then
      if c == 'A' then pure (.move .beginningOfLine)
      else if c == 'B' then pure (.move (dirMove positive (.backwardChar n) (.forwardChar n)))
      else if c == 'E' then pure (.move .endOfLine)
      else if c == 'F' then pure (.move (dirMove positive (.forwardChar n) (.backwardChar n)))
      else if c == 'G' then pure .abort
      else if c == 'H' then pure (.kill (dirMove positive (.backwardChar n) (.forwardChar n)))
      else if c == 'I' then pure (if positive then .complete else .completeBackward)
      else if c == 'K' then pure (.kill (dirMove positive .endOfLine .beginningOfLine))
      else if c == 'L' then pure .clearScreen
      else if c == 'N' then pure .nextHistory
      else if c == 'P' then pure .previousHistory
      else if c == 'X' then do
        let (cb, keys') ← customSeqBinding cfg fuel keys n positive
        match cb with
        | some cmd => pure cmd
        | none =>
          let snd ← (match keys' with
            | [_, k2] => pure k2
            | _ :: _ :: k2 :: _ => pure k2   -- unreachable shape; keeps the match total
            | _ => nextKey true)
          -- (when custom_seq_binding already read keys, key_seq[1] is used)
          let snd := match keys' with | _ :: k2 :: _ => k2 | _ => snd
          if snd == ⟨.char 'G', 8⟩ || snd == KeyEvent.ESC then pure .abort
          else if snd == ⟨.char 'U', 8⟩ then pure (.undo n)
          else if snd == ⟨.backspace, 0⟩ then pure (.kill (dirMove positive .beginningOfLine .endOfLine))
          else pure .unknown
      else if c == ']' then charSearchCmd n positive false
      else common cfg fuel keys key n positive
    else if m == 12 then
      if c == 'G' then pure .abort
      else if c == ']' then charSearchCmd n positive true
      else common cfg fuel keys key n positive
    else if m == 4 then
      if c == '<' then pure .beginningOfHistory
      else if c == '>' then pure .endOfHistory
      else if c == 'B' || c == 'b' then pure (.move (dirMove positive (.backwardWord n .emacs) (.forwardWord n .afterEnd .emacs)))
      else if c == 'C' || c == 'c' then pure .capitalizeWord
      else if c == 'D' || c == 'd' then pure (.kill (dirMove positive (.forwardWord n .afterEnd .emacs) (.backwardWord n .emacs)))
      else if c == 'F' || c == 'f' then pure (.move (dirMove positive (.forwardWord n .afterEnd .emacs) (.backwardWord n .emacs)))
      else if c == 'L' || c == 'l' then pure .downcaseWord
      else if c == 'T' || c == 't' then pure (.transposeWords n)
      else if c == 'U' || c == 'u' then pure .upcaseWord
      else if c == 'Y' || c == 'y' then pure .yankPop
      else common cfg fuel keys key n positive
    else common cfg fuel keys key n positive
  | .esc => if m == 0 then pure .abort else common cfg fuel keys key n positive
  | .backspace =>
    if m == 0 then pure (.kill (dirMove positive (.backwardChar n) (.forwardChar n)))
    else if m == 4 then pure (.kill (dirMove positive (.backwardWord n .emacs) (.forwardWord n .afterEnd .emacs)))
    else common cfg fuel keys key n positive
  | .backTab => if m == 0 then pure .completeBackward else common cfg fuel keys key n positive
  | .tab => if m == 0 then pure (if positive then .complete else .completeBackward) else common cfg fuel keys key n positive
  | .right =>
    if m == 0 then do
      let hh ← hasHint
      let ae ← cursorAtEnd
      if hh && ae then pure .completeHint else common cfg fuel keys key n positive
    else if m == 4 || m == 8 then pure (.move (dirMove positive (.forwardWord n .afterEnd .emacs) (.backwardWord n .emacs)))
    else common cfg fuel keys key n positive
  | .left =>
    if m == 4 || m == 8 then pure (.move (dirMove positive (.backwardWord n .emacs) (.forwardWord n .afterEnd .emacs)))
    else common cfg fuel keys key n positive
  | _ => common cfg fuel keys key n positive
where
  charSearchCmd (n : Nat) (positive : Bool) (alt : Bool) : EM Cmd := do
    let ch ← nextKey false
    match ch.code with
    | .char c =>
      if ch.mods == 0 then
        let cs : CharSearch :=
          if positive then (if alt then .backward c else .forwardBefore c)
          else (if alt then .forwardBefore c else .backward c)
        pure (.move (.viCharSearch n cs))
      else pure .unknown
    | _ => pure .unknown

/-- `vi_char_search` -/
def viCharSearch (cmd : Char) : EM (Option CharSearch) := do
  let ch ← nextKey false
  match ch.code with
  | .char c =>
    if ch.mods == 0 then
      let cs : CharSearch :=
        if cmd == 'f' then .forward c else if cmd == 't' then .forwardBefore c
        else if cmd == 'F' then .backward c else .backwardAfter c
      modify (fun s => { s with inp := { s.inp with lastCharSearch := some cs } })
      pure (some cs)
    else pure none
  | _ => pure none

def lastCharSearch : EM (Option CharSearch) := fun s => .ok (s.inp.lastCharSearch, s)

/-- `vi_cmd_motion` -/
def viCmdMotion (fuel : Nat) (key : KeyEvent) (n0 : Nat) : EM (Option Movement) := do
  let mvt0 ← nextKey false
  if mvt0 == key then pure (some .wholeLine)
  else
    let (mvt, n) ←
      (match mvt0.code with
       | .char d =>
         if mvt0.mods == 0 && '1' ≤ d && d ≤ '9' then do
           let k ← viArgDigit S U cfg fuel d
           let a ← viNumArgs
           pure (k, min (a * n0) 65535)
         else pure (mvt0, n0)
       | _ => pure (mvt0, n0))
    let isC := key == ⟨.char 'c', 0⟩
    match mvt.code with
    | .char c =>
      if mvt.mods == 0 then
        if c == '$' then pure (some .endOfLine)
        else if c == '0' then pure (some .beginningOfLine)
        else if c == '^' then pure (some .viFirstPrint)
        else if c == 'b' then pure (some (.backwardWord n .vi))
        else if c == 'B' then pure (some (.backwardWord n .big))
        else if c == 'e' then pure (some (.forwardWord n .afterEnd .vi))
        else if c == 'E' then pure (some (.forwardWord n .afterEnd .big))
        else if c == 'f' || c == 'F' || c == 't' || c == 'T' then do
          let cs ← viCharSearch c
          pure (cs.map (fun cs => .viCharSearch n cs))
        else if c == ';' then do
          let l ← lastCharSearch
          pure (l.map (fun cs => .viCharSearch n cs))
        else if c == ',' then do
          let l ← lastCharSearch
          pure (l.map (fun cs => .viCharSearch n cs.opposite))
        else if c == 'h' then pure (some (.backwardChar n))
        else if c == 'l' || c == ' ' then pure (some (.forwardChar n))
        else if c == 'j' || c == '+' then pure (some (.lineDown n))
        else if c == 'k' || c == '-' then pure (some (.lineUp n))
        else if c == 'w' then pure (some (if isC then .forwardWord n .afterEnd .vi else .forwardWord n .start .vi))
        else if c == 'W' then pure (some (if isC then .forwardWord n .afterEnd .big else .forwardWord n .start .big))
        else pure none
      else if mvt.mods == 8 && c == 'H' then pure (some (.backwardChar n))
      else pure none
    | .backspace => if mvt.mods == 0 then pure (some (.backwardChar n)) else pure none
    | _ => pure none

def setInputMode (m : InputMode) : EM Unit :=
  modify (fun s => { s with inp := { s.inp with inputMode := m } })

def doingInsert : EM Unit := do let _ ← changesBegin; pure ()
def doneInserting : EM Unit := do let _ ← changesEnd; pure ()

def setLastCmd (c : Cmd) : EM Unit := modify (fun s => { s with inp := { s.inp with lastCmd := c } })
def getLastCmd : EM Cmd := fun s => .ok (s.inp.lastCmd, s)

/-- `vi_command` -/
def viCommand (fuel : Nat) (key0 : KeyEvent) : EM Cmd := do
  let key ←
    match key0.code with
    | .char d => if key0.mods == 0 && '1' ≤ d && d ≤ '9' then viArgDigit S U cfg fuel d else pure key0
    | _ => pure key0
  let noNumArgs ← (fun s => .ok (s.inp.numArgs == 0, s) : EM Bool)
  let n ← viNumArgs
  let keys := [key]
  match ← customBinding cfg keys n true with
  | some cmd =>
    if cmd.isRepeatable then redoCmd cmd (if noNumArgs then none else some n) else pure cmd
  | none =>
  match ← termBinding key with
  | some cmd => pure cmd
  | none =>
  let m := key.mods
  let cmd : Cmd ←
    (match key.code with
    | .char c =>
      if m == 0 then
        if c == '$' then pure (.move .endOfLine)
        else if c == '.' then do
          let last ← getLastCmd
          if !last.isRepeatable then pure .noop
          else redoCmd last (if noNumArgs then none else some n)
        else if c == '0' then pure (.move .beginningOfLine)
        else if c == '^' then pure (.move .viFirstPrint)
        else if c == 'a' then do setInputMode .insert; doingInsert; pure (.move (.forwardChar n))
        else if c == 'A' then do setInputMode .insert; doingInsert; pure (.move .endOfLine)
        else if c == 'b' then pure (.move (.backwardWord n .vi))
        else if c == 'B' then pure (.move (.backwardWord n .big))
        else if c == 'c' then do
          match ← viCmdMotion S U cfg fuel key n with
          | some mvt => do setInputMode .insert; pure (.replace mvt none)
          | none => pure .unknown
        else if c == 'C' then do setInputMode .insert; pure (.replace .endOfLine none)
        else if c == 'd' then do
          match ← viCmdMotion S U cfg fuel key n with
          | some mvt => pure (.kill mvt)
          | none => pure .unknown
        else if c == 'D' then pure (.kill .endOfLine)
        else if c == 'e' then pure (.move (.forwardWord n .beforeEnd .vi))
        else if c == 'E' then pure (.move (.forwardWord n .beforeEnd .big))
        else if c == 'i' then do setInputMode .insert; doingInsert; pure .noop
        else if c == 'I' then do setInputMode .insert; doingInsert; pure (.move .beginningOfLine)
        else if c == 'f' || c == 'F' || c == 't' || c == 'T' then do
          match ← viCharSearch c with
          | some cs => pure (.move (.viCharSearch n cs))
          | none => pure .unknown
        else if c == ';' then do
          match ← lastCharSearch with
          | some cs => pure (.move (.viCharSearch n cs))
          | none => pure .noop
        else if c == ',' then do
          match ← lastCharSearch with
          | some cs => pure (.move (.viCharSearch n cs.opposite))
          | none => pure .noop
        else if c == 'p' then pure (.yank n .after)
        else if c == 'P' then pure (.yank n .before)
        else if c == 'r' then do
          let ch ← nextKey false
          match ch.code with
          | .char rc => if ch.mods == 0 then pure (.replaceChar n rc) else pure .unknown
          | .esc => if ch.mods == 0 then pure .noop else pure .unknown
          | _ => pure .unknown
        else if c == 'R' then do setInputMode .replace; pure (.replace (.forwardChar 0) none)
        else if c == 's' then do setInputMode .insert; pure (.replace (.forwardChar n) none)
        else if c == 'S' then do setInputMode .insert; pure (.replace .wholeLine none)
        else if c == 'u' then pure (.undo n)
        else if c == 'w' then pure (.move (.forwardWord n .start .vi))
        else if c == 'W' then pure (.move (.forwardWord n .start .big))
        else if c == 'x' then pure (.kill (.forwardChar n))
        else if c == 'X' then pure (.kill (.backwardChar n))
        else if c == 'y' then do
          match ← viCmdMotion S U cfg fuel key n with
          | some mvt => pure (.viYankTo mvt)
          | none => pure .unknown
        else if c == 'h' then pure (.move (.backwardChar n))
        else if c == 'l' || c == ' ' then pure (.move (.forwardChar n))
        else if c == '+' || c == 'j' then pure (.lineDownOrNextHistory n)
        else if c == '-' || c == 'k' then pure (.lineUpOrPreviousHistory n)
        else if c == '<' then do
          match ← viCmdMotion S U cfg fuel key n with
          | some mvt => pure (.dedent mvt)
          | none => pure .unknown
        else if c == '>' then do
          match ← viCmdMotion S U cfg fuel key n with
          | some mvt => pure (.indent mvt)
          | none => pure .unknown
        else common cfg fuel keys key n true
      else if m == 8 then
        if c == 'K' then pure (.kill .endOfLine)
        else if c == 'H' then pure (.move (.backwardChar n))
        else if c == 'G' then pure .abort
        else if c == 'L' then pure .clearScreen
        else if c == 'N' then pure .nextHistory
        else if c == 'P' then pure .previousHistory
        else if c == 'R' then do setInputMode .insert; pure .reverseSearchHistory
        else if c == 'S' then do setInputMode .insert; pure .forwardSearchHistory
        else common cfg fuel keys key n true
      else common cfg fuel keys key n true
    | .end_ => if m == 0 then pure (.move .endOfLine) else common cfg fuel keys key n true
    | .backspace => if m == 0 then pure (.move (.backwardChar n)) else common cfg fuel keys key n true
    | .esc => if m == 0 then pure .noop else common cfg fuel keys key n true
    | _ => common cfg fuel keys key n true)
  if cmd.isRepeatableChange then setLastCmd cmd
  pure cmd

/-- `vi_insert` -/
def viInsert (fuel : Nat) (key : KeyEvent) : EM Cmd := do
  let keys := [key]
  match ← customBinding cfg keys 0 true with
  | some cmd => if cmd.isRepeatable then redoCmd cmd none else pure cmd
  | none =>
  match ← termBinding key with
  | some cmd => pure cmd
  | none =>
  let m := key.mods
  let replaceMode ← (fun s => .ok (s.inp.inputMode == .replace, s) : EM Bool)
  let cmd : Cmd ←
    (match key.code with
    | .char c =>
      if m == 0 then pure (if replaceMode then .overwrite c else .selfInsert 1 c)
      else if m == 8 && c == 'H' then pure (.kill (.backwardChar 1))
      else if m == 8 && c == 'I' then pure .complete
      else if m == 4 then do
        setInputMode .command
        doneInserting
        viCommand S U cfg fuel ⟨.char c, 0⟩
      else common cfg fuel keys key 1 true
    | .backspace => if m == 0 then pure (.kill (.backwardChar 1)) else common cfg fuel keys key 1 true
    | .backTab => if m == 0 then pure .completeBackward else common cfg fuel keys key 1 true
    | .tab => if m == 0 then pure .complete else common cfg fuel keys key 1 true
    | .right =>
      if m == 0 then do
        let hh ← hasHint
        let ae ← cursorAtEnd
        if hh && ae then pure .completeHint else common cfg fuel keys key 1 true
      else common cfg fuel keys key 1 true
    | .esc =>
      if m == 0 then do
        setInputMode .command
        doneInserting
        pure (.move (.backwardChar 1))
      else common cfg fuel keys key 1 true
    | _ => common cfg fuel keys key 1 true)
  if cmd.isRepeatableChange then do
    let last ← getLastCmd
    let keep : Bool := match last, cmd with
      | .replace _ _, .selfInsert _ _ => true
      | .selfInsert _ _, .selfInsert _ _ => true
      | _, _ => false
    if !keep then setLastCmd cmd
  pure cmd

/-- `InputState::next_cmd` + the wrapper of `State::next_cmd` (`Replace` opens an undo group) -/
def nextCmd (fuel : Nat) (singleEscAbort : Bool) (ignoreExternalPrint : Bool) : EM Cmd := do
  let sea := if cfg.vi then false else singleEscAbort
  let key ← if ignoreExternalPrint then nextKey sea else waitForInput sea
  let inCommand ← (fun s => .ok (s.inp.inputMode == .command, s) : EM Bool)
  let cmd ←
    if !cfg.vi then emacs S U cfg fuel key
    else if !inCommand then viInsert S U cfg fuel key
    else viCommand S U cfg fuel key
  match cmd with
  | .replace _ _ => do let _ ← changesBegin; pure cmd
  | _ => pure cmd

/-! ### `src/edit.rs` -/

def getLine : EM LB := fun s => .ok (s.line, s)

/-- `backup` -/
def backup : EM Unit := fun s =>
  match LB.update S U s.line.buf s.line.pos s.saved with
  | .ok (_, sv, _) => .ok ((), { s with saved := sv })
  | .error _ => .error (.panic, s)

/-- `restore` -/
def restore : EM Unit := do
  let sv ← (fun s => .ok (s.saved, s) : EM LB)
  lb S U (LB.update S U sv.buf sv.pos)

/-- `edit_insert` (edit.rs:360-389).  `push = false` goes through `refresh_line()`.  With `push`
    the hint is recomputed, then the short-circuit guard of the fast path is evaluated in source order:
    `highlight_char` (which mutates the flag) is asked only when everything before it holds; the fast
    path moves `layout.cursor` right by the character's width and leaves `layout.prompt_size` alone;
    otherwise `refresh` is called directly (no `highlight_char` call).  In the log `hl = false` when
    `highlight_char` was not asked (the renderer model's guard is false before it looks at `hl`). -/
def editInsert (ch : Char) (n : Nat) : EM Unit := do
  match ← lb S U (LB.insert S U ch n) with
  | some push =>
    let noPrevHint := (← get).hint.isNone
    updateHint cfg
    if push then do
      let s ← get
      let w := U.cwidth ch
      if n == 1 && w != 0 && s.layoutCursor.col + w < cfg.cols && (s.hint.isNone && noPrevHint) then do
        let hl ← highlightCharStep cfg
        if hl then setRefreshLayout S U cfg cfg.prompt true
        else modify (fun s => { s with layoutCursor := { s.layoutCursor with col := s.layoutCursor.col + w } })
        logRender (fun s => .insert ch n push s.line.buf s.line.pos s.hint noPrevHint hl)
      else do
        setRefreshLayout S U cfg cfg.prompt true
        logRender (fun s => .insert ch n push s.line.buf s.line.pos s.hint noPrevHint false)
    else do
      let hl ← highlightCharStep cfg
      setRefreshLayout S U cfg cfg.prompt true
      logRender (fun s => .insert ch n push s.line.buf s.line.pos s.hint noPrevHint hl)
  | none => pure ()

def graphemeCount (t : Text) : Nat := (S.seg t).length

def editReplaceChar (ch : Char) (n : Nat) : EM Unit := do
  let _ ← changesBegin
  let succeed ←
    (do match ← lb S U (LB.delete S U n) with
        | some chars => do
          let count := graphemeCount S chars
          if count > 65535 then exit .panic
          let _ ← lb S U (LB.insert S U ch count)
          let _ ← lbQuiet (LB.moveBackward S U 1)
          pure true
        | none => pure false)
  let _ ← changesEnd
  if succeed then refreshLine S U cfg

def editOverwriteChar (ch : Char) : EM Unit := do
  let l ← getLine
  match ← liftP (LB.nextPos S l 1) with
  | some e => do
    lb S U (LB.replace S U l.pos e [ch])
    refreshLine S U cfg
  | none => pure ()

def editYank (text : Text) (anchor : Anchor) (n : Nat) : EM Unit := do
  let pos := (← get).line.pos
  if anchor == .after then do let _ ← lbQuiet (LB.moveForward S U 1); pure ()
  match ← lb S U (LB.yank S U text n) with
  | some _ => do
    if cfg.vi then do let _ ← lbQuiet (LB.moveBackward S U 1); pure ()
    refreshLine S U cfg
  | none =>
    -- nothing was pasted: the cursor is put back where it was, `self.line.set_pos(pos)` (fix D45)
    lbQuiet (LB.setPosChecked S U pos)

def editYankPop (yankSize : Nat) (text : Text) : EM Unit := do
  let _ ← changesBegin
  match ← lb S U (LB.yankPop S U yankSize text) with
  | some _ => refreshLine S U cfg
  | none => pure ()
  let _ ← changesEnd
  pure ()

def editMove (op : LM Bool) : EM Unit := do
  if ← lbQuiet op then moveCursor S U cfg

def editKill (mvt : Movement) : EM Unit := do
  if ← lbKill S U (LB.kill S U mvt) then refreshLine S U cfg

def editInsertText (text : Text) : EM Unit := do
  if text.isEmpty then pure ()
  else do
    let l ← getLine
    let _ ← lb S U (LB.insertStr S U l.pos text)
    refreshLine S U cfg

def grouped (op : LM Bool) : EM Unit := do
  let _ ← changesBegin
  let ok ← lb S U op
  let _ ← changesEnd
  if ok then refreshLine S U cfg

def histGet (i : Nat) : Option Text := cfg.hist[i]?

/-- `History::len()` -/
def histLen : Nat :=
  match cfg.histRows with
  | none => cfg.hist.length
  | some r => r.len

/-- `History::get(index, dir)`: `(idx, entry)` of the answer.  Memory / file history ignore the
    direction; `SQLiteHistory::get` answers `None` when `len() == 0`, else the nearest row at or
    after (`Forward`: `rowid >= ?1 ORDER BY rowid ASC LIMIT 1`) / at or before (`Reverse`:
    `rowid <= ?1 ORDER BY rowid DESC LIMIT 1`) the index. -/
def histGetDir (i : Nat) (d : Dir) : Option (Nat × Text) :=
  match cfg.histRows with
  | none => (cfg.hist[i]?).map (fun e => (i, e))
  | some r =>
    if r.len == 0 then none
    else
      match d with
      | .forward => (r.idx.zip cfg.hist).find? (fun p => i ≤ p.1)
      | .reverse => ((r.idx.zip cfg.hist).filter (fun p => p.1 ≤ i)).getLast?

def setHistIdx (i : Nat) : EM Unit := modify (fun s => { s with histIdx := i })
def getHistIdx : EM Nat := fun s => .ok (s.histIdx, s)

def showEntry (buf : Text) (pos : Nat) : EM Unit := do
  let _ ← changesBegin
  lb S U (LB.update S U buf pos)
  let _ ← changesEnd
  pure ()

/-- `edit_history_next` -/
def editHistoryNext (prev : Bool) : EM Unit := do
  let len := histLen cfg
  if len == 0 then return ()
  let hi ← getHistIdx
  if hi == len then
    if prev then backup S U else return ()
  else if hi == 0 && prev then return ()
  let idx ←
    if prev then pure (hi - 1)
    else do setHistIdx (hi + 1); pure (hi + 1)
  if idx < len then
    match histGetDir cfg idx (if prev then .reverse else .forward) with
    | some (j, buf) => do
      setHistIdx j
      showEntry S U buf (blen buf)
    | none => return ()
  else restore S U
  refreshLine S U cfg

/-- `edit_history` (first / last) -/
def editHistory (first : Bool) : EM Unit := do
  let len := histLen cfg
  if len == 0 then return ()
  let hi ← getHistIdx
  if hi == len then
    if first then backup S U else return ()
  else if hi == 0 && first then return ()
  if first then
    match histGetDir cfg 0 .forward with
    | some (j, buf) =>
      -- already on the oldest entry (whose index is not 0 when older rows are gone)
      if j == hi then return ()
      else do
        setHistIdx j
        showEntry S U buf (blen buf)
    | none => return ()
  else do
    setHistIdx len
    restore S U
  refreshLine S U cfg

def memHist : MemHist := { entries := cfg.hist, maxLen := max cfg.hist.length 100, ignoreSpace := false, ignoreDups := false }

/-- `edit_history_search` (non-incremental, anchored) -/
def editHistorySearch (dir : Dir) : EM Unit := do
  let len := cfg.hist.length
  if len == 0 then return ()
  let hi ← getHistIdx
  if (hi == len && dir == .forward) || (hi == 0 && dir == .reverse) then return ()
  let hi' := if dir == .reverse then hi - 1 else hi + 1
  setHistIdx hi'
  let l ← getLine
  let term ← liftP (sliceTo l.buf l.pos)
  match (memHist cfg).startsWith term hi' dir with
  | some (idx, entry, pos) => do
    setHistIdx idx
    showEntry S U entry pos
    refreshLine S U cfg
  | none => pure ()

/-- `complete_hint_line` -/
def completeHintLine : EM Unit := do
  let h ← (fun s => .ok (s.hint, s) : EM (Option Text))
  match h with
  | none => pure ()
  | some text => do
    let _ ← lbQuiet (LB.moveEnd S U)
    let _ ← lb S U (LB.yank S U text 1)
    refreshLine S U cfg

/-- `State::validate` -/
def validate : EM Verdict := do
  if cfg.hasHelper then do
    let _ ← changesBegin
    let l ← getLine
    modify (fun s => { s with validatorCalls := l.buf :: s.validatorCalls })
    let v := cfg.validator l.buf
    if v == .error then exit .helperError
    if v == .panic then exit .panic
    let corrected ← changesEnd
    let hh ← hasHint
    match v with
    | .incomplete => pure ()
    | .valid msg => if corrected || hh || msg then refreshLineWithMsg S U cfg
    | .invalid msg => if corrected || hh || msg then refreshLineWithMsg S U cfg
    | _ => pure ()
    pure v
  else pure (.valid false)

def getPromptCol : EM Nat := fun s => .ok (s.layoutPromptCol, s)

inductive Status | proceed | submit
deriving DecidableEq

def ringYank : EM (Option Text) := fun s =>
  match s.ring.yank with
  | .ok (k, t) => .ok (t, { s with ring := k })
  | .error _ => .error (.panic, s)

/-- `KillRing::yank_n n` is `ringYank` followed by this -/
def ringYankCount (n : Nat) : EM Unit := fun s => .ok ((), { s with ring := s.ring.yankCount n })

def ringYankPop : EM (Option (Nat × Text)) := fun s =>
  match s.ring.yankPop with
  | .ok (k, t) => .ok (t, { s with ring := k })
  | .error _ => .error (.panic, s)

/-- `Cmd::ViYankTo`: `kill_ring.kill(&text, Mode::Append); kill_ring.reset()` (a copy is not a kill:
    the next kill command must not extend the copied text) -/
def ringKill (t : Text) : EM Unit := fun s =>
  match s.ring.kill t .append with
  | .ok k => .ok ((), { s with ring := k.reset })
  | .error _ => .error (.panic, s)

/-- what Enter does, given the verdict: the decision table of `command.rs:132-156` -/
inductive AcceptAct | submit | insertNewline | stay
deriving DecidableEq, Repr

def acceptDecision (aim valid hasMsg atEnd : Bool) : AcceptAct :=
  if valid && (atEnd || aim) then .submit
  else if valid || !hasMsg then .insertNewline
  else .stay

/-- `Cmd::AcceptOrInsertLine` in `execute` -/
def execAccept (aim : Bool) : EM Status := do
  let v ← validate S U cfg
  let valid := match v with | .valid _ => true | _ => false
  let hasMsg := match v with | .valid m => m | .invalid m => m | _ => false
  let l ← getLine
  let atEnd := LB.isEndOfInput U l
  match acceptDecision aim valid hasMsg atEnd with
  | .submit => pure .submit
  | .insertNewline => do editInsert S U cfg '\n' 1; pure .proceed
  | .stay => pure .proceed

/-- `command::execute` -/
def execute (cmd : Cmd) : EM Status := do
  match cmd with
  | .endOfFile | .acceptLine | .acceptOrInsertLine _ | .newline => do
    let s ← get
    if s.hint.isSome || !s.defaultPrompt || s.highlightChar then refreshLineWithMsg S U cfg
  | _ => pure ()
  match cmd with
  | .completeHint => do completeHintLine S U cfg; pure .proceed
  | .selfInsert n c => do editInsert S U cfg c n; pure .proceed
  | .insert n text => do editYank S U cfg text .before n; pure .proceed
  | .move .beginningOfLine => do editMove S U cfg (LB.moveHome S U); pure .proceed
  | .move .viFirstPrint => do editMove S U cfg (LB.moveToFirstPrint S U); pure .proceed
  | .move (.backwardChar n) => do editMove S U cfg (LB.moveBackward S U n); pure .proceed
  | .replaceChar n c => do editReplaceChar S U cfg c n; pure .proceed
  | .replace mvt text => do
    editKill S U cfg mvt
    match text with
    | some t => editInsertText S U cfg t
    | none => pure ()
    -- `!input_state.is_inserting()`: replayed by `.` (or bound by the application): no insert session
    -- follows that would close the undo group `next_cmd` opened for this command
    let inserting ← (fun s => .ok (cfg.vi && s.inp.inputMode != .command, s) : EM Bool)
    if !inserting then do let _ ← changesEnd; pure ()
    pure .proceed
  | .overwrite c => do editOverwriteChar S U cfg c; pure .proceed
  | .endOfFile => do
    let empty ← lineEmpty
    if empty then exit .eof
    else if cfg.vi then pure .submit
    else pure .proceed
  | .move .endOfLine => do editMove S U cfg (LB.moveEnd S U); pure .proceed
  | .move (.forwardChar n) => do editMove S U cfg (LB.moveForward S U n); pure .proceed
  | .clearScreen => do
    logRender (fun _ => .clearScreen)
    modify (fun s => { s with layoutCursor := {} })   -- `State::clear_screen`
    refreshLine S U cfg; pure .proceed
  | .nextHistory => do editHistoryNext S U cfg false; pure .proceed
  | .previousHistory => do editHistoryNext S U cfg true; pure .proceed
  | .lineUpOrPreviousHistory n => do
    let pc ← getPromptCol
    if ← lbQuiet (LB.moveToLineUp S U n pc) then moveCursor S U cfg
    else editHistoryNext S U cfg true
    pure .proceed
  | .lineDownOrNextHistory n => do
    let pc ← getPromptCol
    if ← lbQuiet (LB.moveToLineDown S U n pc) then moveCursor S U cfg
    else editHistoryNext S U cfg false
    pure .proceed
  | .historySearchBackward => do editHistorySearch S U cfg .reverse; pure .proceed
  | .historySearchForward => do editHistorySearch S U cfg .forward; pure .proceed
  | .transposeChars => do grouped S U cfg (LB.transposeChars S U); pure .proceed
  | .yank n anchor => do
    match ← ringYank with
    | some text => do ringYankCount n; editYank S U cfg text anchor n
    | none => pure ()
    pure .proceed
  | .viYankTo mvt => do
    let l ← getLine
    match ← liftP (LB.copy S U l mvt) with
    | some text => ringKill text
    | none => pure ()
    pure .proceed
  | .newline => do editInsert S U cfg '\n' 1; pure .proceed
  | .repaint => do refreshLine S U cfg; pure .proceed
  | .acceptLine => do
    let _ ← validate S U cfg
    pure .submit
  | .acceptOrInsertLine aim => execAccept S U cfg aim
  | .beginningOfHistory => do editHistory S U cfg true; pure .proceed
  | .endOfHistory => do editHistory S U cfg false; pure .proceed
  | .move (.backwardWord n w) => do editMove S U cfg (LB.moveToPrevWord S U w n); pure .proceed
  | .capitalizeWord => do grouped S U cfg (LB.editWord S U .capitalize); pure .proceed
  | .kill mvt => do editKill S U cfg mvt; pure .proceed
  | .move (.forwardWord n a w) => do editMove S U cfg (LB.moveToNextWord S U a w n); pure .proceed
  | .move (.lineUp n) => do
    let pc ← getPromptCol
    editMove S U cfg (LB.moveToLineUp S U n pc); pure .proceed
  | .move (.lineDown n) => do
    let pc ← getPromptCol
    editMove S U cfg (LB.moveToLineDown S U n pc); pure .proceed
  | .move .beginningOfBuffer => do editMove S U cfg (LB.moveBufferStart S U); pure .proceed
  | .move .endOfBuffer => do editMove S U cfg (LB.moveBufferEnd S U); pure .proceed
  | .downcaseWord => do grouped S U cfg (LB.editWord S U .lowercase); pure .proceed
  | .transposeWords n => do grouped S U cfg (LB.transposeWords S U n); pure .proceed
  | .upcaseWord => do grouped S U cfg (LB.editWord S U .uppercase); pure .proceed
  | .yankPop => do
    match ← ringYankPop with
    | some (size, text) => editYankPop S U cfg size text
    | none => pure ()
    pure .proceed
  | .move (.viCharSearch n cs) => do editMove S U cfg (LB.moveTo S U cs n); pure .proceed
  | .undo n => do
    let s ← get
    match s.changes.undo S U s.line n with
    | .ok (c, l, undone) => do
      set { s with changes := c, line := l }
      if undone then refreshLine S U cfg
      pure .proceed
    | .error _ => exit .panic
  | .dedent mvt => do
    if ← lb S U (LB.indent S U mvt cfg.indentSize true) then refreshLine S U cfg
    pure .proceed
  | .indent mvt => do
    if ← lb S U (LB.indent S U mvt cfg.indentSize false) then refreshLine S U cfg
    pure .proceed
  | .interrupt => do logRender (fun _ => .moveToEnd); exit .interrupted
  | _ => pure .proceed

/-! ### `src/lib.rs` loops -/

def truncateChanges (mark : Nat) : EM Unit := modify (fun s => { s with changes := s.changes.truncateClosed mark })

/-- `mark = mark.min(s.changes.len())` after a `next_cmd` inside a sub-loop (repair of D47): a key that
    leaves vi insert mode closes every open undo group, also the ones below the mark -/
def lowerMark (mark : Nat) : EM Nat := fun s => .ok (min mark s.changes.undos.length, s)

/-- candidate index after Tab / Shift-Tab in the circular loop (index `n` = the original text) -/
def compNext (n i : Nat) : Nat := (i + 1) % (n + 1)
def compPrev (n i : Nat) : Nat := if i == 0 then n else (i - 1) % (n + 1)

/-- circular completion loop -/
def completeCircular (start : Nat) (cands : List Text) (mark : Nat) (backup : Text) (backupPos : Nat) :
    Nat → Nat → EM (Option Cmd)
  | 0, _ => exit .fuel
  | fuel + 1, i => do
    if i < cands.length then
      match cands[i]? with
      | some c => do
        let l ← getLine
        lb S U (LB.replace S U start l.pos c)
      | none => pure ()
    else lb S U (LB.update S U backup backupPos)
    refreshLine S U cfg
    let cmd ← nextCmd S U cfg fuel true true
    let mark ← lowerMark mark
    match cmd with
    | .complete => completeCircular start cands mark backup backupPos fuel (compNext cands.length i)
    | .completeBackward => completeCircular start cands mark backup backupPos fuel (compPrev cands.length i)
    | .abort => do
      if i < cands.length then do
        lb S U (LB.update S U backup backupPos)
        refreshLine S U cfg
      truncateChanges mark
      pure none
    | _ => do
      let _ ← changesEnd
      pure (some cmd)

/-- `longest_common_prefix` on bytes with the char-boundary back-off (model in Rl/Completion.lean
    for property C15; here the char-level equivalent is enough for well-formed candidates) -/
def lcpChars : List Text → Option Text
  | [] => none
  | [c] => some c
  | c :: cs =>
    let rec common (a b : Text) : Text :=
      match a, b with
      | x :: xs, y :: ys => if x == y then x :: common xs ys else []
      | _, _ => []
    let p := cs.foldl common c
    if p.isEmpty then none else some p

/-- `complete_line` -/
def completeLine (fuel : Nat) : EM (Option Cmd) := do
  let l ← getLine
  let (start, cands) := cfg.completer l.buf l.pos
  if cands.isEmpty then pure none
  else if !cfg.listCompletion then do
    let mark ← changesBegin
    completeCircular S U cfg start cands mark l.buf l.pos fuel 0
  else do
    match lcpChars cands with
    | some lcp => do
      if start > l.pos then exit .panic
      if blen lcp > l.pos - start || cands.length == 1 then do
        lb S U (LB.replace S U start l.pos lcp)
        refreshLine S U cfg
    | none => pure ()
    if cands.length ≤ 1 then pure none
    else do
      let cmd ← nextCmd S U cfg fuel true true
      if cmd != .complete then pure (some cmd)
      else do
        -- second Tab: list the candidates (paging dialogue not modelled: ≤ 100 candidates, fits the screen)
        let savePos ← (fun s => .ok (s.line.pos, s) : EM Nat)
        editMove S U cfg (LB.moveEnd S U)
        lbQuiet (LB.setPosChecked S U savePos)
        refreshLine S U cfg
        pure none

/-- `reverse_incremental_search` -/
def searchLoop (mark : Nat) (backup : Text) (backupPos : Nat) :
    Nat → Text → Nat → Dir → Bool → EM (Option Cmd)
  | 0, _, _, _, _ => exit .fuel
  | fuel + 1, searchBuf, histIdx, dir, success => do
    refreshPromptAndLine S U cfg
      ((if success then "(reverse-i-search)`" else "(failed reverse-i-search)`").toList ++ searchBuf ++ "': ".toList)
    let cmd ← nextCmd S U cfg fuel true true
    let mark ← lowerMark mark
    -- `histIdx` (the loop variable at the top of the iteration, `shown_idx` in the Rust) is the entry on
    -- display: a search that fails goes back to it (repair of D51)
    let doSearch (searchBuf : Text) (start : Nat) (dir : Dir) : EM (Option Cmd) := do
      match (memHist cfg).search searchBuf start dir with
      | some (idx, entry, pos) => do
        lb S U (LB.update S U entry pos)
        searchLoop mark backup backupPos fuel searchBuf idx dir true
      | none => searchLoop mark backup backupPos fuel searchBuf histIdx dir false
    match cmd with
    | .selfInsert _ c => doSearch (searchBuf ++ [c]) histIdx dir
    | .kill (.backwardChar _) => searchLoop mark backup backupPos fuel searchBuf.dropLast histIdx dir success
    | .reverseSearchHistory =>
      if histIdx > 0 then doSearch searchBuf (histIdx - 1) .reverse
      else searchLoop mark backup backupPos fuel searchBuf histIdx .reverse false
    | .forwardSearchHistory =>
      if histIdx + 1 < cfg.hist.length then doSearch searchBuf (histIdx + 1) .forward
      else searchLoop mark backup backupPos fuel searchBuf histIdx .forward false
    | .abort => do
      lb S U (LB.update S U backup backupPos)
      refreshLine S U cfg
      truncateChanges mark
      pure none
    | _ => do
      -- every other command ends the search; the read's own prompt is restored first (repair of D42:
      -- before it only `Move` commands repainted)
      refreshLine S U cfg
      let _ ← changesEnd
      pure (some cmd)

def reverseIncrementalSearch (fuel : Nat) : EM (Option Cmd) := do
  if cfg.hist.isEmpty then pure none
  else do
    let mark ← changesBegin
    let l ← getLine
    searchLoop S U cfg mark l.buf l.pos fuel [] (cfg.hist.length - 1) .reverse true

/-- the dispatch loop for commands that need extra input (`Complete`, `ReverseSearchHistory`) -/
def preCmds : Nat → Cmd → EM (Option Cmd)
  | 0, _ => exit .fuel
  | fuel + 1, cmd =>
    if cmd == .complete && cfg.hasHelper then do
      match ← completeLine S U cfg fuel with
      | some next => preCmds fuel next
      | none => pure none
    else if cmd == .reverseSearchHistory then do
      match ← reverseIncrementalSearch S U cfg fuel with
      | some next => preCmds fuel next
      | none => pure none
    else pure (some cmd)

/-- main loop of `readline_edit` -/
def mainLoop : Nat → EM Unit
  | 0 => exit .fuel
  | fuel + 1 => do
    let cmd0 ← nextCmd S U cfg fuel false false
    if cmd0.shouldResetKillRing then modify (fun s => { s with ring := s.ring.reset })
    -- commands that need extra input (each may hand back the command that ended it)
    match ← preCmds S U cfg fuel cmd0 with
    | none => mainLoop fuel
    | some cmd =>
    if cmd == .suspend then do
      modify (fun s => { s with suspends := s.suspends + 1 })
      refreshLine S U cfg
      mainLoop fuel
    else if cmd == .quotedInsert then do
      let c ← nextChar
      editInsert S U cfg c 1
      mainLoop fuel
    else do
      match ← execute S U cfg cmd with
      | .proceed => mainLoop fuel
      | .submit => pure ()

/-- `readline_edit` from a fresh state; the kill ring is carried over between reads -/
def initEd (ring : KillRing) (input : Input) : Ed :=
  { line := { buf := [], pos := 0, cap := 4096, canGrow := true },
    saved := { buf := [], pos := 0, cap := 4096, canGrow := true },
    changes := Changeset.new, ring := ring.reset, histIdx := histLen cfg,
    inp := {}, hint := none, highlightChar := false, defaultPrompt := true,
    input, obs := [], validatorCalls := [] }

def readline (ring : KillRing) (left right : Text) (input : Input) : Outcome × Ed :=
  let s0 := initEd cfg ring input
  let prog : EM Unit := do
    if !(left.isEmpty && right.isEmpty) then
      lb S U (LB.update S U (left ++ right) (blen left))
    refreshLine S U cfg
    mainLoop S U cfg (input.size + 2)
    -- `edit_move_buffer_end(ForcedRefresh)`
    editMove S U cfg (LB.moveBufferEnd S U)
  -- `self.term.writeln()` in `readline_with`, whatever `readline_edit` returned (C02 log only)
  match prog s0 with
  | .ok (_, s) => (.line s.line.buf, { s with render := .writeln :: s.render })
  | .error (o, s) => (o, { s with render := .writeln :: s.render })

end
end Rl
