/- Driver target `keys`: the first key decoded from a byte stream (vi insert mode: the first
   `Event::Any` callback is always for the first key). -/
import Rl.Wire
import Rl.Keys
namespace Rl.Drv.Keys
open Rl Rl.Wire

def hexVal (c : Char) : Option Nat :=
  if '0' ≤ c && c ≤ '9' then some (c.toNat - '0'.toNat)
  else if 'a' ≤ c && c ≤ 'f' then some (c.toNat - 'a'.toNat + 10)
  else none

def parseHex (s : String) : Option (List UInt8) :=
  let rec go : List Char → Option (List UInt8)
    | [] => some []
    | [_] => none
    | a :: b :: t => do
      let x ← hexVal a
      let y ← hexVal b
      let r ← go t
      pure (UInt8.ofNat (x * 16 + y) :: r)
  if s.isEmpty then none else go s.toList

def showCode : KeyCode → String
  | .char c => s!"c{c.toNat}"
  | .f n => s!"F{n}"
  | .unknownEscSeq => "UnknownEscSeq" | .backspace => "Backspace" | .backTab => "BackTab"
  | .bracketedPasteStart => "BracketedPasteStart" | .bracketedPasteEnd => "BracketedPasteEnd"
  | .delete => "Delete" | .down => "Down" | .end_ => "End" | .enter => "Enter" | .esc => "Esc"
  | .home => "Home" | .insert => "Insert" | .left => "Left" | .null => "Null"
  | .pageDown => "PageDown" | .pageUp => "PageUp" | .right => "Right" | .tab => "Tab" | .up => "Up"

def showKey (k : KeyEvent) : String := s!"{showCode k.code}.{k.mods}"

def showErr : RdErr → String
  | .eof => "eof" | .io => "io" | .invalidData => "invalid"

/-- request: `keys <t|-> chunk…`; observation: the key, or the error -/
def handle (_tbl : CharTable) (f : List String) (_impl : String) : Option (String × String) :=
  match f with
  | fl :: chunks => do
    let cs ← chunks.mapM parseHex
    let inp : Input :=
      if fl == "t" then { buf := [], avail := [], future := [cs.flatten] }
      else if fl == "-" then { buf := [], avail := [], future := cs }
      else { buf := [], avail := [], future := [] }
    if fl != "t" && fl != "-" then none
    else
      match inp.nextKey false with
      | .ok (k, _) => pure (showKey k, "-")
      | .error e => pure (showErr e, "-")
  | _ => none

end Rl.Drv.Keys
