/- Driver target `sqlite`: model observations for an operation sequence on the SQLite history and
   the C20 oracle's verdict on the implementation's observations. -/
import Rl.Wire
import Rl.Sqlite
import Rl.Spec.Sqlite
namespace Rl.Drv.Sqlite
open Rl Rl.Wire Rl.Sq

def parseDir (s : String) : Option Dir :=
  if s == "F" then some .forward else if s == "R" then some .reverse else none

def parseCfg (mx isp idp : String) : Option Cfg := do
  pure { maxLen := ← parseNat mx, ignoreSpace := ← parseBool isp, ignoreDups := ← parseBool idp }

def parseOp (tok : String) : Option QOp :=
  match splitOnChar tok ':' with
  | ["add", t] => (parseText t).map .add
  | ["max", n] => (parseNat n).map .setMax
  | ["dups", b] => (parseBool b).map .dups
  | ["space", b] => (parseBool b).map .space
  | ["reopen", mx, isp, idp] => (parseCfg mx isp idp).map .reopen
  | ["crash", mx, isp, idp, ts] => do pure (.crash (← parseCfg mx isp idp) (← parseTexts ts))
  | ["len"] => some .len
  | ["get", i, d] => do pure (.get (← parseNat i) (← parseDir d))
  | ["walk"] => some .walk
  | ["search", t, s, d] => do pure (.search (← parseText t) (← parseNat s) (← parseDir d))
  | ["sw", t, s, d] => do pure (.startsWith (← parseText t) (← parseNat s) (← parseDir d))
  | ["hint", t] => (parseText t).map .hint
  | _ => none

def showItems (l : List (Nat × Text)) : String :=
  if l.isEmpty then "~" else ";".intercalate (l.map (fun (i, e) => s!"{i}={showText e}"))

def showObs : QObs → String
  | .unit => "u"
  | .bool b => showBool b
  | .nat n => toString n
  | .bools bs => if bs.isEmpty then "-" else String.join (bs.map showBool)
  | .got none => "n"
  | .got (some (i, e)) => s!"{i}/{showText e}"
  | .found none => "n"
  | .found (some (i, e, p)) => s!"{i}/{showText e}/{p}"
  | .walk d u => s!"W/{showItems d}/{showItems u}"
  | .hint none => "panic"
  | .hint (some none) => "n"
  | .hint (some (some t)) => "s" ++ showText t
  | .err c => "err:" ++ c

def parseItems (s : String) : Option (List (Nat × Text)) :=
  if s == "~" then some []
  else (splitOnChar s ';').mapM (fun it =>
    match splitOnChar it '=' with
    | [i, t] => do pure (← parseNat i, ← parseText t)
    | _ => none)

/-- the implementation's token for `op`, as an observation (anything unexpected is an error) -/
def parseObs (op : QOp) (tok : String) : QObs :=
  let bad : QObs := .err (if tok.startsWith "err:" then (tok.drop 4).toString else "unparsed-" ++ tok)
  let r : Option QObs :=
    match op with
    | .add _ => (parseBool tok).map .bool
    | .setMax _ | .dups _ | .space _ | .reopen _ => if tok == "u" then some .unit else none
    | .crash _ _ =>
      if tok == "-" then some (.bools [])
      else (tok.toList.mapM (fun c => parseBool (String.singleton c))).map .bools
    | .len => (parseNat tok).map .nat
    | .get _ _ =>
      if tok == "n" then some (.got none)
      else match splitOnChar tok '/' with
        | [i, t] => do pure (.got (some (← parseNat i, ← parseText t)))
        | _ => none
    | .walk =>
      match splitOnChar tok '/' with
      | ["W", d, u] => do pure (.walk (← parseItems d) (← parseItems u))
      | _ => none
    | .search _ _ _ | .startsWith _ _ _ =>
      if tok == "n" then some (.found none)
      else match splitOnChar tok '/' with
        | [i, t, p] => do pure (.found (some (← parseNat i, ← parseText t, ← parseNat p)))
        | _ => none
    | .hint _ =>
      if tok == "n" then some (.hint (some none))
      else if tok == "panic" then some (.hint none)
      else if tok.startsWith "s" then (parseText (tok.drop 1).toString).map (fun t => .hint (some (some t)))
      else none
  r.getD bad

def opTexts : QOp → List Text
  | .add l | .hint l => [l]
  | .crash _ ls => ls
  | .search t _ _ | .startsWith t _ _ => [t]
  | _ => []

/-- request: `sqlite <max> <ignoreSpace> <ignoreDups> op…` -/
def handle (tbl : CharTable) (f : List String) (impl : String) : Option (String × String) :=
  match f with
  | mx :: isp :: idp :: ops => do
    let cfg ← parseCfg mx isp idp
    let ops ← ops.mapM parseOp
    if !(ops.all (fun o => (opTexts o).all tbl.knows)) then
      pure ("unknown-char", "unknown-char")
    else
      let (_, mo) := (Hist.openDb cfg {}).run tbl.ws ftsSimple ops
      let itoks := if impl.isEmpty then [] else impl.splitOn " "
      let verdict :=
        if itoks.length != ops.length then "fail:observation-count"
        else
          match Spec.Sq.judgeAll tbl.ws
              { max := cfg.maxLen, ignoreSpace := cfg.ignoreSpace, ignoreDups := cfg.ignoreDups } 0
              (ops.zip (List.zipWith parseObs ops itoks)) with
          | none => "ok"
          | some why => "fail:" ++ why
      pure (" ".intercalate (mo.map showObs), verdict)
  | _ => none

end Rl.Drv.Sqlite
