/- Driver targets `comp` (ops `esc`, `ext`), `clcp`, `cfs` (property C15): model observation and the
   verdict of the declarative spec on the implementation's observation. -/
import Rl.Wire
import Rl.Completion
import Rl.Spec.Completion
namespace Rl.Drv.Completion
open Rl Rl.Wire Rl.Completion

def parseQuote (s : String) : Option Quote :=
  if s == "N" then some .none else if s == "D" then some .double else if s == "S" then some .single else none

/-- (esc_char, break set) that `complete_path_unsorted` pairs with a quote kind -/
def ctxParams : Quote → Option Char × (Char → Bool)
  | .none => (some '\\', defaultBreak)
  | .double => (some '\\', dqSpecial)
  | .single => (none, defaultBreak)

def parseEntry (tok : String) : Option Entry :=
  match splitOnChar tok ':' with
  | [d, n, b] => do pure { dir := ← parseText d, name := ← parseText n, isDir := ← parseBool b }
  | _ => none

def showCands (start : Nat) (cs : List (Text × Text)) (re : List String) : String :=
  s!"{start}/{showTexts (cs.map (·.1))}/{showTexts (cs.map (·.2))}/" ++
    (if re.isEmpty then "~" else "|".intercalate re)

def stripSep (r : Text) : Text := if r.getLast? = some '/' then r.dropLast else r

/-- model observation of a `cfs` request -/
def modelFs (fs : Listing) (line : Text) (pos : Nat) : String :=
  match completePath defaultBreak dqSpecial fs line pos with
  | .panic => "panic"
  | .outOfModel => "out-of-model"
  | .ok (start, cs) =>
    match splitAtByte line start with
    | none => "panic"
    | some (pre, _) =>
      let re := cs.mapM (fun c =>
        let line2 := pre ++ stripSep c.2
        match completePath defaultBreak dqSpecial fs line2 (blen line2) with
        | .ok (s2, c2) => some s!"{s2}:{showTexts (c2.map (·.1))}"
        | _ => none)
      match re with
      | none => "bad-request"
      | some re => showCands start cs re

def parseRe (s : String) : Option (Nat × List Text) :=
  match splitOnChar s ':' with
  | [a, b] => do pure (← parseNat a, ← parseTexts b)
  | _ => none

/-- the implementation's `cfs` observation, structured for the oracle -/
def parseFsObs (impl : String) : Option (Nat × List Spec.Completion.Cand) :=
  match splitOnChar impl '/' with
  | [st, ds, rs, re] => do
    let st ← parseNat st
    let ds ← parseTexts ds
    let rs ← parseTexts rs
    let re ← if re == "~" then some [] else (splitOnChar re '|').mapM parseRe
    if ds.length ≠ rs.length ∨ ds.length ≠ re.length then none
    else
      pure (st, (ds.zip (rs.zip re)).map (fun (d, r, (s2, d2)) =>
        { display := d, replacement := r, reStart := s2, reDisplays := d2 }))
  | _ => none

def handle (target : String) (_tbl : CharTable) (f : List String) (impl : String) :
    Option (String × String) :=
  match target, f with
  | "comp", ["esc", q, t] => do
    let q ← parseQuote q
    let s ← parseText t
    let (esc, brk) := ctxParams q
    let e := escape esc brk q s
    let u := unescape esc e
    let spec :=
      match splitOnChar impl '/' with
      | [ie, iu] =>
        match parseText ie, parseText iu with
        | some ie, some iu => Spec.Completion.escVerdict defaultBreak q s ie iu
        | _, _ => "fail:unreadable"
      | _ => "fail:" ++ impl
    pure (s!"{showText e}/{showText u}", spec)
  | "comp", ["ext", e, l, p] => do
    let e ← parseBool e
    let line ← parseText l
    let pos ← parseNat p
    let esc := if e then some '\\' else none
    let m := match extractWord line pos esc defaultBreak with
      | some (st, w) => s!"{st}/{showText w}"
      | none => "panic"
    let spec :=
      match splitAtByte line pos with
      | none => "-"      -- a cursor inside a character is outside the API's contract
      | some (l, _) =>
        if e then
          match Spec.Completion.expectedWordHelper defaultBreak l with
          | some (st, w) => s!"{st}/{showText w}"
          | none => "-"
        else
          let (st, w) := Spec.Completion.expectedWordNoEsc defaultBreak l
          s!"{st}/{showText w}"
    pure (m, spec)
  | "clcp", _label :: cs => do
    let cs ← cs.mapM parseText
    let m := match longestCommonPrefix cs with
      | none => "panic"
      | some none => "n"
      | some (some p) => "s" ++ showText p
    let spec :=
      if impl == "n" then Spec.Completion.lcpVerdict cs none
      else if impl.startsWith "s" then
        match parseText (impl.drop 1).toString with
        | some p => Spec.Completion.lcpVerdict cs (some p)
        | none => "fail:unreadable"
      else "fail:" ++ impl
    pure (m, spec)
  | "cfs", _label :: l :: p :: es => do
    let line ← parseText l
    let pos ← parseNat p
    let fs ← es.mapM parseEntry
    let m := modelFs fs line pos
    let spec :=
      match splitAtByte line pos with
      | none => "-"
      | some (l, _) =>
        match parseFsObs impl with
        | some (st, cands) => Spec.Completion.fsVerdict defaultBreak fs l st cands
        | none => "fail:" ++ impl
    pure (m, spec)
  | _, _ => none

end Rl.Drv.Completion
