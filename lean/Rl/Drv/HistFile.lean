/- Driver target `hf`: model observations and spec verdict for a history-file scenario. -/
import Rl.Wire
import Rl.HistFile
import Rl.Spec.HistFile
namespace Rl.Drv.HistFile
open Rl Rl.Wire

/-- atoms: `e` (empty) or `c<cp>` / `x<byte>` joined by `,` -/
def parseAtom (s : String) : Option Atom :=
  match s.toList with
  | 'c' :: r => (String.ofList r).toNat?.map (fun n => .chr (Char.ofNat n))
  | 'x' :: r => (String.ofList r).toNat?.map .bad
  | _ => none

def parseAtoms (s : String) : Option (List Atom) :=
  if s == "e" then some [] else (splitOnChar s ',').mapM parseAtom

def showAtom : Atom → String
  | .chr c => "c" ++ toString c.toNat
  | .bad b => "x" ++ toString b

def showAtoms (f : List Atom) : String :=
  if f.isEmpty then "e" else ",".intercalate (f.map showAtom)

def parseOp (tok : String) : Option FOp :=
  match splitOnChar tok ':' with
  | ["e", t] => (parseText t).map .add
  | ["s"] => some .save
  | ["a"] => some .append
  | ["N"] => some .fresh
  | ["L"] => some .freshLoad
  | ["l"] => some .load
  | ["r"] => some .raw
  | ["d"] => some .dump
  | ["x"] => some .rm
  | ["c", k] => (parseNat k).map .cut
  | ["p", f] => (parseAtoms f).map .put
  | _ => none

def showStatus : HfStatus → String
  | .ok => "ok" | .invalidData => "invalid-data" | .io => "io" | .panic => "panic"

def parseStatus (s : String) : Option HfStatus :=
  if s == "ok" then some .ok else if s == "invalid-data" then some .invalidData
  else if s == "io" then some .io else if s == "panic" then some .panic else none

def showObs : FObs → String
  | .unit => "u"
  | .bool b => showBool b
  | .status s => showStatus s
  | .file none => "m"
  | .file (some f) => showAtoms f
  | .all es => showTexts es

/-- parse the implementation's observation token of an op -/
def parseObs : FOp → String → Option FObs
  | .add _, s => (parseBool s).map .bool
  | .save, s | .append, s | .freshLoad, s | .load, s => (parseStatus s).map .status
  | .fresh, s | .rm, s | .cut _, s | .put _, s => if s == "u" then some .unit else none
  | .raw, s => if s == "m" then some (.file none) else (parseAtoms s).map (fun f => .file (some f))
  | .dump, s => (parseTexts s).map .all

def opChars : FOp → List Char
  | .add l => l
  | .put f => f.filterMap (fun a => match a with | .chr c => some c | .bad _ => none)
  | _ => []

def zipParse : List FOp → List String → Option (List FObs)
  | [], [] => some []
  | op :: ops, s :: ss => do
    let o ← parseObs op s
    let os ← zipParse ops ss
    pure (o :: os)
  | _, _ => none

/-- request: `hf <max> <ignoreSpace> <ignoreDups> op…`. Returns (model obs, spec verdict on the
    implementation's observation). -/
def handle (tbl : CharTable) (f : List String) (impl : String) : Option (String × String) :=
  match f with
  | mx :: isp :: idp :: ops => do
    let mx ← parseNat mx
    let isp ← parseBool isp
    let idp ← parseBool idp
    let ops ← ops.mapM parseOp
    if !(ops.all (fun o => tbl.knows (opChars o))) then
      pure ("unknown-char", "unknown-char")
    else
      let (_, mo) := (World.new mx isp idp).run tbl.ws ops
      let model := " ".intercalate (mo.map showObs)
      let spec :=
        if impl == "panic" then "fail:panic"
        else
          let toks := if ops.isEmpty then [] else impl.splitOn " "
          match zipParse ops toks with
          | none => "fail:unparsable-observation"
          | some obs => Spec.HF.verdict tbl.ws mx isp idp ops obs
      pure (model, spec)
  | _ => none

end Rl.Drv.HistFile
