/- Driver target `hist`: model and spec observations for an operation sequence. -/
import Rl.Wire
import Rl.History
import Rl.Spec.History
namespace Rl.Drv.History
open Rl Rl.Wire

def parseDir (s : String) : Option Dir :=
  if s == "F" then some .forward else if s == "R" then some .reverse else none

def parseOp (tok : String) : Option HOp :=
  match splitOnChar tok ':' with
  | ["add", t] => (parseText t).map .add
  | ["addo", t] => (parseText t).map .addOwned
  | ["max", n] => (parseNat n).map .setMax
  | ["dups", b] => (parseBool b).map .dups
  | ["space", b] => (parseBool b).map .space
  | ["clear"] => some .clear
  | ["get", i] => (parseNat i).map .get
  | ["search", t, s, d] => do pure (.search (← parseText t) (← parseNat s) (← parseDir d))
  | ["sw", t, s, d] => do pure (.startsWith (← parseText t) (← parseNat s) (← parseDir d))
  | ["len"] => some .len
  | ["dump"] => some .dump
  | _ => none

def showObs : HObs → String
  | .unit => "u"
  | .bool b => showBool b
  | .nat n => toString n
  | .entry none => "n"
  | .entry (some e) => "s" ++ showText e
  | .found none => "n"
  | .found (some (i, e, p)) => s!"{i}/{showText e}/{p}"
  | .all es => showTexts es

def opTexts : HOp → List Text
  | .add l | .addOwned l => [l]
  | .search t _ _ | .startsWith t _ _ => [t]
  | _ => []

/-- request: `hist <mem|file> <max> <ignoreSpace> <ignoreDups> op…`; both history kinds share
    the store semantics, so the model run is the same. Returns (model obs, spec obs). -/
def handle (tbl : CharTable) (f : List String) (_impl : String) : Option (String × String) :=
  match f with
  | _kind :: mx :: isp :: idp :: ops => do
    let mx ← parseNat mx
    let isp ← parseBool isp
    let idp ← parseBool idp
    let ops ← ops.mapM parseOp
    if !(ops.all (fun o => (opTexts o).all tbl.knows)) then
      pure ("unknown-char", "unknown-char")
    else
      let (_, mo) := (MemHist.new mx isp idp).run tbl.ws ops
      let (_, so) := Spec.run tbl.ws { max := mx, ignoreSpace := isp, ignoreDups := idp } ops
      pure (" ".intercalate (mo.map showObs), " ".intercalate (so.map showObs))
  | _ => none

end Rl.Drv.History
