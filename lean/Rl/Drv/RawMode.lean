/- Driver target `raw` (property C16): the raw-mode model `Rl.RawMode` composed with the editor model
   (which decides how the read ends and how many suspend/resume round trips it makes), and the C16
   oracle evaluated on the implementation's observation. -/
import Rl.Wire
import Rl.RawMode
import Rl.Editor
import Rl.Drv.Keys
import Rl.Drv.Editor
import Rl.Spec.RawMode
namespace Rl.Drv.RawMode
open Rl Rl.Wire Rl.RawMode Rl.Drv.Keys

def showHex (n : Nat) : String := String.ofList (Nat.toDigits 16 n)

def showHex2 (n : Nat) : String := if n < 16 then "0" ++ showHex n else showHex n

/-- canonical lower-case hex without leading zeros -/
def parseHexNat (s : String) : Option Nat := do
  if s.isEmpty then none
  let ds ← s.toList.mapM hexVal
  let n := ds.foldl (fun acc d => acc * 16 + d) 0
  if showHex n == s then some n else none

def showTermios (t : Termios) : String :=
  ":".intercalate [showHex t.iflag.toNat, showHex t.oflag.toNat, showHex t.cflag.toNat, showHex t.lflag.toNat,
    showHex t.line, String.join (t.cc.map showHex2), showHex t.ispeed, showHex t.ospeed]

def parseTermios (s : String) : Option Termios :=
  match s.splitOn ":" with
  | [i, o, c, l, line, cc, isp, osp] => do
    let i ← parseHexNat i
    let o ← parseHexNat o
    let c ← parseHexNat c
    let l ← parseHexNat l
    let line ← parseHexNat line
    let isp ← parseHexNat isp
    let osp ← parseHexNat osp
    let cc ← parseHex cc
    if cc.length != 32 || line > 255 then none
    if i ≥ 2^32 || o ≥ 2^32 || c ≥ 2^32 || l ≥ 2^32 || isp ≥ 2^32 || osp ≥ 2^32 then none
    pure { iflag := BitVec.ofNat 32 i, oflag := BitVec.ofNat 32 o, cflag := BitVec.ofNat 32 c,
           lflag := BitVec.ofNat 32 l, line, cc := cc.map UInt8.toNat, ispeed := isp, ospeed := osp }
  | _ => none

def splitReads : List String → List (List String)
  | [] => [[]]
  | t :: rest =>
    match splitReads rest with
    | cur :: more => if t == "//" then [] :: cur :: more else (t :: cur) :: more
    | [] => [[t]]

def exitOf (o : Outcome) (validatorCalls : Nat) : Option Exit :=
  match o with
  | .line _ => some .line
  | .eof => some .eof
  | .interrupted => some .interrupt
  | .invalidData => some .invalidInput
  | .io => some .hangup            -- on the pty the only I/O error is the hang-up at the end of the script
  | .helperError => some .helperError
  | .panic => some (.helperPanic validatorCalls)
  | .fuel => none

def showSwitches (l : List Eff) : String :=
  let s := String.ofList ((switches l).map (fun e => if e == .pasteOn then 'h' else 'l'))
  if s.isEmpty then "-" else s

structure St where
  term : Term
  ring : KillRing
  buf : List UInt8 := []
  avail : List UInt8 := []
  gone : Bool := false
  out : List String := []   -- observation tokens, reversed groups
  hintCalls : Nat := 0      -- hinter calls so far (the helper outlives a read)

/-- request: `raw <mode> <flags> <termios> <helper> tok…` -/
def handle (tbl : CharTable) (f : List String) (impl : String) : Option (String × String) :=
  match f with
  | mode :: flags :: tio :: helper :: toks => do
    let vi ← if mode == "e" then some false else if mode == "v" then some true else none
    if flags.isEmpty then none
    let flags := if flags == "-" then "" else flags
    if !(flags.toList.all (fun c => "Bs".toList.contains c)) then none
    let t0 ← parseTermios tio
    let h ← Rl.Drv.Editor.parseHelper helper
    let readsToks := splitReads toks
    -- a read may start with `=<termios>`: settings the application installs before that read
    let reads ← readsToks.mapM (fun r =>
      match r with
      | t :: rest =>
        if t.startsWith "=" then do
          let tio ← parseTermios (t.drop 1).toString
          let ks ← rest.mapM parseHex
          pure (some tio, ks)
        else do pure (none, ← r.mapM parseHex)
      | [] => pure (none, []))
    let ecfg := Rl.Drv.Editor.mkCfg vi 80 "" [] h []
    let S := uaxSeg (Rl.Drv.Editor.clsOf tbl)
    let U := Rl.Drv.Editor.udataOf tbl
    let cfg : Cfg := { enableSignals := flags.contains 's', bracketedPaste := !flags.contains 'B' }
    let step (st : St) (rd : Option Termios × List (List UInt8)) : St :=
      if st.gone then st
      else
        let keys := rd.2
        let st := match rd.1 with
          | some t => { st with term := { st.term with termios := t } }
          | none => st
        let before := st.term.termios
        -- what the reader sees while it waits: the settings `enableRaw` installs
        let during := (enableRaw cfg st.term).2.termios
        let chunks := (keys.map (fun k => k.flatMap (ldiscIn during))).filter (fun k => !k.isEmpty)
        let input : Input := { buf := st.buf, avail := st.avail, future := chunks }
        let ecfg := { ecfg with hintCallsBase := st.hintCalls }
        let (o, s) := readline S U ecfg st.ring [] [] input
        match exitOf o s.validatorCalls.length with
        | none => { st with gone := true, out := "r=model-out-of-fuel" :: st.out }
        | some exit =>
          let sc : Script := { suspends := List.replicate s.suspends {}, exit }
          let (_, term') := readlineWith cfg sc st.term
          let hup := exit == .hangup
          let outcome := (if hup then "hup+" else "") ++ Rl.Drv.Editor.showOutcome o
          -- a helper panicking while the prompt is first drawn ends the read before it ever waits
          -- for a key: the harness then has no sample of the settings "during" the read
          let neverWaited := o == .panic && s.hintCalls == 1 && ecfg.hinterPanicAt == some (st.hintCalls + 1)
          let grp := [s!"b={showTermios before}", s!"d={if neverWaited then "-" else showTermios during}",
                      s!"a={if hup then "gone" else showTermios term'.termios}",
                      s!"p={showSwitches (term'.log.drop st.term.log.length)}", s!"r={outcome}"]
          { term := term', ring := s.ring, hintCalls := st.hintCalls + s.hintCalls,
            buf := (match o with | .line _ => s.input.buf | _ => []), avail := s.input.avail,
            gone := hup, out := " ".intercalate grp :: st.out }
    let st := reads.foldl step { term := Term.fresh t0, ring := KillRing.new 60 }
    let model := " // ".intercalate st.out.reverse
    let spec :=
      if impl == "" then "-"
      else match Rl.Spec.RawMode.parseImpl impl with
        | none => "fail:unparsable-implementation-observation"
        | some rs => Rl.Spec.RawMode.oracle rs
    pure (model, spec)
  | _ => none

end Rl.Drv.RawMode
