/-
  Driver target `render` (C02).
  request    : `render <prompt> <mode> <cols> <flags> <hist> <left> <right> <helper> <binds> key…`
               (fields after the prompt as for target `ed`)
  impl obs   : `<line>/<pos>/<hint|n>/<mode>/<keys>/<n>/<positive> … => <outcome> O=<seg>|<seg>|…` — one state per `Event::Any`
               callback, and the bytes (hex, `-` = none) the editor wrote before the first callback,
               between consecutive callbacks, and after the last one.
  The bytes are fed to the Lean terminal emulator.  Oracle: at every callback the emulated screen must
  show the state the callback saw under the prompt on display (the read's own, or inside an incremental search the
  search prompt: `Rl/Spec/OracleScreen.lean`, from the callbacks' keys and the stored history); at the end the final-state rule.  Correspondence: the model editor's
  render log, replayed through the model renderer and the same emulator, must give the same callback
  states, the same screen and cursor at every callback and at the end, and the same outcome — screens
  are compared, never the spelling of escape sequences.  When they agree the model answer is the
  implementation's observation itself.
-/
import Rl.Wire
import Rl.Editor
import Rl.Drv.Keys
import Rl.Drv.Editor
import Rl.Layout
import Rl.Term
import Rl.Render
import Rl.Spec.Screen
import Rl.Spec.EdObs
import Rl.Spec.OracleScreen
namespace Rl.Drv.Render
open Rl Rl.Wire Rl.Drv.Keys Rl.Drv.Editor Rl.Spec

structure SyncState where
  line : Text
  pos : Nat
  hint : Option Text
deriving DecidableEq, Repr

def ofCb (c : ScreenCb) : SyncState := { line := c.line, pos := c.pos, hint := c.hint }

def parseHint (s : String) : Option (Option Text) :=
  if s == "n" then some none else (parseText s).map some

def parseState (s : String) : Option ScreenCb :=
  match s.splitOn "/" with
  | [l, p, h, m, k, n, pos] => do
    pure { line := ← parseText l, pos := ← p.toNat?, hint := ← parseHint h, mode := m,
           keys := ← (k.splitOn "+").mapM parseKeyEv, n := ← n.toNat?, positive := ← parseBool pos }
  | _ => none

def decodeSeg (s : String) : Option Text :=
  if s == "-" then some []
  else do
    let bytes ← parseHex s
    let str ← String.fromUTF8? (ByteArray.mk bytes.toArray)
    pure str.toList

structure ImplR where
  states : List ScreenCb
  outcome : String
  segs : List Text

def parseImplR (impl : String) : Option ImplR :=
  let toks := impl.splitOn " "
  let st := toks.takeWhile (· != "=>")
  match (toks.dropWhile (· != "=>")).drop 1 with
  | [o, segs] => do
    let segs ← stripPrefix? segs "O="
    pure { states := ← st.mapM parseState, outcome := o, segs := ← (segs.splitOn "|").mapM decodeSeg }
  | _ => none

/-- screen + cursor as compared between implementation and model -/
structure View where
  cells : List (List (Text × Bool))
  cr : Nat
  cc : Nat
  pending : Bool
deriving DecidableEq

def viewOf (t : Term) : View := { cells := t.grid.canon, cr := t.cr, cc := t.cc, pending := t.pending }

/-- feed the segments one after the other; the terminal after each -/
def feedSegs (cw : Char → Nat) (t : Term) : List Text → List Term
  | [] => []
  | s :: rest => let t' := t.feed cw s; t' :: feedSegs cw t' rest

def splitBefore (line : Text) (pos : Nat) : Text × Text :=
  match splitAtByte line pos with
  | some p => p
  | none => (line, [])

def firstSome {α : Type} : List (Option α) → Option α
  | [] => none
  | some a :: _ => some a
  | none :: t => firstSome t

def zipIdx {α : Type} (l : List α) : List (Nat × α) := (List.range l.length).zip l

/-- the property oracle on the implementation's output -/
def oracle (cw : Char → Nat) (cols : Nat) (prompt : Text) (hist : List Text) (o : ImplR) : Option String :=
  let terms := feedSegs cw (Term.blank cols) o.segs
  if terms.length != o.states.length + 1 then some "segments-and-callbacks-out-of-step"
  else
    -- the prompt on display at each callback: the own one, or the search prompt inside an incremental search
    let shown := promptsOnDisplay prompt hist o.states
    let perSync := (zipIdx ((o.states.zip terms).zip shown)).map (fun (i, (st, t), p?) =>
      match p? with
      | none => none
      | some p =>
        let (b, a) := splitBefore st.line st.pos
        (showsCheck cw t p b a (st.hint.getD [])).map (fun why => s!"key{i}:{why}"))
    match firstSome perSync with
    | some why => some why
    | none =>
      match terms.getLast? with
      | none => none
      | some t =>
        -- the text on screen when the read returns
        let fin : Option (Text × Text) :=
          if o.outcome.startsWith "line:" then (parseText (o.outcome.drop 5).toString).map (fun l => (l, []))
          else if o.outcome == "eof" then some ([], [])
          else if o.outcome == "int" then o.states.getLast?.map (fun st => (st.line, st.hint.getD []))
          else none
        match fin with
        | none => none
        | some (l, h) => finalCheck cw t prompt l h

def syncOfOp : RenderOp → Option SyncState
  | .sync l p h => some { line := l, pos := p, hint := h }
  | _ => none

def handle (tbl : CharTable) (f : List String) (impl : String) : Option (String × String) :=
  match f with
  | prompt :: mode :: cols :: flags :: hist :: left :: right :: helper :: binds :: keys => do
    let prompt ← parseText prompt
    let vi ← if mode == "e" then some false else if mode == "v" then some true else none
    let cols ← cols.toNat?
    if cols < 2 then none
    let flags := if flags == "-" then "" else flags
    if !(flags.toList.all (fun c => "tplBsrw".toList.contains c)) then none
    let hist ← parseTexts hist
    let left ← parseText left
    let right ← parseText right
    let h ← parseHelper helper
    let binds ← parseBinds binds
    let chunks ← keys.mapM parseHex
    let input : Input :=
      if flags.contains 't' then { buf := [], avail := [], future := if chunks.flatten.isEmpty then [] else [chunks.flatten] }
      else { buf := [], avail := [], future := chunks }
    let S := uaxSeg (clsOf tbl)
    let U := udataOf tbl
    let cw : Char → Nat := fun c => ((tbl.find c).map (·.width)).getD 1
    let R : RCfg := { cols, gw := U.width, cw }
    let psize := calculatePosition S R prompt {}
    let _ := psize
    let cfg := { mkCfg vi cols flags hist h binds with prompt := prompt }
    let (o, s) := readline S U cfg (KillRing.new 60) left right input
    let outcome := (if o == .io then "hup+" else "") ++ showOutcome o
    -- model renderer
    let ops := s.render.reverse
    let (rs, panicked) := RS.run S R prompt (RS.init S R prompt) ops
    let msegs := rs.segs.reverse ++ [rs.out]
    let mstates := ops.filterMap syncOfOp
    let mterms := feedSegs cw (Term.blank cols) msegs
    match parseImplR impl with
    | none =>
      if impl == "" then pure (s!"model-only {outcome} syncs={mstates.length}", "-")
      else if impl == "panic" then pure ((if panicked || o == .panic then "panic" else "model:" ++ outcome), "fail:panic")
      else pure ("unparsable", "fail:unparsable-implementation-observation")
    | some io =>
      let spec := match oracle cw cols prompt hist io with
        | none => "ok"
        | some why => "fail:" ++ why
      let iterms := feedSegs cw (Term.blank cols) io.segs
      let diff : Option String :=
        if panicked then some "model-renderer-panic"
        else if outcome != io.outcome then some s!"outcome:{outcome}"
        else if mstates != io.states.map ofCb then
          some s!"callback-states:{mstates.length}:{io.states.length}"
        else
          -- after a hang-up nothing more reaches the terminal, and a panic (D5: `y ^` in vi mode) unwinds
          -- past the final newline: the last segment is not compared then
          let k := if io.outcome.startsWith "hup+" || io.outcome == "panic" then mstates.length else mstates.length + 1
          firstSome ((zipIdx ((mterms.zip iterms).take k)).map (fun (i, mt, it) =>
            if viewOf mt == viewOf it then none
            else some s!"screen@{i}:model-cursor:{mt.cr},{mt.cc},{mt.pending}:impl-cursor:{it.cr},{it.cc},{it.pending}"))
      match diff with
      | none => pure (impl, spec)
      | some d => pure ("diff:" ++ d, spec)
  | _ => none

end Rl.Drv.Render
