/-
  Driver targets `lb` (oracle: C03) and `lb4` (oracle: C04).
  request: `lb <cap> <text> <pos> <i|s> op…` — the buffer is built as the harness builds it
  (`with_capacity(cap)`, `insert_str(0, text)`, `set_pos(pos)`); mode `i` applies every op to that
  initial state independently, mode `s` applies them in sequence (stopping at the first panic).
  observation per op: `buf/pos/ret/notifications` or `panic`.
-/
import Rl.Wire
import Rl.LineBuffer
import Rl.Spec.LineBuffer
import Rl.Spec.Motion
namespace Rl.Drv.LineBuffer
open Rl Rl.Wire

def parseCount (s : String) : Option Nat := do
  let n ← parseNat s
  if n ≤ 65535 then some n else none

def parseChar (s : String) : Option Char := do
  let n ← parseNat s
  if n < 0xD800 || (0xE000 ≤ n && n ≤ 0x10FFFF) then some (Char.ofNat n) else none

def parseWord : String → Option Word
  | "B" => some .big | "E" => some .emacs | "V" => some .vi | _ => none
def parseAt : String → Option At
  | "S" => some .start | "B" => some .beforeEnd | "A" => some .afterEnd | _ => none
def parseCS (k c : String) : Option CharSearch := do
  let c ← parseChar c
  match k with
  | "f" => some (.forward c) | "t" => some (.forwardBefore c)
  | "F" => some (.backward c) | "T" => some (.backwardAfter c) | _ => none

def parseMvt : List String → Option Movement
  | ["WL"] => some .wholeLine | ["BOL"] => some .beginningOfLine | ["EOL"] => some .endOfLine
  | ["BW", n, w] => do pure (.backwardWord (← parseCount n) (← parseWord w))
  | ["FW", n, a, w] => do pure (.forwardWord (← parseCount n) (← parseAt a) (← parseWord w))
  | ["CS", n, k, c] => do pure (.viCharSearch (← parseCount n) (← parseCS k c))
  | ["VFP"] => some .viFirstPrint
  | ["BC", n] => (parseCount n).map .backwardChar
  | ["FC", n] => (parseCount n).map .forwardChar
  | ["LU", n] => (parseCount n).map .lineUp
  | ["LD", n] => (parseCount n).map .lineDown
  | ["WB"] => some .wholeBuffer | ["BOB"] => some .beginningOfBuffer | ["EOB"] => some .endOfBuffer
  | _ => none

def parseOp (tok : String) : Option Op :=
  match splitOnChar tok ':' with
  | ["up", t, p] => do pure (.update (← parseText t) (← parseNat p))
  | ["ins", c, n] => do pure (.insert (← parseChar c) (← parseCount n))
  | ["yk", t, n] => do pure (.yank (← parseText t) (← parseCount n))
  | ["yp", k, t] => do pure (.yankPop (← parseNat k) (← parseText t))
  | ["mb", n] => (parseCount n).map .moveBackward
  | ["mf", n] => (parseCount n).map .moveForward
  | ["bs"] => some .moveBufferStart | ["be"] => some .moveBufferEnd
  | ["mfp"] => some .moveToFirstPrint
  | ["mh"] => some .moveHome | ["me"] => some .moveEnd | ["eoi"] => some .isEndOfInput
  | ["del", n] => (parseCount n).map .delete
  | ["bsp", n] => (parseCount n).map .backspace
  | ["kl"] => some .killLine | ["kb"] => some .killBuffer
  | ["dl"] => some .discardLine | ["db"] => some .discardBuffer | ["tc"] => some .transposeChars
  | ["pw", w, n] => do pure (.moveToPrevWord (← parseWord w) (← parseCount n))
  | ["dpw", w, n] => do pure (.deletePrevWord (← parseWord w) (← parseCount n))
  | ["nw", a, w, n] => do pure (.moveToNextWord (← parseAt a) (← parseWord w) (← parseCount n))
  | ["dw", a, w, n] => do pure (.deleteWord (← parseAt a) (← parseWord w) (← parseCount n))
  | ["lu", n, pc] => do pure (.moveToLineUp (← parseCount n) (← parseCount pc))
  | ["ld", n, pc] => do pure (.moveToLineDown (← parseCount n) (← parseCount pc))
  | ["mt", k, c, n] => do pure (.moveTo (← parseCS k c) (← parseCount n))
  | ["dt", k, c, n] => do pure (.deleteTo (← parseCS k c) (← parseCount n))
  | ["ew", "C"] => some (.editWord .capitalize)
  | ["ew", "L"] => some (.editWord .lowercase)
  | ["ew", "U"] => some (.editWord .uppercase)
  | ["tw", n] => (parseCount n).map .transposeWords
  | ["rp", a, b, t] => do pure (.replace (← parseNat a) (← parseNat b) (← parseText t))
  | ["istr", i, t] => do pure (.insertStr (← parseNat i) (← parseText t))
  | ["dr", a, b] => do pure (.deleteRange (← parseNat a) (← parseNat b))
  | "cp" :: m => (parseMvt m).map .copy
  | "k" :: m => (parseMvt m).map .kill
  | "ind" :: k :: d :: m => do
    let k ← parseNat k
    if k > 255 then none
    pure (.indent (← parseMvt m) k (← parseBool d))
  | ["sp", p] => (parseNat p).map .setPos
  | ["np", n] => (parseCount n).map .nextPos
  | _ => none

/-- characters mentioned by an op (must be in the charinfo table) -/
def mvtChars : Movement → Text
  | .viCharSearch _ (.forward c) | .viCharSearch _ (.forwardBefore c)
  | .viCharSearch _ (.backward c) | .viCharSearch _ (.backwardAfter c) => [c]
  | _ => []

def opChars : Op → Text
  | .update t _ | .yank t _ | .yankPop _ t | .replace _ _ t | .insertStr _ t => t
  | .insert c _ => [c]
  | .moveTo (.forward c) _ | .moveTo (.forwardBefore c) _ | .moveTo (.backward c) _
  | .moveTo (.backwardAfter c) _ => [c]
  | .deleteTo (.forward c) _ | .deleteTo (.forwardBefore c) _ | .deleteTo (.backward c) _
  | .deleteTo (.backwardAfter c) _ => [c]
  | .copy m | .kill m | .indent m _ _ => mvtChars m
  | _ => []

def showDir : Direction → String
  | .forward => "F" | .backward => "B" | .around k => s!"A{k}"

def showNotif : Notif → String
  | .insChar i c => s!"ic.{i}.{c.toNat}"
  | .insStr i s => s!"is.{i}.{showText s}"
  | .del i s d => s!"d.{i}.{showText s}.{showDir d}"
  | .repl i o n => s!"r.{i}.{showText o}.{showText n}"
  | .startKill => "sk"
  | .stopKill => "ek"

def showNotifs (ns : List Notif) : String :=
  if ns.isEmpty then "~" else ";".intercalate (ns.map showNotif)

def showB (b : Bool) : String := if b then "T" else "F"

def showRet : Ret → String
  | .unit => "u"
  | .bool b => showB b
  | .optBool none | .optText none | .optNat none => "n"
  | .optBool (some b) => "s" ++ showB b
  | .optText (some t) => "s" ++ showText t
  | .optNat (some k) => "s" ++ toString k

def showOutcome : Spec.Outcome → String
  | none => "panic"
  | some (buf, pos, r, ns) => s!"{showText buf}/{pos}/{showRet r}/{showNotifs ns}"

/-! parsing of the implementation's observation (for the oracles) -/

def parseNotif (s : String) : Option Notif :=
  match splitOnChar s '.' with
  | ["ic", i, c] => do pure (.insChar (← parseNat i) (← parseChar c))
  | ["is", i, t] => do pure (.insStr (← parseNat i) (← parseText t))
  | ["d", i, t, "F"] => do pure (.del (← parseNat i) (← parseText t) .forward)
  | ["d", i, t, "B"] => do pure (.del (← parseNat i) (← parseText t) .backward)
  | ["d", i, t, d] =>
    -- `delete_around`: `A<k>`, the part before the cursor is `k` bytes long
    if d.startsWith "A" then do pure (.del (← parseNat i) (← parseText t) (.around (← parseNat (d.drop 1).toString)))
    else none
  | ["r", i, o, n] => do pure (.repl (← parseNat i) (← parseText o) (← parseText n))
  | ["sk"] => some .startKill
  | ["ek"] => some .stopKill
  | _ => none

def parseNotifs (s : String) : Option (List Notif) :=
  if s == "~" then some [] else (splitOnChar s ';').mapM parseNotif

/-- the return value is parsed with the shape the model's return has -/
def parseRet (shape : Ret) (s : String) : Option Ret :=
  let body := (s.drop 1).toString
  match shape with
  | .unit => if s == "u" then some .unit else none
  | .bool _ => if s == "T" then some (.bool true) else if s == "F" then some (.bool false) else none
  | .optBool _ =>
    if s == "n" then some (.optBool none) else if s == "sT" then some (.optBool (some true))
    else if s == "sF" then some (.optBool (some false)) else none
  | .optText _ =>
    if s == "n" then some (.optText none)
    else if s.startsWith "s" then (parseText body).map (fun t => .optText (some t)) else none
  | .optNat _ =>
    if s == "n" then some (.optNat none)
    else if s.startsWith "s" then (parseNat body).map (fun t => .optNat (some t)) else none

def retShape : Op → Ret
  | .update _ _ | .replace _ _ _ | .deleteRange _ _ | .setPos _ => .unit
  | .insert _ _ | .yank _ _ | .yankPop _ _ => .optBool none
  | .delete _ | .copy _ => .optText none
  | .nextPos _ => .optNat none
  | _ => .bool false

def parseOutcome (op : Op) (s : String) : Option Spec.Outcome :=
  if s == "panic" then some none
  else
    match splitOnChar s '/' with
    | [b, p, r, ns] => do
      pure (some (← parseText b, ← parseNat p, ← parseRet (retShape op) r, ← parseNotifs ns))
    | _ => none

def mkU (tbl : CharTable) : UData where
  alnum := tbl.alnum
  ws := tbl.ws
  upper := fun c => ((tbl.find c).map (·.upper)).getD [c]
  lower := fun c => ((tbl.find c).map (·.lower)).getD [c]
  width := fun t => (t.map (fun c => ((tbl.find c).map (·.width)).getD 0)).sum
  cwidth := fun c => ((tbl.find c).map (·.width)).getD 1

def mkS (tbl : CharTable) : Segmenter :=
  uaxSeg (fun c => ((tbl.find c).map (·.gcb)).getD "Other")

def runOp (S : Segmenter) (U : UData) (lb : LB) (op : Op) : Spec.Outcome × LB :=
  match Op.run S U op lb with
  | .ok (r, lb', ns) => (some (lb'.buf, lb'.pos, r, ns), lb')
  | .error _ => (none, lb)

/-- model observations: independent or sequential -/
def runModel (S : Segmenter) (U : UData) (indep : Bool) (lb0 : LB) : LB → List Op → List Spec.Outcome
  | _, [] => []
  | lb, op :: ops =>
    let (o, lb') := runOp S U lb op
    match o with
    | none => if indep then none :: runModel S U indep lb0 lb0 ops else [none]
    | some _ => o :: runModel S U indep lb0 (if indep then lb0 else lb') ops

/-- which oracle -/
inductive Oracle | c03 | c04

/-- walk the implementation's observations, checking each step against the oracle; the old state of
    each step is the implementation's own previous observation -/
def oracleGo (S : Segmenter) (U : UData) (orc : Oracle) (indep : Bool) (lb0 : LB) (cap0 : Option Nat) :
    Nat → LB → Option Nat → List (String × Op) → List String → String
  | _, _, _, [], [] => "ok"
  | _, _, _, [], _ :: _ => "fail:obs-count"
  | _, _, _, _ :: _, [] => "ok"   -- sequence ended at a panic that was already judged
  | k, old, capK, (tok, op) :: ops, o :: os =>
    match parseOutcome op o with
    | none => s!"fail:{k}:{tok}:unparsable-observation"
    | some out =>
      let bad : Option String := match orc with
        | .c03 => Spec.c03Step old capK op out
        | .c04 => Spec.c04Step S U old op out
      match bad with
      | some why => s!"fail:{k}:{(splitOnChar tok ':').headD ""}:{why}"
      | none =>
        if indep then oracleGo S U orc indep lb0 cap0 (k + 1) lb0 cap0 ops os
        else
          match out with
          | none => "ok"
          | some (buf, pos, _, _) =>
            -- `transpose_words` can grow the `String` in the middle of the call
            let capK' := match capK, op with
              | _, .transposeWords _ => none
              | some c, _ => if blen buf > c then none else some c
              | none, _ => none
            oracleGo S U orc indep lb0 cap0 (k + 1) { old with buf := buf, pos := pos } capK' ops os

def handleWith (orc : Oracle) (tbl : CharTable) (f : List String) (impl : String) : Option (String × String) :=
  match f with
  | cap :: text :: pos :: mode :: ops => do
    let cap ← parseNat cap
    if cap > 1048576 then none
    let text ← parseText text
    let pos ← parseNat pos
    let indep ← if mode == "i" then some true else if mode == "s" then some false else none
    let toks := ops
    let ops ← ops.mapM parseOp
    if !(tbl.knows text && ops.all (fun o => tbl.knows (opChars o))) then
      pure ("unknown-char", "unknown-char")
    else
      let S := mkS tbl
      let U := mkU tbl
      -- the harness builds the state with `with_capacity`, `insert_str(0, text)`, `set_pos(pos)`
      let init : Except Panic LB :=
        match (do let _ ← LB.insertStr S U 0 text; LB.setPosChecked S U pos : LM Unit) (LB.withCapacity cap) with
        | .ok (_, lb, _) => .ok lb
        | .error e => .error e
      match init with
      | .error _ => pure ("init-panic", "ok")
      | .ok lb0 =>
        let outs := runModel S U indep lb0 lb0 ops
        let cap0 : Option Nat := if blen text ≤ cap then some cap else none
        let implToks := if impl.isEmpty then [] else splitOnChar impl ' '
        let verdict :=
          if impl == "init-panic" || impl == "bad-request" then "fail:init"
          else oracleGo S U orc indep lb0 cap0 0 lb0 cap0 (toks.zip ops) implToks
        pure (" ".intercalate (outs.map showOutcome), verdict)
  | _ => none

def handle := handleWith .c03
def handle4 := handleWith .c04

end Rl.Drv.LineBuffer
