/- Driver targets `sess` (k sessions on one file, one process, interleaved program; model +
   oracle) and `sessx` (truly concurrent workers; property oracle only). -/
import Rl.Wire
import Rl.HistFile
import Rl.FileSession
import Rl.Spec.FileSession
import Rl.Drv.HistFile
namespace Rl.Drv.FileSession
open Rl Rl.Wire Rl.Drv.HistFile
open Rl.Spec.FS (TOp TObs Cfg)

/-- the limit of the history the file is read back into (harness: same constant) -/
def bigMax : Nat := 1000000

def parseCfg (s : String) : Option Cfg :=
  match splitOnChar s ':' with
  | [m, i, d] => do pure { max := ← parseNat m, isp := ← parseBool i, idp := ← parseBool d }
  | _ => none

/-- initial entries are written by the harness itself: non-empty, nothing that needs escaping -/
def plainEntry (t : Text) : Bool := !t.isEmpty && t.all (fun c => c != '\n' && c != '\r' && c != '\\')

/-- `!` = no file, else a text list -/
def parseInit (s : String) : Option (Option (List Text)) :=
  if s == "!" then some none
  else do
    let es ← parseTexts s
    if es.all plainEntry then pure (some es) else none

def parseIdx (r : List Char) : Option Nat := (String.ofList r).toNat?

def parseOp (tok : String) : Option TOp :=
  match splitOnChar tok ':' with
  | [one] =>
    match one.toList with
    | ['d'] => some .dump
    | 'l' :: r => (parseIdx r).map .load
    | 'p' :: r => (parseIdx r).map .append
    | 's' :: r => (parseIdx r).map .save
    | 'm' :: r => (parseIdx r).map .touch
    | _ => none
  | [a, t] =>
    match a.toList with
    | 'a' :: r => do pure (.add (← parseIdx r) (← parseText t))
    | _ => none
  | _ => none

def parseOptNat (s : String) : Option (Option Nat) :=
  if s == "n" then some none else (parseNat s).map some

def parseOptTexts (s : String) : Option (Option (List Text)) :=
  if s == "x" then some none else (parseTexts s).map some

def showOptTexts : Option (List Text) → String
  | none => "x"
  | some es => showTexts es

def showOptAtoms : Option (List Atom) → String
  | none => "m"
  | some f => showAtoms f

/-- parse the implementation's observation token of an op -/
def parseObs (op : TOp) (s : String) : Option TObs :=
  match op with
  | .load _ => (parseStatus s).map .status
  | .add _ _ => (parseBool s).map .bool
  | .append _ | .save _ =>
    match splitOnChar s '/' with
    | [st, mt, _, lst, es] => do
      pure (.write (← parseStatus st) (← parseOptNat mt) (← parseStatus lst) (← parseOptTexts es))
    | _ => none
  | .touch _ => if s == "u" then some .unit else none
  | .dump =>
    match splitOnChar s '/' with
    | _ :: lst :: es :: sessions => do
      pure (.dump (← parseStatus lst) (← parseOptTexts es) (← sessions.mapM parseTexts))
    | _ => none

/-- the file as the real loader reads it back: status and entries -/
def readBack (ws : Char → Bool) (file : Option FS.FileVal) : String :=
  match file with
  | none => "io/x"
  | some f =>
    let r := loadFrom ws f.content (FileHist.new bigMax false false)
    showStatus r.status ++ "/" ++ (if r.status = .ok then showTexts r.h.mem.entries else "x")

def showFile (ws : Char → Bool) (s : FS.Sys) : String :=
  showOptAtoms (s.file.map (·.content)) ++ "/" ++ readBack ws s.file

/-- run the model over the ops; the modification times of the writes are taken from the
    implementation's observations. `none` = the request is malformed (session index) -/
def runModel (ws : Char → Bool) (k : Nat) (initMissing : Bool) :
    FS.Sys → List TOp → List (Option TObs) → Option (List String)
  | _, [], _ => some []
  | s, op :: ops, obs =>
    let o := obs.head?.join
    let rest := obs.drop 1
    let mtOf : Option Nat :=
      match o with
      | some (.write _ (some mt) _ _) => some mt
      | _ => none
    let cur := (s.file.map (·.mtime)).getD 0
    match op with
    | .load i =>
      if i ≥ k then none else
      let r := s.load ws i
      (runModel ws k initMissing r.1 ops rest).map (showStatus r.2 :: ·)
    | .add i l =>
      if i ≥ k then none else
      let r := s.add ws i l
      (runModel ws k initMissing r.1 ops rest).map (showBool r.2 :: ·)
    | .append i =>
      if i ≥ k then none else
      let r := s.append ws i (mtOf.getD cur)
      let mt := match r.1.file with | none => "n" | some f => toString f.mtime
      (runModel ws k initMissing r.1 ops rest).map
        ((showStatus r.2 ++ "/" ++ mt ++ "/" ++ showFile ws r.1) :: ·)
    | .save i =>
      if i ≥ k then none else
      let r := s.save i (mtOf.getD cur)
      let mt := match r.1.file with | none => "n" | some f => toString f.mtime
      (runModel ws k initMissing r.1 ops rest).map
        ((showStatus r.2 ++ "/" ++ mt ++ "/" ++ showFile ws r.1) :: ·)
    | .touch j0 =>
      -- the j-th distinct modification time seen so far (index taken modulo their number); a
      -- missing file, or the placeholder index 0 of an initially missing file: nothing happens
      let j := j0 % (s.clock + 1)
      let s' := if s.file.isNone || (initMissing && j == 0) then s else s.touch j
      (runModel ws k initMissing s' ops rest).map ("u" :: ·)
    | .dump =>
      let ss := (List.range k).map (fun i => showTexts (s.sess i).fh.mem.entries)
      (runModel ws k initMissing s ops rest).map
        (("/".intercalate (showFile ws s :: ss)) :: ·)

def opChars : TOp → List Char
  | .add _ l => l
  | _ => []

def zipParse : List TOp → List String → List (Option TObs)
  | op :: ops, s :: ss => parseObs op s :: zipParse ops ss
  | _, _ => []

/-- request: `sess <cfg;cfg;…> <init> op…` -/
def handle (tbl : CharTable) (f : List String) (impl : String) : Option (String × String) :=
  match f with
  | cfgs :: init :: ops => do
    let cfgs ← (splitOnChar cfgs ';').mapM parseCfg
    let init ← parseInit init
    let ops ← ops.mapM parseOp
    if !(ops.all (fun o => tbl.knows (opChars o)) && tbl.knows ((init.getD []).flatten)) then
      pure ("unknown-char", "unknown-char")
    else
      let k := cfgs.length
      let cfgFn : Nat → Nat × Bool × Bool := fun i =>
        match cfgs[i]? with
        | some c => (c.max, c.isp, c.idp)
        | none => (0, false, false)
      let file0 : Option FS.FileVal := init.map (fun es => { content := atomsOf (fileOf es), mtime := 0 })
      let toks := if ops.isEmpty || impl == "panic" then [] else impl.splitOn " "
      let obs := zipParse ops toks
      let mo ← runModel tbl.ws k init.isNone (FS.Sys.init file0 cfgFn) ops obs
      let model := " ".intercalate mo
      let spec :=
        if impl == "panic" then "fail:panic"
        else if toks.length ≠ ops.length then "fail:unparsable-observation"
        else
          match obs.mapM id with
          | none => "fail:unparsable-observation"
          | some obs => Spec.FS.verdict tbl.ws cfgs init ops obs
      pure (model, spec)
  | _ => none

/-- request: `sessx <mode> <workers> <iters> <max> <seed>`; observation
    `<init>/<allLoadsOk>/<final or x>/<worker0>/<worker1>/…` (text lists). No model: the first
    component of the answer repeats the observation, the second is the property oracle. -/
def handleX (_tbl : CharTable) (f : List String) (impl : String) : Option (String × String) :=
  match f with
  | [mode, _n, _iters, mx, _seed] => do
    let mx ← parseNat mx
    if impl == "panic" then pure ("-", "fail:panic") else
    match splitOnChar impl '/' with
    | init :: ok :: fin :: workers =>
      match parseTexts init, parseBool ok, parseOptTexts fin, workers.mapM parseTexts with
      | some init, some ok, some fin, some ws =>
        let total := init.length + (ws.map List.length).sum
        pure (impl, Spec.FS.concVerdict (decide (total ≤ mx) && (mode == "t" || mode == "p")) init ws ok fin)
      | _, _, _, _ => pure (impl, "fail:unparsable-observation")
    | _ => pure (impl, "fail:unparsable-observation")
  | _ => none

end Rl.Drv.FileSession
