/- Driver target `ed`: the editor model on a scripted key stream. -/
import Rl.Wire
import Rl.Editor
import Rl.Sqlite
import Rl.Drv.Keys
namespace Rl.Drv.Editor
open Rl Rl.Wire Rl.Drv.Keys

def udataOf (tbl : CharTable) : UData :=
  { alnum := tbl.alnum, ws := tbl.ws,
    upper := fun c => ((tbl.find c).map (·.upper)).getD [c],
    lower := fun c => ((tbl.find c).map (·.lower)).getD [c],
    width := fun t => (t.map (fun c => ((tbl.find c).map (·.swidth)).getD 1)).sum,
    cwidth := fun c => ((tbl.find c).map (·.width)).getD 1 }

def clsOf (tbl : CharTable) (c : Char) : String := ((tbl.find c).map (·.gcb)).getD "Other"

def parseKeyCode (s : String) : Option KeyCode :=
  if s.startsWith "c" then ((s.drop 1).toString.toNat?).map (fun n => KeyCode.char (Char.ofNat n))
  else match s with
    | "Up" => some .up | "Down" => some .down | "Left" => some .left | "Right" => some .right
    | "Home" => some .home | "End" => some .end_ | "Tab" => some .tab | "Enter" => some .enter
    | "Esc" => some .esc | "Backspace" => some .backspace | "Delete" => some .delete
    | _ => none

def parseKey (s : String) : Option KeyEvent :=
  match s.splitOn "." with
  | [c, m] => do pure ⟨← parseKeyCode c, ← m.toNat?⟩
  | _ => none

def parseCmd (s : String) : Option Cmd :=
  match s with
  | "bol" => some (.move .beginningOfLine)
  | "eol" => some (.move .endOfLine)
  | "killeol" => some (.kill .endOfLine)
  | "killline" => some (.kill .wholeLine)
  | "undo" => some (.undo 1)
  | "yank" => some (.yank 1 .before)
  | "noop" => some .noop
  | "accept" => some .acceptLine
  | "newline" => some .newline
  | "upcase" => some .upcaseWord
  | "prev" => some .previousHistory
  | "fwd2" => some (.move (.forwardChar 2))
  | "insx" => some (.selfInsert 1 'x')
  | "insab" => some (.insert 1 ['a', 'b'])
  | "bwdword" => some (.move (.backwardWord 1 .emacs))
  | "killword" => some (.kill (.forwardWord 1 .afterEnd .emacs))
  | "delchar" => some (.kill (.forwardChar 1))
  | _ => none

def parseBinds (s : String) : Option (List (List KeyEvent × Cmd)) :=
  if s == "-" then some []
  else (s.splitOn ";").mapM (fun item =>
    match item.splitOn "@" with
    | [ks, c] => do pure (← (ks.splitOn "+").mapM parseKey, ← parseCmd c)
    | _ => none)

structure Helper where
  cands : Option (List Text) := none
  verdicts : List (Char × Char) := []
  bracketValidator : Bool := false
  hints : List (Char × Text) := []
  bracketHl : Bool := false
  hintPanicAt : Option Nat := none

def parseHelper (s : String) : Option (Option Helper) :=
  if s == "-" then some none
  else do
    let parts := s.splitOn "|"
    let h ← parts.foldlM (fun (h : Helper) part =>
      if part.startsWith "C=" then do pure { h with cands := some (← parseTexts (part.drop 2).toString) }
      else if part == "Vb" then pure { h with bracketValidator := true }
      else if part.startsWith "V=" then do
        let items ← ((part.drop 2).toString.splitOn ";").mapM (fun it =>
          match it.splitOn "@" with
          | [c, v] => do
            let c ← c.toNat?
            let v ← v.toList.head?
            if "inmvep".toList.contains v then pure (Char.ofNat c, v) else none
          | _ => none)
        pure { h with verdicts := h.verdicts ++ items }
      else if part.startsWith "H=" then do
        let items ← ((part.drop 2).toString.splitOn ";").mapM (fun it =>
          match it.splitOn "@" with
          | [c, t] => do pure (Char.ofNat (← c.toNat?), ← parseText t)
          | _ => none)
        pure { h with hints := h.hints ++ items }
      else if part.startsWith "Ph=" then do
        let k ← (part.drop 3).toString.toNat?
        if k == 0 then none else pure { h with hintPanicAt := some k }
      else if part == "M" then pure { h with bracketHl := true }
      else none) {}
    pure (some h)

/-- `validate_brackets` -/
def validateBrackets (input : Text) : Verdict :=
  let rec go : Text → List Char → Verdict
    | [], stack => if stack.isEmpty then .valid false else .incomplete
    | c :: t, stack =>
      if c == '(' || c == '[' || c == '{' then go t (c :: stack)
      else if c == ')' || c == ']' || c == '}' then
        match stack with
        | o :: rest =>
          if (o == '(' && c == ')') || (o == '[' && c == ']') || (o == '{' && c == '}') then go t rest
          else .invalid true
        | [] => .invalid true
      else go t stack
  go input []

def rfindByte (c : Char) (t : Text) : Option Nat :=
  let rec go (off : Nat) (best : Option Nat) : Text → Option Nat
    | [] => best
    | x :: xs => go (off + x.utf8Size) (if x == c then some off else best) xs
  go 0 none t

def takeBytes (t : Text) (n : Nat) : Text := match splitAtByte t n with | some (a, _) => a | none => t
def dropBytes (t : Text) (n : Nat) : Text := match splitAtByte t n with | some (_, b) => b | none => []

def mkCfg (vi : Bool) (cols : Nat) (flags : String) (hist : List Text) (h : Option Helper)
    (binds : List (List KeyEvent × Cmd)) : EdCfg :=
  let base : EdCfg := { vi, cols, listCompletion := flags.contains 'l', withPrinter := flags.contains 'p',
                        hist, binds, hasHelper := h.isSome,
                        hasCompleter := (h.map (fun h => h.cands.isSome)).getD false }
  match h with
  | none => base
  | some h =>
    { base with
      hinterPanicAt := h.hintPanicAt
      completer := fun line pos =>
        match h.cands with
        | none => (0, [])
        | some cs =>
          let pre := takeBytes line pos
          let start := match rfindByte ' ' pre with | some i => i + 1 | none => 0
          let word := dropBytes pre start
          (start, cs.filter (fun c => word.isPrefixOf c))
      validator := fun text =>
        if h.bracketValidator then validateBrackets text
        else match h.verdicts.find? (fun p => text.contains p.1) with
          | some (_, v) =>
            if v == 'i' then .incomplete else if v == 'n' then .invalid false
            else if v == 'm' then .invalid true else if v == 'v' then .valid true
            else if v == 'e' then .error else if v == 'p' then .panic else .valid false
          | none => .valid false
      hinter := fun line pos =>
        if pos < blen line then none
        else match line.getLast? with
          | some last => (h.hints.find? (fun p => p.1 == last)).map (·.2)
          | none => none }

def showObs (o : Obs) : String :=
  s!"{showText o.line}/{o.pos}/{o.mode}/{showBool o.hasHint}/{"+".intercalate (o.keys.map showKey)}/{o.n}/{showBool o.positive}"

def showOutcome : Outcome → String
  | .line t => "line:" ++ showText t
  | .eof => "eof" | .interrupted => "int" | .io => "io" | .invalidData => "invalid"
  | .helperError => "helper-err" | .panic => "panic" | .fuel => "model-out-of-fuel"

/-- the history field of target `ed07s`: `[<n>!]<texts>` — the texts are handed to
    `SQLiteHistory::add` in order (default configuration: `max_history_size` 100, `ignore_space`
    off, duplicates replaced through the unique index), then `set_max_len(n)` is called if the
    prefix `<n>!` is present.  Result: the surviving entries in row order and their row store. -/
def parseSqliteHist (ws : Char → Bool) (field : String) : Option (List Text × RowStore) := do
  let (trim, texts) ← match field.splitOn "!" with
    | [t] => pure (none, t)
    | [n, t] => do pure (some (← n.toNat?), t)
    | _ => none
  let adds ← parseTexts texts
  let h0 := Sq.Hist.openDb { maxLen := 100, ignoreSpace := false, ignoreDups := true } {}
  let h1 := adds.foldl (fun h l => (h.add ws l).1) h0
  let h2 := match trim with | some n => h1.setMaxLen n | none => h1
  pure (h2.db.rows.map (·.entry), { idx := h2.db.rows.map (fun r => r.rowid - 1), len := h2.len })

/-- request: `ed <mode> <cols> <flags> <hist> <left> <right> <helper> <binds> key…`;
    `sqlite`: the history field is that of `ed07s` and the history is a row store -/
def handleCore (tbl : CharTable) (f : List String) (sqlite : Bool := false) : Option (String × EdCfg) :=
  match f with
  | mode :: cols :: flags :: hist :: left :: right :: helper :: binds :: keys => do
    let vi ← if mode == "e" then some false else if mode == "v" then some true else none
    let cols ← cols.toNat?
    if cols < 2 then none
    let flags := if flags == "-" then "" else flags
    if !(flags.toList.all (fun c => "tplBsrw".toList.contains c)) then none
    let (hist, rows) ← if sqlite then (parseSqliteHist tbl.ws hist).map (fun p => (p.1, some p.2))
                       else (parseTexts hist).map (fun h => (h, none))
    let left ← parseText left
    let right ← parseText right
    let h ← parseHelper helper
    let binds ← parseBinds binds
    let chunks ← keys.mapM parseHex
    let input : Input :=
      if flags.contains 't' then { buf := [], avail := [], future := if chunks.flatten.isEmpty then [] else [chunks.flatten] }
      else { buf := [], avail := [], future := chunks }
    let cfg := { mkCfg vi cols flags hist h binds with histRows := rows }
    let S := uaxSeg (clsOf tbl)
    let U := udataOf tbl
    let (o, s) := readline S U cfg (KillRing.new 60) left right input
    let hup := o == .io
    let outcome := (if hup then "hup+" else "") ++ showOutcome o
    let paste := if flags.contains 'B' then "-" else if hup then "on" else "off"
    let obs := " ".intercalate (s.obs.reverse.map showObs)
    let tail := s!"=> {outcome} H={showTexts hist} T=1 P={paste} V={showTexts s.validatorCalls.reverse}"
    pure ((if obs.isEmpty then tail else obs ++ " " ++ tail), cfg)
  | _ => none

end Rl.Drv.Editor
