/- Driver target `hint`: `HistoryHinter::hint` over a history built with `add`. -/
import Rl.Wire
import Rl.History
import Rl.Hint
import Rl.Spec.History
import Rl.Spec.Hint
namespace Rl.Drv.Hint
open Rl Rl.Wire

def showHint : Option (Option Text) → String
  | none => "panic"
  | some none => "n"
  | some (some t) => "s" ++ showText t

/-- request: `hint <mem|file> <max> <ignoreSpace> <ignoreDups> <line> <pos> entry…`.
    Model: the entries are `add`ed to a fresh history, `Context::new` puts the index at `len`.
    Spec: for `pos ≤ len(line)` the observation the declarative spec prescribes (entries by the
    declarative store spec); for `pos > len(line)` (outside the documented use: `pos` is the cursor
    inside `line`) there is no oracle. -/
def handle (tbl : CharTable) (f : List String) (_impl : String) : Option (String × String) :=
  match f with
  | kind :: mx :: isp :: idp :: line :: pos :: es => do
    if kind != "mem" && kind != "file" then none
    let mx ← parseNat mx
    let isp ← parseBool isp
    let idp ← parseBool idp
    let line ← parseText line
    let pos ← parseNat pos
    let es ← es.mapM parseText
    if !((line :: es).all tbl.knows) then
      pure ("unknown-char", "unknown-char")
    else
      let h := (MemHist.new mx isp idp).addAll tbl.ws es
      let m := showHint (historyHintNew h line pos)
      let s :=
        if pos > blen line then "-"
        else
          let st := Spec.addAll tbl.ws { max := mx, ignoreSpace := isp, ignoreDups := idp } es
          showHint (some (Spec.hint st.entries st.entries.length line pos))
      pure (m, s)
  | _ => none

end Rl.Drv.Hint
