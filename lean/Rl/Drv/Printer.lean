/- Driver target `pr` (property C19): the observed trace must be a trace of the protocol model
   (Rl/Printer.lean) — then the model observation echoes the implementation's — and the declarative
   oracle (Rl/Spec/Printer.lean) is evaluated on it.

   request `pr <threads 1..3> <cols> <seed> item…`
     p:<t>:<id>:<n|l>  thread t prints message id, with / without trailing line break (asynchronous)
     r                 start a read (asynchronous)
     k:<key>           type a key (p<cp> | e | s | x), no waiting
     q                 wait until the reader sleeps / no read runs
     s                 wait until every issued print call has returned
     y                 short seed-dependent pause -/
import Rl.Wire
import Rl.Printer
import Rl.Spec.Printer
namespace Rl.Drv.Printer
open Rl Rl.Wire Rl.Printer Rl.Spec.Printer

inductive Item
  | print (t id : Nat) | read | key (k : Key) | quiet | sync | pause
deriving DecidableEq

def parseItem (n : Nat) (tok : String) : Option Item :=
  match splitOnChar tok ':' with
  | ["p", t, id, nl] => do
    let t ← t.toNat?
    let id ← id.toNat?
    if t < n && (nl == "n" || nl == "l") then some (.print t id) else none
  | ["r"] => some .read
  | ["k", k] => (parseKey k).map .key
  | ["q"] => some .quiet
  | ["s"] => some .sync
  | ["y"] => some .pause
  | _ => none

/-- ids are unique; a digit-argument key is not directly followed by another one -/
def wellFormed (items : List Item) : Bool :=
  let ids := items.filterMap (fun i => match i with | .print _ id => some id | _ => none)
  let ks := items.filterMap (fun i => match i with | .key k => some k | _ => none)
  ids.eraseDups.length == ids.length &&
  (ks.zip (ks.drop 1)).all (fun (a, b) => !(a == Key.sub && b == Key.sub))

/-- the main-thread events the request prescribes, in order -/
def expectedMain (items : List Item) : List (Option TEv) :=
  items.flatMap (fun i => match i with
    | .print t id => [some (.issue t id)]
    | .read => [some .read]
    | .key k => [some (.keyW k), some .keyD]
    | .quiet => [none]        -- some Q
    | .sync => [some (.sync true)]   -- S:1 or S:0
    | .pause => [])

def isStream : TEv → Bool
  | .on | .off | .prompt | .shown _ | .direct _ | .broken => true
  | _ => false

def mainMatches : List (Option TEv) → List TEv → Bool
  | [], [] => true
  | none :: es, .quiet _ :: os => mainMatches es os
  | some (.sync _) :: es, .sync _ :: os => mainMatches es os
  | some e :: es, o :: os => e == o && mainMatches es os
  | _, _ => false

def handle (_tbl : CharTable) (f : List String) (impl : String) : Option (String × String) :=
  match f with
  | n :: cols :: seed :: toks => do
    let n ← n.toNat?
    let cols ← cols.toNat?
    let _ ← seed.toNat?
    if n < 1 || n > 3 || cols < 10 || cols > 200 then none
    let items ← toks.mapM (parseItem n)
    if !wellFormed items then none
    match parseObs impl with
    | none => pure ("unparsable-implementation-observation", "fail:unparsable-implementation-observation")
    | some o =>
      let tr := o.trace.map (·.1)
      let model :=
        if !mainMatches (expectedMain items) (tr.filter (fun e => !isStream e)) then "trace-does-not-follow-the-request"
        else match accepts n tr o.results with
          | .ok _ => impl
          | .error w => "not-a-trace-of-the-model:" ++ w
      pure (model, verdict o)
  | _ => none

end Rl.Drv.Printer
