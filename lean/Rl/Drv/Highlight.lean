/- Driver target `hl`: a sequence of `highlight_char` / `highlight` calls on one `MatchingBracketHighlighter`. -/
import Rl.Wire
import Rl.Highlight
import Rl.Spec.Highlight
namespace Rl.Drv.Highlight
open Rl Rl.Wire Rl.Highlight

def parseKind (s : String) : Option Kind :=
  if s == "M" then some .moveCursor else if s == "O" then some .other else if s == "F" then some .forced else none

def parseOp (tok : String) : Option Op :=
  match splitOnChar tok ':' with
  | ["hc", t, p, k] => do pure (.hchar (← parseText t) (← parseNat p) (← parseKind k))
  | ["hl", t] => (parseText t).map .hl
  | _ => none

def showObs : Obs → String
  | .bool b => showBool b
  | .borrowed => "b"
  | .owned t => "o" ++ showText t

def showRun : Option (List Obs) → String
  | none => "panic"
  | some os => " ".intercalate (os.map showObs)

/-- request: `hl op…` with `op = hc:<line>:<pos>:<M|O|F>` | `hl:<line>` -/
def handle (_tbl : CharTable) (f : List String) (_impl : String) : Option (String × String) := do
  let ops ← f.mapM parseOp
  let m := showRun (run none ops)
  let s := match Spec.Highlight.run none ops with
    | none => "-"
    | some os => showRun (some os)
  pure (m, s)

end Rl.Drv.Highlight
