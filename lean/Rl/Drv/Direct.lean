/- Driver targets `direct` (model and spec of the non-terminal read path) and `seg` (the concrete
   UAX #29 segmenter, compared with `unicode-segmentation`). -/
import Rl.Wire
import Rl.Seg
import Rl.Direct
import Rl.Spec.Direct
namespace Rl.Drv.Direct
open Rl Rl.Wire Rl.Direct

def validCp (n : Nat) : Bool := n < 0xD800 || (0xE000 ≤ n && n < 0x110000)

def allDigits (s : String) : Bool := !s.isEmpty && s.toList.all Char.isDigit

/-- token `cp` or `cpxN` -/
def parseTok (rep : Bool) (tok : String) : Option Text :=
  match splitOnChar tok 'x' with
  | [cp] => do
    if !allDigits cp then none
    let n ← cp.toNat?
    if validCp n then some [Char.ofNat n] else none
  | [cp, k] => do
    if !rep || !allDigits cp || !allDigits k then none
    let n ← cp.toNat?
    let k ← k.toNat?
    if validCp n && k ≤ 100000 then some (List.replicate k (Char.ofNat n)) else none
  | _ => none

def parseStream (rep : Bool) (toks : List String) : Option Text :=
  (toks.mapM (parseTok rep)).map List.flatten

def parseScript (s : String) : Option (List Nat) :=
  if s == "-" then some []
  else s.toList.mapM (fun c => if '0' ≤ c && c ≤ '5' then some (c.toNat - 48) else none)

def scripted (script : List Nat) (t : Text) : Verdict :=
  let sum := (t.map Char.toNat).foldl (· + ·) 0
  match script[sum % script.length]? with
  | some 0 => .valid
  | some 1 => .invalidMsg
  | some 2 => .invalidNone
  | some 3 => .incomplete
  | some 4 => .error
  | _ => .valid

def cls (tbl : CharTable) (c : Char) : String := ((tbl.find c).map (·.gcb)).getD "Other"

def showRes : DResult → String
  | .line t => "l" ++ showText t
  | .eof => "eof"
  | .err => "io"
  | .panic => "panic"

def showAll (rs : List DResult) : String := " ".intercalate (rs.map showRes)

/-- request `direct <v> <script> <term> tok…` (without the target name) -/
def handle (tbl : CharTable) (f : List String) (_impl : String) : Option (String × String) :=
  match f with
  | v :: script :: term :: toks => do
    let script ← parseScript script
    let _ ← parseBool term
    let stream ← parseStream true toks
    let (mV, sV) : Option (Text → Verdict) × Option (Text → Verdict) ←
      (if v == "0" then (if script.isEmpty then some (none, none) else none)
       else if v == "1" then
         (if script.isEmpty then some (some validateBrackets, some (Spec.Direct.brackets [])) else none)
       else if v == "2" then
         (if script.isEmpty then none else some (some (scripted script), some (scripted script)))
       else none)
    if !tbl.knows stream then pure ("unknown-char", "unknown-char")
    else
      let S := uaxSeg (cls tbl)
      pure (showAll (session S mV stream), showAll (Spec.Direct.expected S sV stream))
  | _ => none

/-- request `seg cp…` -/
def handleSeg (tbl : CharTable) (f : List String) (_impl : String) : Option (String × String) := do
  let t ← parseStream false f
  if !tbl.knows t then pure ("unknown-char", "-")
  else
    let ls := ((uaxSeg (cls tbl)).seg t).map List.length
    pure ((if ls.isEmpty then "-" else ",".intercalate (ls.map toString)), "-")

end Rl.Drv.Direct
