/- Driver targets `ed`, `ed13`, `ed17`, …: the editor model plus the property oracle selected by
   the target name, evaluated on the implementation's observation. -/
import Rl.Drv.Editor
import Rl.Spec.EdOracle
import Rl.Spec.OracleNav
import Rl.Spec.OracleSearch
import Rl.Spec.OracleComplete
import Rl.Spec.OracleKillUndo
import Rl.Spec.OracleDoc
namespace Rl.Drv.Ed
open Rl Rl.Wire Rl.Spec

def handle (tbl : CharTable) (target : String) (f : List String) (impl : String) : Option (String × String) := do
  let (model, cfg) ← Rl.Drv.Editor.handleCore tbl f (sqlite := target == "ed07s")
  if target == "ed" then pure (model, "-")
  else
    match parseImpl impl with
    | none => pure (model, if impl == "" then "-" else "fail:unparsable-implementation-observation")
    | some o =>
      if target == "ed01cov" then
        -- by hand only: how many of the callbacks the C01 oracle actually judged
        let ctx : DocCtx :=
          { S := uaxSeg (Rl.Drv.Editor.clsOf tbl), U := Rl.Drv.Editor.udataOf tbl, binds := cfg.binds,
            histEmpty := cfg.hist.isEmpty, hasCompleter := cfg.hasCompleter, validator := cfg.validator }
        let toks := ((f.drop 8).mapM Rl.Drv.Keys.parseHex).getD []
        pure (model, s!"cov:{(oracleC01Cov ctx toks o).2}/{o.cbs.length}")
      else
      let v : OVerdict :=
        if target == "ed17" then oracleC17 o
        else if target == "ed13" then firstFail [oracleC17 o, oracleC13 cfg.validator o]
        else if target == "ed07" || target == "ed07s" then firstFail [oracleC17 o, oracleC07 cfg.hist cfg.hasCompleter (!cfg.listCompletion) o]
        else if target == "ed08" then firstFail [oracleC17 o, oracleC08 cfg.hist o]
        else if target == "ed06" then firstFail [oracleC17 o, oracleC06 o]
        else if target == "ed05" then firstFail [oracleC17 o, oracleC05 cfg.hasCompleter (!cfg.hist.isEmpty) o]
        else if target == "ed01" then
          let ctx : DocCtx :=
            { S := uaxSeg (Rl.Drv.Editor.clsOf tbl), U := Rl.Drv.Editor.udataOf tbl, binds := cfg.binds,
              histEmpty := cfg.hist.isEmpty, hasCompleter := cfg.hasCompleter, validator := cfg.validator }
          let toks := ((f.drop 8).mapM Rl.Drv.Keys.parseHex).getD []
          firstFail [oracleC17 o, oracleC01 ctx toks o]
        else if target == "ed14" then firstFail [oracleC17 o, oracleC14 cfg.completer (!cfg.listCompletion) o]
        else none
      pure (model, verdictStr v)

end Rl.Drv.Ed
