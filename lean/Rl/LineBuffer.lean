/-
  Model of `src/line_buffer.rs` — every public `LineBuffer` method and the private helpers they use,
  transliterated loop for loop (Rust iterators become lists of `(byte offset, grapheme)`; `&mut self`
  becomes a returned state; every slice / `drain` / `insert_str` / `assert!` / checked subtraction is
  an `Except Panic` step).  Parametric in a lawful grapheme `Segmenter` and in the Unicode data `UData`.

  Shape: read-only helpers are `LB → … → Except Panic α`; mutating methods live in the small
  state+writer+exception monad `LM α = LB → Except Panic (α × LB × List Notif)` whose writer part is
  the list of listener calls in call order.

  `cap` is `String::capacity()`: the code consults it (`must_truncate`) in `insert`, `yank`, `update`
  only; every other growing method lets the `String` reallocate, which *changes* the capacity
  (`RawVec::grow_amortized`: `max(2*cap, needed, 8)`), so the model tracks it.
-/
import Rl.Text
import Rl.Seg
import Rl.Types
set_option linter.unusedVariables false
namespace Rl

/-- one call on the `ChangeListener` / `DeleteListener` -/
inductive Notif
  | insChar (i : Nat) (c : Char)
  | insStr (i : Nat) (s : Text)
  | del (i : Nat) (s : Text) (d : Direction)
  | repl (i : Nat) (old new : Text)
  | startKill
  | stopKill
deriving Repr, DecidableEq

structure UData where
  alnum : Char → Bool
  ws : Char → Bool
  upper : Char → Text
  lower : Char → Text
  /-- `Layout::width` of a string (grapheme-cluster mode fixed by the caller) -/
  width : Text → Nat
  /-- `cwidh(ch)`: the width of one `char` (0 for control characters); used by the fast path of
      `State::edit_insert` and by `calculate_position` -/
  cwidth : Char → Nat := fun _ => 1

structure LB where
  buf : Text
  pos : Nat
  cap : Nat
  canGrow : Bool
deriving Repr, DecidableEq

/-! ### slicing -/

/-- `(t[..a], t[a..b], t[b..])`; panics like `&t[a..b]` (`a > b`, `b > len`, off a char boundary) -/
def split3 (t : Text) (a b : Nat) : Except Panic (Text × Text × Text) :=
  if a ≤ b then
    match splitAtByte t b with
    | some (ab, c) =>
      match splitAtByte ab a with
      | some (x, y) => .ok (x, y, c)
      | none => .error .panic
    | none => .error .panic
  else .error .panic

def slice (t : Text) (a b : Nat) : Except Panic Text :=
  match split3 t a b with
  | .ok (_, y, _) => .ok y
  | .error e => .error e

def sliceFrom (t : Text) (a : Nat) : Except Panic Text :=
  match splitAtByte t a with
  | some (_, z) => .ok z
  | none => .error .panic

def sliceTo (t : Text) (b : Nat) : Except Panic Text :=
  match splitAtByte t b with
  | some (x, _) => .ok x
  | none => .error .panic

/-- `str::find(c)` for a `char` pattern: byte offset of the first occurrence -/
def findChar (c : Char) : Text → Option Nat
  | [] => none
  | x :: t => if x == c then some 0 else (findChar c t).map (· + x.utf8Size)

/-- `str::rfind(c)`: byte offset of the last occurrence -/
def rfindChar (c : Char) : Text → Option Nat
  | [] => none
  | x :: t =>
    match rfindChar c t with
    | some k => some (k + x.utf8Size)
    | none => if x == c then some 0 else none

/-- `char_indices().filter(|(_, ch)| ch == c)` as byte offsets, starting the count at `o` -/
def occGo (c : Char) : Nat → Text → List Nat
  | _, [] => []
  | o, x :: t => if x == c then o :: occGo c (o + x.utf8Size) t else occGo c (o + x.utf8Size) t

def occ (c : Char) (t : Text) : List Nat := occGo c 0 t

/-- `grapheme_indices(true)` -/
def gidxGo : Nat → List Text → List (Nat × Text)
  | _, [] => []
  | o, g :: gs => (o, g) :: gidxGo (o + blen g) gs

def gidx (S : Segmenter) (t : Text) : List (Nat × Text) := gidxGo 0 (S.seg t)

/-- `str::is_char_boundary` -/
def isCharBoundary (t : Text) (p : Nat) : Bool := (splitAtByte t p).isSome

/-- `while !s.is_char_boundary(m) { m -= 1 }` (fuel = `m`; offset 0 is always a boundary) -/
def floorBoundary (t : Text) : Nat → Nat
  | 0 => 0
  | m + 1 => if isCharBoundary t (m + 1) then m + 1 else floorBoundary t m

/-- `RawVec::grow_amortized` seen through `String::capacity()` -/
def growCap (cap newLen : Nat) : Nat :=
  if newLen > cap then max (max (2 * cap) newLen) 8 else cap

/-! ### word predicates (`is_start_of_word` … `is_other_char`) -/

def isViWordChar (U : UData) (g : Text) : Bool := g.all U.alnum || g == ['_']

def isWordChar (U : UData) : Word → Text → Bool
  | .emacs, g => g.all U.alnum
  | .vi, g => isViWordChar U g
  | .big, g => !g.any U.ws

def isOtherChar (U : UData) (g : Text) : Bool := !(g.any U.ws || isViWordChar U g)

def isStartOfWord (U : UData) (d : Word) (previous g : Text) : Bool :=
  (!isWordChar U d previous && isWordChar U d g)
    || (d == .vi && !isOtherChar U previous && isOtherChar U g)

def isEndOfWord (U : UData) (d : Word) (g next : Text) : Bool :=
  (!isWordChar U d next && isWordChar U d g)
    || (d == .vi && !isOtherChar U next && isOtherChar U g)

namespace LB

def len (lb : LB) : Nat := blen lb.buf

/-- `LineBuffer::with_capacity` -/
def withCapacity (cap : Nat) : LB := { buf := [], pos := 0, cap := cap, canGrow := false }

def mustTruncate (lb : LB) (newLen : Nat) : Bool := !lb.canGrow && newLen > lb.cap

/-! ### read-only helpers -/

def endOfLine (lb : LB) : Except Panic Nat := do
  let s ← sliceFrom lb.buf lb.pos
  match findChar '\n' s with
  | some n => pure (n + lb.pos)
  | none => pure lb.len

def startOfLine (lb : LB) : Except Panic Nat := do
  let s ← sliceTo lb.buf lb.pos
  match rfindChar '\n' s with
  | some i => pure (i + 1)
  | none => pure 0

/-- `first_print` (fix D46): offset of the first grapheme of the current line that holds no white space (vi `^`),
    the end of the line when the line is blank -/
def firstPrint (S : Segmenter) (U : UData) (lb : LB) : Except Panic Nat := do
  let start ← lb.startOfLine
  let e ← lb.endOfLine
  let line ← slice lb.buf start e
  match (gidx S line).find? (fun (_, g) => !g.any U.ws) with
  | some (i, _) => pure (start + i)
  | none => pure e

/-- `grapheme_at_cursor` -/
def graphemeAtCursor (S : Segmenter) (lb : LB) : Except Panic (Option Text) :=
  if lb.pos == lb.len then pure none
  else do
    let s ← sliceFrom lb.buf lb.pos
    pure (S.seg s).head?

/-- `next_pos` -/
def nextPos (S : Segmenter) (lb : LB) (n : Nat) : Except Panic (Option Nat) :=
  if lb.pos == lb.len then pure none
  else do
    let s ← sliceFrom lb.buf lb.pos
    pure (((gidx S s).take n).getLast?.map (fun (i, g) => i + lb.pos + blen g))

/-- `prev_pos` -/
def prevPos (S : Segmenter) (lb : LB) (n : Nat) : Except Panic (Option Nat) :=
  if lb.pos == 0 then pure none
  else do
    let s ← sliceTo lb.buf lb.pos
    pure ((((gidx S s).reverse).take n).getLast?.map (fun (i, _) => i))

/-- inner loop of `prev_word_pos`: `some (sow, rest)` on `break 'inner`, `none` on `break 'outer` -/
def pwInner (U : UData) (d : Word) : (Nat × Text) → List (Nat × Text) → Option (Nat × List (Nat × Text))
  | _, [] => none
  | (j, y), (i, x) :: rest =>
    -- on `break 'inner` the code keeps `x` for the next outer iteration (`carry = gi`)
    if isStartOfWord U d x y then some (j, (i, x) :: rest) else pwInner U d (i, x) rest

/-- outer loop of `prev_word_pos` (`for _ in 0..n`); the result is `sow` -/
def pwOuter (U : UData) (d : Word) : Nat → Nat → List (Nat × Text) → Nat
  | 0, sow, _ => sow
  | _ + 1, _, [] => 0
  | n + 1, _, gj :: rest =>
    match pwInner U d gj rest with
    | none => 0
    | some (j, rest') => pwOuter U d n j rest'

/-- `prev_word_pos` -/
def prevWordPos (S : Segmenter) (U : UData) (lb : LB) (pos : Nat) (d : Word) (n : Nat) :
    Except Panic (Option Nat) :=
  if pos == 0 then pure none
  else do
    let s ← sliceTo lb.buf pos
    pure (some (pwOuter U d n 0 (gidx S s).reverse))

inductive NwRes
  | found (wp : Nat) (gi : Nat × Text) (rest : List (Nat × Text))
  | out (gi : Nat × Text)

/-- inner loop of `next_word_pos` -/
def nwInner (U : UData) (a : At) (d : Word) : (Nat × Text) → List (Nat × Text) → NwRes
  | gi, [] => .out gi
  | (i, x), (j, y) :: rest =>
    -- on `break 'inner` the code keeps `gj` for the next outer iteration (`carry = gj`), except for
    -- `At::BeforeEnd`
    if a == .start && isStartOfWord U d x y then .found j (i, x) ((j, y) :: rest)
    else if a != .start && isEndOfWord U d x y then
      .found (if d == .emacs || a == .afterEnd then j else i) (i, x)
        (if a != .beforeEnd then (j, y) :: rest else rest)
    else nwInner U a d (j, y) rest

/-- outer loop of `next_word_pos`; result = `(wp, gi)` after the loop -/
def nwOuter (U : UData) (a : At) (d : Word) :
    Nat → Nat → Option (Nat × Text) → List (Nat × Text) → Nat × Option (Nat × Text)
  | 0, wp, gi, _ => (wp, gi)
  | _ + 1, _, _, [] => (0, none)
  | n + 1, _, _, g :: rest =>
    match nwInner U a d g rest with
    | .out gi => (0, some gi)
    | .found wp gi rest' => nwOuter U a d n wp (some gi) rest'

/-- `next_word_pos_`; `range`: the result delimits a range to kill/copy -/
def nextWordPosR (S : Segmenter) (U : UData) (lb : LB) (pos : Nat) (a : At) (d : Word) (n : Nat)
    (range : Bool) : Except Panic (Option Nat) :=
  if pos == lb.len then pure none
  else do
    let s ← sliceFrom lb.buf pos
    let gis := gidx S s
    let (gi0, gis) := if a == .beforeEnd then (gis.head?, gis.drop 1) else (none, gis)
    let (wp, gi) := nwOuter U a d n 0 gi0 gis
    if wp == 0 then
      if range || d == .emacs || a == .afterEnd then pure (some lb.len)
      else
        match gi with
        | some (i, _) => if i != 0 then pure (some (i + pos)) else pure none
        | none => pure none
    else pure (some (wp + pos))

/-- `next_word_pos` -/
def nextWordPos (S : Segmenter) (U : UData) (lb : LB) (pos : Nat) (a : At) (d : Word) (n : Nat) :
    Except Panic (Option Nat) := nextWordPosR S U lb pos a d n false

/-- loop of `n_lines_up` -/
def nluLoop (buf : Text) : Nat → Nat → Except Panic Nat
  | 0, start => pure start
  | k + 1, start =>
    if start == 0 then .error .panic   -- `start - 1` underflow (unreachable: start ≥ 1)
    else do
      let s ← sliceTo buf (start - 1)
      match rfindChar '\n' s with
      | some off => nluLoop buf k (off + 1)
      | none => pure 0

/-- `n_lines_up` -/
def nLinesUp (lb : LB) (n : Nat) : Except Panic (Option (Nat × Nat)) := do
  let pre ← sliceTo lb.buf lb.pos
  match rfindChar '\n' pre with
  | none => pure none
  | some off =>
    let start := off + 1
    let suf ← sliceFrom lb.buf lb.pos
    let e := match findChar '\n' suf with
      | some x => lb.pos + x + 1
      | none => lb.len
    let start ← nluLoop lb.buf n start
    pure (some (start, e))

/-- loop of `n_lines_down` -/
def nldLoop (buf : Text) : Nat → Nat → Except Panic Nat
  | 0, e => pure e
  | k + 1, e => do
    let s ← sliceFrom buf e
    match findChar '\n' s with
    | some off => nldLoop buf k (e + off + 1)
    | none => pure (blen buf)

/-- `n_lines_down` -/
def nLinesDown (lb : LB) (n : Nat) : Except Panic (Option (Nat × Nat)) := do
  let suf ← sliceFrom lb.buf lb.pos
  match findChar '\n' suf with
  | none => pure none
  | some off =>
    let e := lb.pos + off + 1
    let pre ← sliceTo lb.buf lb.pos
    let start := match rfindChar '\n' pre with
      | some i => i + 1
      | none => 0
    let e ← nldLoop lb.buf n e
    pure (some (start, e))

/-- `search_char_pos` -/
def searchCharPos (S : Segmenter) (lb : LB) (cs : CharSearch) (n : Nat) : Except Panic (Option Nat) := do
  match cs with
  | .backward c | .backwardAfter c =>
    let pre ← sliceTo lb.buf lb.pos
    let r := (((occ c pre).reverse).take n).getLast?
    match cs, r with
    | .backwardAfter _, some p => do
      let mid ← slice lb.buf p lb.pos
      match (S.seg mid).head? with
      | some g => pure (some (p + blen g))
      | none => pure (some (p + c.utf8Size))
    | _, _ => pure r
  | .forward c | .forwardBefore c =>
    match ← graphemeAtCursor S lb with
    | none => pure none
    | some cc =>
      let shift := lb.pos + blen cc
      if shift < lb.len then do
        let suf ← sliceFrom lb.buf shift
        match ((occ c suf).take n).getLast? with
        | none => pure none
        | some p =>
          match cs with
          | .forwardBefore _ => do
            let mid ← slice lb.buf lb.pos (shift + p)
            match (S.seg mid).getLast? with
            | none => .error .panic
            | some g =>
              if blen g ≤ shift + p then pure (some (shift + p - blen g)) else .error .panic
          | _ => pure (some (shift + p))
      else pure none

/-- `skip_whitespace` -/
def skipWhitespace (S : Segmenter) (U : UData) (lb : LB) : Except Panic (Option Nat) :=
  if lb.pos == lb.len then pure none
  else do
    let s ← sliceFrom lb.buf lb.pos
    pure (((gidx S s).find? (fun (_, g) => g.all U.alnum)).map (fun (i, _) => i + lb.pos))

/-- `is_end_of_input`: `pos >= buf.trim_end().len()` -/
def trimEndLen (ws : Char → Bool) (t : Text) : Nat := blen (t.reverse.dropWhile ws).reverse

def isEndOfInput (U : UData) (lb : LB) : Bool := lb.pos ≥ trimEndLen U.ws lb.buf

/-- `copy` -/
def copy (S : Segmenter) (U : UData) (lb : LB) (mvt : Movement) : Except Panic (Option Text) :=
  if lb.buf.isEmpty then pure none
  else
    match mvt with
    | .wholeLine => do
      let start ← lb.startOfLine
      let e ← lb.endOfLine
      if start == e then pure none else do
        let t ← slice lb.buf start e
        pure (some t)
    | .beginningOfLine => do
      let start ← lb.startOfLine
      if lb.pos == start then pure none else do
        let t ← slice lb.buf start lb.pos
        pure (some t)
    | .viFirstPrint => do
      let first ← firstPrint S U lb
      if first < lb.pos then do
        let t ← slice lb.buf first lb.pos
        pure (some t)
      else if first > lb.pos then do
        let t ← slice lb.buf lb.pos first
        pure (some t)
      else pure none
    | .endOfLine => do
      let e ← lb.endOfLine
      if lb.pos == e then pure none else do
        let t ← slice lb.buf lb.pos e
        pure (some t)
    | .endOfBuffer =>
      if lb.pos == lb.len then pure none else do
        let t ← sliceFrom lb.buf lb.pos
        pure (some t)
    | .wholeBuffer => if lb.buf.isEmpty then pure none else pure (some lb.buf)
    | .beginningOfBuffer =>
      if lb.pos == 0 then pure none else do
        let t ← sliceTo lb.buf lb.pos
        pure (some t)
    | .backwardWord n d => do
      match ← prevWordPos S U lb lb.pos d n with
      | none => pure none
      | some p => do
        let t ← slice lb.buf p lb.pos
        pure (some t)
    | .forwardWord n a d => do
      match ← nextWordPosR S U lb lb.pos a d n true with
      | none => pure none
      | some p => do
        let t ← slice lb.buf lb.pos p
        pure (some t)
    | .viCharSearch n cs => do
      let r ← match cs with
        | .forwardBefore c => searchCharPos S lb (.forward c) n
        | _ => searchCharPos S lb cs n
      match r with
      | none => pure none
      | some p =>
        match cs with
        | .backward _ | .backwardAfter _ => do
          let t ← slice lb.buf p lb.pos
          pure (some t)
        | .forwardBefore _ => do
          let t ← slice lb.buf lb.pos p
          pure (some t)
        | .forward c => do
          let t ← slice lb.buf lb.pos (p + c.utf8Size)
          pure (some t)
    | .backwardChar n => do
      match ← prevPos S lb n with
      | none => pure none
      | some p => do
        let t ← slice lb.buf p lb.pos
        pure (some t)
    | .forwardChar n => do
      match ← nextPos S lb n with
      | none => pure none
      | some p => do
        let t ← slice lb.buf lb.pos p
        pure (some t)
    | .lineUp n => do
      match ← nLinesUp lb n with
      | none => pure none
      | some (a, b) => do
        let t ← slice lb.buf a b
        pure (some t)
    | .lineDown n => do
      match ← nLinesDown lb n with
      | none => pure none
      | some (a, b) => do
        let t ← slice lb.buf a b
        pure (some t)

end LB

/-! ### the mutation monad -/

/-- state (`&mut self`) + writer (listener calls) + exception (panic) -/
def LM (α : Type) : Type := LB → Except Panic (α × LB × List Notif)

namespace LM

@[inline] def pure' {α : Type} (a : α) : LM α := fun lb => .ok (a, lb, [])

@[inline] def bind' {α β : Type} (m : LM α) (f : α → LM β) : LM β := fun lb =>
  match m lb with
  | .error e => .error e
  | .ok (a, lb1, n1) =>
    match f a lb1 with
    | .error e => .error e
    | .ok (b, lb2, n2) => .ok (b, lb2, n1 ++ n2)

instance : Monad LM where
  pure := pure'
  bind := bind'

/-- current state -/
def get : LM LB := fun lb => .ok (lb, lb, [])
def setPos (p : Nat) : LM Unit := fun lb => .ok ((), { lb with pos := p }, [])
def notify (n : Notif) : LM Unit := fun lb => .ok ((), lb, [n])
/-- run a read-only helper -/
def ro {α : Type} (f : LB → Except Panic α) : LM α := fun lb =>
  match f lb with
  | .ok a => .ok (a, lb, [])
  | .error e => .error e
def lift {α : Type} (e : Except Panic α) : LM α := fun lb =>
  match e with
  | .ok a => .ok (a, lb, [])
  | .error e => .error e
def panic {α : Type} : LM α := fun _ => .error .panic

end LM

namespace LB
open LM

/-- private `drain`: notify, then remove; returns the removed text -/
def drain (a b : Nat) (d : Direction) : LM Text := fun lb =>
  match split3 lb.buf a b with
  | .ok (x, y, z) => .ok (y, { lb with buf := x ++ z }, [.del a y d])
  | .error e => .error e

/-- private `drain_around`: remove `a..b`, in which the cursor stood at `cursor` before the command
    moved it to `a` -/
def drainAround (a b cursor : Nat) : LM Text := do
  if cursor ≤ a then drain a b .forward
  else
    let c := min cursor b
    let lb ← get
    let _ ← lift (slice lb.buf a c)   -- `&self.buf[range.start..cursor]`
    let _ ← lift (slice lb.buf c b)   -- `&self.buf[cursor..range.end]`
    drain a b (.around (c - a))

/-- `insert_str` -/
def insertStr (S : Segmenter) (U : UData) (idx : Nat) (s : Text) : LM Bool := fun lb =>
  match splitAtByte lb.buf idx with
  | some (x, z) =>
    .ok (idx == blen lb.buf,
         { lb with buf := x ++ s ++ z, cap := growCap lb.cap (blen lb.buf + blen s) },
         [.insStr idx s])
  | none => .error .panic

/-- `self.buf.insert(self.pos, ch); cl.insert_char(self.pos, ch)` -/
def insertCharAtPos (ch : Char) : LM Unit := fun lb =>
  match splitAtByte lb.buf lb.pos with
  | some (x, z) =>
    .ok ((), { lb with buf := x ++ [ch] ++ z, cap := growCap lb.cap (blen lb.buf + ch.utf8Size) },
         [.insChar lb.pos ch])
  | none => .error .panic

/-- `set_pos` -/
def setPosChecked (S : Segmenter) (U : UData) (p : Nat) : LM Unit := fun lb =>
  if p ≤ lb.len then .ok ((), { lb with pos := p }, []) else .error .panic

/-- `update` -/
def update (S : Segmenter) (U : UData) (buf : Text) (pos : Nat) : LM Unit := do
  if !(pos ≤ blen buf) then panic
  let lb ← get
  let _ ← drain 0 lb.len .forward
  let lb ← get
  let mx := lb.cap
  if lb.mustTruncate (blen buf) then
    let mx := floorBoundary buf mx
    let cut ← lift (sliceTo buf mx)
    let _ ← insertStr S U 0 cut
    setPos (min mx pos)
  else
    let _ ← insertStr S U 0 buf
    setPos pos

/-- `insert` -/
def insert (S : Segmenter) (U : UData) (ch : Char) (n : Nat) : LM (Option Bool) := do
  let lb ← get
  let shift := ch.utf8Size * n
  if lb.mustTruncate (lb.len + shift) then return none
  let push := lb.pos == lb.len
  if n == 1 then
    insertCharAtPos ch
  else
    let _ ← insertStr S U lb.pos (List.replicate n ch)
  setPos (lb.pos + shift)
  return some push

/-- `yank` -/
def yank (S : Segmenter) (U : UData) (text : Text) (n : Nat) : LM (Option Bool) := do
  let lb ← get
  let shift := blen text * n
  if text.isEmpty || lb.mustTruncate (lb.len + shift) then return none
  let push := lb.pos == lb.len
  if n == 1 then
    let _ ← insertStr S U lb.pos text
  else
    let _ ← insertStr S U lb.pos (List.replicate n text).flatten
  setPos (lb.pos + shift)
  return some push

/-- `yank_pop` -/
def yankPop (S : Segmenter) (U : UData) (yankSize : Nat) (text : Text) : LM (Option Bool) := do
  let lb ← get
  let e := lb.pos
  if yankSize > e then panic   -- `end - yank_size` underflow (dev build)
  let start := e - yankSize
  if yankSize > lb.len then panic   -- `self.buf.len() - yank_size` underflow (dev build; unreachable: pos ≤ len)
  -- the replacement does not fit: refuse before anything is removed (fix D44)
  if lb.mustTruncate (lb.len - yankSize + blen text) then return none
  let _ ← drain start e .forward
  setPos (lb.pos - yankSize)
  -- `Some(self.yank(text, 1, cl).unwrap_or(false))`: an empty replacement still changed the line
  let r ← yank S U text 1
  return some (r.getD false)

/-- `move_backward` -/
def moveBackward (S : Segmenter) (U : UData) (n : Nat) : LM Bool := do
  match ← ro (prevPos S · n) with
  | some p => setPos p; return true
  | none => return false

/-- `move_forward` -/
def moveForward (S : Segmenter) (U : UData) (n : Nat) : LM Bool := do
  match ← ro (nextPos S · n) with
  | some p => setPos p; return true
  | none => return false

def moveBufferStart (S : Segmenter) (U : UData) : LM Bool := do
  let lb ← get
  if lb.pos > 0 then setPos 0; return true else return false

def moveBufferEnd (S : Segmenter) (U : UData) : LM Bool := do
  let lb ← get
  if lb.pos == lb.len then return false else setPos lb.len; return true

def moveHome (S : Segmenter) (U : UData) : LM Bool := do
  let start ← ro startOfLine
  let lb ← get
  if lb.pos > start then setPos start; return true else return false

/-- `move_to_first_print` (fix D46) -/
def moveToFirstPrint (S : Segmenter) (U : UData) : LM Bool := do
  let p ← ro (firstPrint S U)
  let lb ← get
  setPos p
  return (p != lb.pos)

def moveEnd (S : Segmenter) (U : UData) : LM Bool := do
  let e ← ro endOfLine
  let lb ← get
  if lb.pos == e then return false else setPos e; return true

/-- `delete` -/
def delete (S : Segmenter) (U : UData) (n : Nat) : LM (Option Text) := do
  match ← ro (nextPos S · n) with
  | some p =>
    let lb ← get
    let chars ← drain lb.pos p .forward
    return some chars
  | none => return none

/-- `backspace` -/
def backspace (S : Segmenter) (U : UData) (n : Nat) : LM Bool := do
  match ← ro (prevPos S · n) with
  | some p =>
    let lb ← get
    let _ ← drain p lb.pos .backward
    setPos p
    return true
  | none => return false

/-- `kill_line` -/
def killLine (S : Segmenter) (U : UData) : LM Bool := do
  let lb ← get
  if !lb.buf.isEmpty && lb.pos < lb.len then
    let start := lb.pos
    let e ← ro endOfLine
    if start == e then
      let _ ← delete S U 1
    else
      let _ ← drain start e .forward
    return true
  else return false

/-- `kill_buffer` -/
def killBuffer (S : Segmenter) (U : UData) : LM Bool := do
  let lb ← get
  if !lb.buf.isEmpty && lb.pos < lb.len then
    let _ ← drain lb.pos lb.len .forward
    return true
  else return false

/-- `discard_line` -/
def discardLine (S : Segmenter) (U : UData) : LM Bool := do
  let lb ← get
  if lb.pos > 0 && !lb.buf.isEmpty then
    let start ← ro startOfLine
    let e := lb.pos
    if e == start then backspace S U 1
    else
      let _ ← drain start e .backward
      setPos start
      return true
  else return false

/-- `discard_buffer` -/
def discardBuffer (S : Segmenter) (U : UData) : LM Bool := do
  let lb ← get
  if lb.pos > 0 && !lb.buf.isEmpty then
    let _ ← drain 0 lb.pos .backward
    setPos 0
    return true
  else return false

/-- `transpose_chars` -/
def transposeChars (S : Segmenter) (U : UData) : LM Bool := do
  let lb ← get
  if lb.pos == 0 || (S.seg lb.buf).length < 2 then return false
  if lb.pos == lb.len then
    let _ ← moveBackward S U 1
  match ← delete S U 1 with
  | none => panic   -- `.unwrap()`
  | some chars =>
    let _ ← moveBackward S U 1
    let _ ← yank S U chars 1
    let _ ← moveForward S U 1
    return true

/-- `move_to_prev_word` -/
def moveToPrevWord (S : Segmenter) (U : UData) (d : Word) (n : Nat) : LM Bool := do
  match ← ro (fun lb => prevWordPos S U lb lb.pos d n) with
  | some p => setPos p; return true
  | none => return false

/-- `delete_prev_word` -/
def deletePrevWord (S : Segmenter) (U : UData) (d : Word) (n : Nat) : LM Bool := do
  match ← ro (fun lb => prevWordPos S U lb lb.pos d n) with
  | some p =>
    let lb ← get
    let _ ← drain p lb.pos .backward
    setPos p
    return true
  | none => return false

/-- `move_to_next_word` -/
def moveToNextWord (S : Segmenter) (U : UData) (a : At) (d : Word) (n : Nat) : LM Bool := do
  match ← ro (fun lb => nextWordPos S U lb lb.pos a d n) with
  | some p => setPos p; return true
  | none => return false

/-- `line.grapheme_indices(true).find(|&(idx, _)| layout.width(&line[..idx]) >= wanted)` of
    `move_to_line_up/down` (after the D36 repair): offset of the first cluster whose start is at or right
    of the wanted display column -/
def colFind (U : UData) (line : Text) (wanted : Nat) : List (Nat × Text) → Except Panic (Option Nat)
  | [] => pure none
  | (idx, _) :: rest => do
    let pre ← sliceTo line idx
    if U.width pre ≥ wanted then pure (some idx) else colFind U line wanted rest

/-- `for _ in 1..n` loop of `move_to_line_up`; state `(dest_start, dest_end)` -/
def luLoop (buf : Text) : Nat → Nat → Nat → Except Panic (Nat × Nat)
  | 0, ds, de => pure (ds, de)
  | k + 1, ds, de =>
    if ds == 0 then pure (ds, de)
    else do
      let de' := ds - 1
      let s ← sliceTo buf de'
      let ds' := match rfindChar '\n' s with
        | some n => n + 1
        | none => 0
      luLoop buf k ds' de'

/-- `move_to_line_up`; `promptCol` is `layout.prompt_size.col` -/
def moveToLineUp (S : Segmenter) (U : UData) (n : Nat) (promptCol : Nat) : LM Bool := do
  let lb ← get
  let pre ← lift (sliceTo lb.buf lb.pos)
  match rfindChar '\n' pre with
  | some off =>
    let cur ← lift (slice lb.buf (off + 1) lb.pos)
    let column := U.width cur
    let pre2 ← lift (sliceTo lb.buf off)
    let ds := match rfindChar '\n' pre2 with
      | some k => k + 1
      | none => 0
    let (ds, de) ← lift (luLoop lb.buf (n - 1) ds off)
    let offset := if ds == 0 then promptCol else 0
    let line ← lift (slice lb.buf ds de)
    match ← lift (colFind U line (column - offset) (gidx S line)) with
    | some idx => setPos (ds + idx)
    | none => setPos de
    return true
  | none => return false

/-- `for _ in 1..n` loop of `move_to_line_down` -/
def ldLoop (buf : Text) : Nat → Nat → Nat → Except Panic (Nat × Nat)
  | 0, ds, de => pure (ds, de)
  | k + 1, ds, de =>
    if de == blen buf then pure (ds, de)
    else do
      let ds' := de + 1
      let s ← sliceFrom buf ds'
      let de' := match findChar '\n' s with
        | some v => ds' + v
        | none => blen buf
      ldLoop buf k ds' de'

/-- `move_to_line_down` -/
def moveToLineDown (S : Segmenter) (U : UData) (n : Nat) (promptCol : Nat) : LM Bool := do
  let lb ← get
  let suf ← lift (sliceFrom lb.buf lb.pos)
  match findChar '\n' suf with
  | some off =>
    let pre ← lift (sliceTo lb.buf lb.pos)
    let lineStart := match rfindChar '\n' pre with
      | some k => k + 1
      | none => 0
    let offset := if lineStart == 0 then promptCol else 0
    let cur ← lift (slice lb.buf lineStart lb.pos)
    let column := U.width cur + offset
    let ds := lb.pos + off + 1
    let s ← lift (sliceFrom lb.buf ds)
    let de := match findChar '\n' s with
      | some v => ds + v
      | none => lb.len
    let (ds, de) ← lift (ldLoop lb.buf (n - 1) ds de)
    let line ← lift (slice lb.buf ds de)
    match ← lift (colFind U line column (gidx S line)) with
    | some idx => setPos (ds + idx)
    | none => setPos de
    return true
  | none => return false

/-- `move_to` -/
def moveTo (S : Segmenter) (U : UData) (cs : CharSearch) (n : Nat) : LM Bool := do
  match ← ro (searchCharPos S · cs n) with
  | some p => setPos p; return true
  | none => return false

/-- `delete_word` -/
def deleteWord (S : Segmenter) (U : UData) (a : At) (d : Word) (n : Nat) : LM Bool := do
  match ← ro (fun lb => nextWordPosR S U lb lb.pos a d n true) with
  | some p =>
    let lb ← get
    let _ ← drain lb.pos p .forward
    return true
  | none => return false

/-- `delete_to` -/
def deleteTo (S : Segmenter) (U : UData) (cs : CharSearch) (n : Nat) : LM Bool := do
  let r ← match cs with
    | .forwardBefore c => ro (searchCharPos S · (.forward c) n)
    | _ => ro (searchCharPos S · cs n)
  match r with
  | some p =>
    let lb ← get
    match cs with
    | .backward _ | .backwardAfter _ =>
      setPos p
      let _ ← drain p lb.pos .backward
    | .forwardBefore _ =>
      let _ ← drain lb.pos p .forward
    | .forward c =>
      let _ ← drain lb.pos (p + c.utf8Size) .forward
    return true
  | none => return false

/-- `edit_word` -/
def editWord (S : Segmenter) (U : UData) (a : WordAction) : LM Bool := do
  match ← ro (skipWhitespace S U) with
  | none => return false
  | some start =>
    match ← ro (fun lb => nextWordPos S U lb start .afterEnd .emacs 1) with
    | none => return false
    | some e =>
      if start == e then return false
      let word ← drain start e .forward
      let result ← match a with
        | .capitalize =>
          match (S.seg word).head? with
          | none => panic
          | some ch => do
            let rest ← lift (sliceFrom word (blen ch))
            pure (ch.flatMap U.upper ++ rest.flatMap U.lower)
        | .lowercase => pure (word.flatMap U.lower)
        | .uppercase => pure (word.flatMap U.upper)
      let _ ← insertStr S U start result
      setPos (start + blen result)
      return true

/-- `transpose_words` -/
def transposeWords (S : Segmenter) (U : UData) (n : Nat) : LM Bool := do
  let origPos := (← get).pos
  let _ ← moveToNextWord S U .afterEnd .emacs n
  let w2End := (← get).pos
  let _ ← moveToPrevWord S U .emacs 1
  let w2Beg := (← get).pos
  let _ ← moveToPrevWord S U .emacs n
  let w1Beg := (← get).pos
  let _ ← moveToNextWord S U .afterEnd .emacs 1
  let w1End := (← get).pos
  if w1Beg == w2Beg || w2Beg < w1End then
    -- nothing to transpose: the cursor is put back (fix: transpose_words restores the cursor)
    setPos origPos
    return false
  let w1 ← lift (slice (← get).buf w1Beg w1End)
  let w2 ← drain w2Beg w2End .forward
  let _ ← insertStr S U w2Beg w1
  let _ ← drain w1Beg w1End .forward
  let _ ← insertStr S U w1Beg w2
  setPos w2End
  return true

/-- `replace` -/
def replace (S : Segmenter) (U : UData) (a b : Nat) (text : Text) : LM Unit := fun lb =>
  match split3 lb.buf a b with
  | .ok (x, y, z) =>
    .ok ((), { lb with buf := x ++ text ++ z, pos := a + blen text,
                       cap := growCap lb.cap (blen x + blen z + blen text) },
         [.repl a y text])
  | .error e => .error e

/-- `delete_range` -/
def deleteRange (S : Segmenter) (U : UData) (a b : Nat) : LM Unit := do
  setPosChecked S U a
  let _ ← drain a b .forward

/-- `kill` -/
def kill (S : Segmenter) (U : UData) (mvt : Movement) : LM Bool := do
  let notif := match mvt with
    | .forwardChar _ | .backwardChar _ => false
    | _ => true
  if notif then notify .startKill
  let killed ← match mvt with
    | .forwardChar n => do
      let r ← delete S U n
      pure r.isSome
    | .backwardChar n => backspace S U n
    | .endOfLine => killLine S U
    | .wholeLine => do
      let cursor := (← get).pos
      let _ ← moveHome S U
      let lb ← get
      let e ← ro endOfLine
      if lb.pos < e then
        let _ ← drainAround lb.pos e cursor
        pure true
      else killLine S U
    | .beginningOfLine => discardLine S U
    | .backwardWord n d => deletePrevWord S U d n
    | .forwardWord n a d => deleteWord S U a d n
    | .viCharSearch n cs => deleteTo S U cs n
    | .lineUp n => do
      match ← ro (nLinesUp · n) with
      | some (a, b) =>
        let lb ← get
        let suf ← lift (sliceFrom lb.buf lb.pos)
        let last := (findChar '\n' suf).isNone
        let a := if last && a > 0 then a - 1 else a
        setPosChecked S U a
        let _ ← drainAround a b lb.pos
        pure true
      | none => pure false
    | .lineDown n => do
      match ← ro (nLinesDown · n) with
      | some (a, b) =>
        let lb ← get
        let mid ← lift (slice lb.buf a b)
        let last := decide ((mid.filter (· == '\n')).length ≤ n)
        let a := if last && a > 0 then a - 1 else a
        setPosChecked S U a
        let _ ← drainAround a b lb.pos
        pure true
      | none => pure false
    | .viFirstPrint => do
      let first ← ro (firstPrint S U)
      let lb ← get
      if first < lb.pos then do
        let _ ← drain first lb.pos .backward
        setPos first
      else if first > lb.pos then do
        let _ ← drain lb.pos first .forward
        pure ()
      pure (first != lb.pos)
    | .endOfBuffer => killBuffer S U
    | .beginningOfBuffer => discardBuffer S U
    | .wholeBuffer => do
      let cursor := (← get).pos
      let _ ← moveBufferStart S U
      let lb ← get
      if lb.buf.isEmpty then pure false
      else
        let _ ← drainAround 0 lb.len cursor
        pure true
  if notif then notify .stopKill
  return killed

/-- `INDENT` is 32 blanks; `for off in (0..amount).step_by(32)` -/
def indentInserts (S : Segmenter) (U : UData) (index amount : Nat) : Nat → Nat → LM Unit
  | 0, _ => pure ()
  | fuel + 1, off =>
    if off < amount then do
      let _ ← insertStr S U index (List.replicate (min (amount - off) 32) ' ')
      indentInserts S U index amount fuel (off + 32)
    else pure ()

def splitNl : Text → List Text
  | [] => [[]]
  | c :: t =>
    match splitNl t with
    | [] => [[c]]   -- unreachable
    | l :: ls => if c == '\n' then [] :: l :: ls else (c :: l) :: ls

def dedentLines (ws : Char → Bool) (amount : Nat) : List Text → Nat → LM Unit
  | [], _ => pure ()
  | line :: rest, index => do
    let mx := blen line - blen (line.dropWhile ws)
    let deleting := floorBoundary line (min mx amount)
    let _ ← drain index (index + deleting) .forward
    let lb ← get
    if lb.pos ≥ index then
      if lb.pos - index < deleting then setPos index else setPos (lb.pos - deleting)
    dedentLines ws amount rest (index + (blen line + 1 - deleting))

def indentLines (S : Segmenter) (U : UData) (amount : Nat) : List Text → Nat → LM Unit
  | [], _ => pure ()
  | line :: rest, index => do
    indentInserts S U index amount 8 0
    let lb ← get
    if lb.pos ≥ index then setPos (lb.pos + amount)
    indentLines S U amount rest (index + (amount + blen line + 1))

/-- `indent` (`amount : u8`) -/
def indent (S : Segmenter) (U : UData) (mvt : Movement) (amount : Nat) (dedent : Bool) : LM Bool := do
  let lb ← get
  let pair : Option (Nat × Nat) ← match mvt with
    | .wholeLine | .beginningOfLine | .viFirstPrint | .endOfLine
    | .backwardChar _ | .forwardChar _ | .viCharSearch _ _ => pure (some (lb.pos, lb.pos))
    | .endOfBuffer => pure (some (lb.pos, lb.len))
    | .wholeBuffer => pure (some (0, lb.len))
    | .beginningOfBuffer => pure (some (0, lb.pos))
    | .backwardWord n d => do
      let r ← lift (prevWordPos S U lb lb.pos d n)
      pure (r.map (fun p => (p, lb.pos)))
    | .forwardWord n a d => do
      let r ← lift (nextWordPos S U lb lb.pos a d n)
      pure (r.map (fun p => (lb.pos, p)))
    | .lineUp n => do
      let r ← lift (nLinesUp lb n)
      pure (r.map (fun (a, _) => (a, lb.pos)))
    | .lineDown n => do
      match ← lift (nLinesDown lb n) with
      | none => pure none
      | some (_, b) =>
        let pre ← lift (sliceTo lb.buf b)
        if b > lb.pos && pre.getLast? == some '\n' then pure (some (lb.pos, b - 1))
        else pure (some (lb.pos, b))
  let (start, e) := pair.getD (lb.pos, lb.pos)
  let pre ← lift (sliceTo lb.buf start)
  let start := match rfindChar '\n' pre with
    | some p => p + 1
    | none => 0
  let suf ← lift (sliceFrom lb.buf e)
  let e := match findChar '\n' suf with
    | some p => e + p
    | none => lb.len
  let region ← lift (slice lb.buf start e)
  if dedent then dedentLines U.ws amount (splitNl region) start
  else indentLines S U amount (splitNl region) start
  return true

end LB

/-! ### one operation = one public method call -/

inductive Ret
  | unit
  | bool (b : Bool)
  | optBool (b : Option Bool)
  | optText (t : Option Text)
  | optNat (n : Option Nat)
deriving Repr, DecidableEq

inductive Op
  | update (buf : Text) (pos : Nat)
  | insert (c : Char) (n : Nat)
  | yank (t : Text) (n : Nat)
  | yankPop (size : Nat) (t : Text)
  | moveBackward (n : Nat) | moveForward (n : Nat)
  | moveBufferStart | moveBufferEnd | moveHome | moveEnd | moveToFirstPrint
  | isEndOfInput
  | delete (n : Nat) | backspace (n : Nat)
  | killLine | killBuffer | discardLine | discardBuffer
  | transposeChars
  | moveToPrevWord (d : Word) (n : Nat)
  | deletePrevWord (d : Word) (n : Nat)
  | moveToNextWord (a : At) (d : Word) (n : Nat)
  | deleteWord (a : At) (d : Word) (n : Nat)
  | moveToLineUp (n : Nat) (promptCol : Nat)
  | moveToLineDown (n : Nat) (promptCol : Nat)
  | moveTo (cs : CharSearch) (n : Nat)
  | deleteTo (cs : CharSearch) (n : Nat)
  | editWord (a : WordAction)
  | transposeWords (n : Nat)
  | replace (a b : Nat) (t : Text)
  | insertStr (i : Nat) (t : Text)
  | deleteRange (a b : Nat)
  | copy (m : Movement)
  | kill (m : Movement)
  | indent (m : Movement) (amount : Nat) (dedent : Bool)
  | setPos (p : Nat)
  | nextPos (n : Nat)
deriving Repr, DecidableEq

open LB LM in
/-- run one public method -/
def Op.run (S : Segmenter) (U : UData) : Op → LM Ret
  | .update b p => do LB.update S U b p; return .unit
  | .insert c n => do return .optBool (← LB.insert S U c n)
  | .yank t n => do return .optBool (← LB.yank S U t n)
  | .yankPop k t => do return .optBool (← LB.yankPop S U k t)
  | .moveBackward n => do return .bool (← LB.moveBackward S U n)
  | .moveForward n => do return .bool (← LB.moveForward S U n)
  | .moveBufferStart => do return .bool (← LB.moveBufferStart S U)
  | .moveBufferEnd => do return .bool (← LB.moveBufferEnd S U)
  | .moveHome => do return .bool (← LB.moveHome S U)
  | .moveToFirstPrint => do return .bool (← LB.moveToFirstPrint S U)
  | .moveEnd => do return .bool (← LB.moveEnd S U)
  | .isEndOfInput => do return .bool (LB.isEndOfInput U (← get))
  | .delete n => do return .optText (← LB.delete S U n)
  | .backspace n => do return .bool (← LB.backspace S U n)
  | .killLine => do return .bool (← LB.killLine S U)
  | .killBuffer => do return .bool (← LB.killBuffer S U)
  | .discardLine => do return .bool (← LB.discardLine S U)
  | .discardBuffer => do return .bool (← LB.discardBuffer S U)
  | .transposeChars => do return .bool (← LB.transposeChars S U)
  | .moveToPrevWord d n => do return .bool (← LB.moveToPrevWord S U d n)
  | .deletePrevWord d n => do return .bool (← LB.deletePrevWord S U d n)
  | .moveToNextWord a d n => do return .bool (← LB.moveToNextWord S U a d n)
  | .deleteWord a d n => do return .bool (← LB.deleteWord S U a d n)
  | .moveToLineUp n pc => do return .bool (← LB.moveToLineUp S U n pc)
  | .moveToLineDown n pc => do return .bool (← LB.moveToLineDown S U n pc)
  | .moveTo cs n => do return .bool (← LB.moveTo S U cs n)
  | .deleteTo cs n => do return .bool (← LB.deleteTo S U cs n)
  | .editWord a => do return .bool (← LB.editWord S U a)
  | .transposeWords n => do return .bool (← LB.transposeWords S U n)
  | .replace a b t => do LB.replace S U a b t; return .unit
  | .insertStr i t => do return .bool (← LB.insertStr S U i t)
  | .deleteRange a b => do LB.deleteRange S U a b; return .unit
  | .copy m => do return .optText (← ro (LB.copy S U · m))
  | .kill m => do return .bool (← LB.kill S U m)
  | .indent m k d => do return .bool (← LB.indent S U m k d)
  | .setPos p => do LB.setPosChecked S U p; return .unit
  | .nextPos n => do return .optNat (← ro (LB.nextPos S · n))

end Rl
