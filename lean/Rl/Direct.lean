/-
  Model of the non-terminal read path of `src/lib.rs`: `apply_backspace_direct` (461-485) and
  `readline_direct` (487-544), plus `validate_brackets` of `src/validate.rs` (the shipped validator)
  and `BufRead::read_line` over a valid-UTF-8 stream.

  Transliteration: the grapheme loop keeps the output string and a stack of cluster *byte* sizes;
  a backspace cluster pops a size `n` and runs `out.truncate(out.len() - n)`, which panics when the
  subtraction underflows (dev profile) or when the new length is not a character boundary.
  `w` is how a size is stored: the code before the repair of D12 stored `g.len() as u8`
  (`w = (· % 256)`); the repaired code stores `usize` (`w = id`, `applyBackspace`).
  Panics are `none`.  Grapheme segmentation is a lawful parameter (`Rl.Segmenter`).
  `readline_direct` is modelled after the repair of D25 (`kept` guard in `stripKept`).
-/
import Rl.Text
import Rl.Seg
namespace Rl.Direct

/-- U+0008 -/
def bs : Char := Char.ofNat 8

/-- the loop of `apply_backspace_direct` over the remaining clusters; `sizes` has its top first -/
def applyGo (w : Nat → Nat) : List Text → Text → List Nat → Option Text
  | [], out, _ => some out
  | g :: gs, out, sizes =>
    if g = [bs] then
      match sizes with
      | [] => applyGo w gs out []
      | n :: rest =>
        -- `out.len() - n`: underflow panics (overflow checks on)
        if n ≤ blen out then
          -- `String::truncate(new_len)`, `new_len ≤ len`: asserts `is_char_boundary(new_len)`
          match splitAtByte out (blen out - n) with
          | some (a, _) => applyGo w gs a rest
          | none => none
        else none
    else applyGo w gs (out ++ g) (w (blen g) :: sizes)

/-- `apply_backspace_direct` with sizes stored through `w` -/
def applyBackspaceW (w : Nat → Nat) (S : Segmenter) (input : Text) : Option Text :=
  applyGo w (S.seg input) [] []

/-- `apply_backspace_direct` as it is in the tree (sizes are `usize`) -/
def applyBackspace (S : Segmenter) (input : Text) : Option Text := applyBackspaceW id S input

/-- the tree before the repair of D12 (`g.len() as u8`) -/
def applyBackspaceU8 (S : Segmenter) (input : Text) : Option Text := applyBackspaceW (· % 256) S input

/-- verdict of a validator call (`Result<ValidationResult>`); messages are not observed -/
inductive Verdict
  | valid | invalidMsg | invalidNone | incomplete | error
deriving DecidableEq, Repr

/-- result of one `Editor::readline` call on the non-terminal path -/
inductive DResult
  | line (t : Text) | eof | err | panic
deriving DecidableEq, Repr

/-- `BufRead::read_line` repeated until the stream is exhausted: the stream cut after every LF
    (`cur` is the line in progress, reversed) -/
def readLinesGo : Text → Text → List Text
  | cur, [] => if cur = [] then [] else [cur.reverse]
  | cur, c :: t => if c = '\n' then (c :: cur).reverse :: readLinesGo [] t else readLinesGo (c :: cur) t

def readLines (stream : Text) : List Text := readLinesGo [] stream

/-- `ends_with(c)` then `pop()` -/
def popIf (c : Char) (t : Text) : Text × Bool :=
  if t.getLast? = some c then (t.dropLast, true) else (t, false)

/-- `read_line(&mut input)` of line `l`, then the "Remove trailing newline" block:
    (input, trailing_r, trailing_n).  `kept` is the length of the text carried over from the
    previous lines; a CR is only taken for half of a CRLF terminator when it belongs to the line just
    read (repair of D25: `trailing_r = input.len() > kept && input.ends_with('\r')`). -/
def stripKept (input l : Text) : Text × Bool × Bool :=
  let kept := blen input
  let (i1, tn) := popIf '\n' (input ++ l)
  if tn then
    if kept < blen i1 ∧ i1.getLast? = some '\r' then (i1.dropLast, true, true) else (i1, false, true)
  else (i1, false, false)

/-- the loop of `readline_direct`: `input` is the local accumulator, the second argument the lines
    `read_line` will deliver (an empty one is `read_line` returning 0); returns the result and the
    lines left in the reader -/
def readlineDirectW (w : Nat → Nat) (S : Segmenter) (V : Option (Text → Verdict)) :
    Text → List Text → DResult × List Text
  | _, [] => (.eof, [])            -- `read_line` returned 0
  | input, l :: ls =>
    if l = [] then (.eof, ls) else
    let (i, tr, tn) := stripKept input l
    match applyBackspaceW w S i with
    | none => (.panic, ls)
    | some i =>
      match V with
      | none => (.line i, ls)
      | some v =>
        match v i with
        | .error => (.err, ls)
        | .valid => (.line i, ls)
        | .invalidMsg => readlineDirectW w S V i ls
        | .invalidNone => readlineDirectW w S V i ls
        | .incomplete =>
          readlineDirectW w S V (i ++ (if tr then ['\r'] else []) ++ (if tn then ['\n'] else [])) ls

def readlineDirect (S : Segmenter) (V : Option (Text → Verdict)) (ls : List Text) : DResult × List Text :=
  readlineDirectW id S V [] ls

/-- an application calling `readline` until it reports end of file (or dies); `fuel` bounds the
    number of calls (`lines + 1` always suffices: every call consumes a line or reports eof) -/
def sessionW (w : Nat → Nat) (S : Segmenter) (V : Option (Text → Verdict)) : Nat → List Text → List DResult
  | 0, _ => []
  | fuel + 1, ls =>
    match readlineDirectW w S V [] ls with
    | (.eof, _) => [.eof]
    | (.panic, _) => [.panic]
    | (r, rest) => r :: sessionW w S V fuel rest

def session (S : Segmenter) (V : Option (Text → Verdict)) (stream : Text) : List DResult :=
  let ls := readLines stream
  sessionW id S V (ls.length + 1) ls

/-! `validate_brackets` (src/validate.rs:109-135) -/

def isOpen (c : Char) : Bool := c = '(' || c = '[' || c = '{'
def isClose (c : Char) : Bool := c = ')' || c = ']' || c = '}'
def pairs (o c : Char) : Bool := (o = '(' && c = ')') || (o = '[' && c = ']') || (o = '{' && c = '}')

def bracketsGo : List Char → Text → Verdict
  | stack, [] => if stack = [] then .valid else .incomplete
  | stack, c :: t =>
    if isOpen c then bracketsGo (c :: stack) t
    else if isClose c then
      match stack with
      | o :: rest => if pairs o c then bracketsGo rest t else .invalidMsg
      | [] => .invalidMsg
    else bracketsGo stack t

def validateBrackets (input : Text) : Verdict := bracketsGo [] input

end Rl.Direct
