/-
  Model of `src/highlight.rs` — `MatchingBracketHighlighter` (`highlight`, `highlight_char`) and the
  private functions behind it: `find_matching_bracket`, `check_bracket`, `matching_bracket`,
  `is_open_bracket`, `is_close_bracket`.  The code works on the UTF-8 *bytes* of the line; so does
  the model (`bytesOf`).  Loops → structural recursion; slices that can panic → `Option`.
  Not modelled: the `i32` counter `unmatched` overflowing (needs 2^31 nested brackets) and the
  `debug_assert`s (they restate the loop position; the harness is built with debug assertions on,
  so a failing one would show up as a `panic` disagreement).
-/
import Rl.Text
namespace Rl.Highlight

abbrev Bytes := List UInt8

/-- `str::as_bytes` -/
def bytesOf (t : Text) : Bytes := t.flatMap String.utf8EncodeChar

/-- `matching_bracket` -/
def matchingBracket (b : UInt8) : UInt8 :=
  if b == 123 then 125 else if b == 125 then 123
  else if b == 91 then 93 else if b == 93 then 91
  else if b == 40 then 41 else if b == 41 then 40
  else b

/-- `is_open_bracket` -/
def isOpenB (b : UInt8) : Bool := b == 123 || b == 91 || b == 40
/-- `is_close_bracket` -/
def isCloseB (b : UInt8) : Bool := b == 125 || b == 93 || b == 41

/-- the body of both `for` loops of `find_matching_bracket`: number of bytes consumed before the
    byte on which `unmatched` drops to 0 -/
def scan (matching bracket : UInt8) : Bytes → Nat → Nat → Option Nat
  | [], _, _ => none
  | b :: bs, k, unmatched =>
    if b == matching then
      if unmatched - 1 == 0 then some k else scan matching bracket bs (k + 1) (unmatched - 1)
    else if b == bracket then scan matching bracket bs (k + 1) (unmatched + 1)
    else scan matching bracket bs (k + 1) unmatched

/-- `find_matching_bracket`; outer `none` = panic (`line.as_bytes()[idx..]` / `[..idx]` out of range) -/
def findMatchingBracket (bs : Bytes) (pos : Nat) (bracket : UInt8) : Option (Option (UInt8 × Nat)) :=
  let matching := matchingBracket bracket
  if isOpenB bracket then
    let idx := pos + 1
    if idx > bs.length then none
    else
      match scan matching bracket (bs.drop idx) 0 1 with
      | some k => some (some (matching, idx + k))
      | none => some none
  else
    let idx := pos
    if idx > bs.length then none
    else
      match scan matching bracket (bs.take idx).reverse 0 1 with
      | some k => some (some (matching, idx - k - 1))
      | none => some none

/-- one round of the loop of `check_bracket`; `none` = "continue with the byte before" -/
def checkAt (bs : Bytes) (pos : Nat) : Option (Option (UInt8 × Nat)) :=
  match bs[pos]? with
  | none => some none
  | some b =>
    if isCloseB b then some (if pos == 0 then none else some (b, pos))
    else if isOpenB b then some (if pos + 1 == bs.length then none else some (b, pos))
    else none

/-- `check_bracket` -/
def checkBracket (bs : Bytes) (pos : Nat) : Option (UInt8 × Nat) :=
  if bs.isEmpty then none
  else if pos ≥ bs.length then
    let pos := bs.length - 1
    match bs[pos]? with
    | some b => if isCloseB b then some (b, pos) else none
    | none => none
  else
    match checkAt bs pos with
    | some r => r
    | none =>
      if pos > 0 then
        match checkAt bs (pos - 1) with
        | some r => r
        | none => none
      else none

/-- state of a `MatchingBracketHighlighter`: the memorised `(bracket, pos)` -/
abbrev HlState := Option (UInt8 × Nat)

inductive Kind | moveCursor | other | forced
deriving DecidableEq, Repr

/-- `highlight_char`: new state and answer -/
def highlightChar (line : Text) (pos : Nat) (kind : Kind) : HlState × Bool :=
  if kind = .forced then (none, false)
  else
    let r := checkBracket (bytesOf line) pos
    (r, r.isSome)

def escOn : Text := [Char.ofNat 27, '[', '1', ';', '3', '4', 'm']
def escOff : Text := [Char.ofNat 27, '[', '0', 'm']

/-- `highlight`: `some none` = borrowed (line unchanged), `some (some t)` = owned highlighted copy,
    `none` = panic.  `replace_range(idx..=idx, …)` panics unless `idx` and `idx + 1` are character
    boundaries inside the line. -/
def highlight (st : HlState) (line : Text) : Option (Option Text) :=
  if blen line ≤ 1 then some none
  else
    match st with
    | none => some none
    | some (bracket, pos) =>
      match findMatchingBracket (bytesOf line) pos bracket with
      | none => none
      | some none => some none
      | some (some (m, idx)) =>
        match splitAtByte line idx with
        | some (a, c :: b) =>
          if c.utf8Size == 1 then some (some (a ++ escOn ++ [Char.ofNat m.toNat] ++ escOff ++ b))
          else none
        | _ => none

inductive Op
  | hchar (line : Text) (pos : Nat) (kind : Kind)
  | hl (line : Text)
deriving Repr

inductive Obs
  | bool (b : Bool) | borrowed | owned (t : Text)
deriving Repr, DecidableEq

/-- run a sequence of calls on one highlighter; `none` = some call panicked -/
def run (st : HlState) : List Op → Option (List Obs)
  | [] => some []
  | .hchar l p k :: ops =>
    let (st', b) := highlightChar l p k
    (run st' ops).map (fun os => .bool b :: os)
  | .hl l :: ops =>
    match highlight st l with
    | none => none
    | some none => (run st ops).map (fun os => .borrowed :: os)
    | some (some t) => (run st ops).map (fun os => .owned t :: os)

end Rl.Highlight
