/- Helper lemmas for Rl/Props/C19.lean: the two inductive invariants of the external-printer protocol
   (Rl/Printer.lean) and their preservation by every atomic step. -/
import Rl.Printer
set_option linter.unusedSimpArgs false
namespace Rl.Printer

/-! ## projections of `setPr` -/

@[simp] theorem setPr_pr (s : Sys) (t : Nat) (p : Printer) (i : Nat) :
    (s.setPr t p).pr i = if i = t then p else s.pr i := rfl
@[simp] theorem setPr_raw (s : Sys) (t : Nat) (p : Printer) : (s.setPr t p).raw = s.raw := rfl
@[simp] theorem setPr_chan (s : Sys) (t : Nat) (p : Printer) : (s.setPr t p).chan = s.chan := rfl
@[simp] theorem setPr_pipe (s : Sys) (t : Nat) (p : Printer) : (s.setPr t p).pipe = s.pipe := rfl
@[simp] theorem setPr_wlock (s : Sys) (t : Nat) (p : Printer) : (s.setPr t p).wlock = s.wlock := rfl
@[simp] theorem setPr_out (s : Sys) (t : Nat) (p : Printer) : (s.setPr t p).out = s.out := rfl
@[simp] theorem setPr_epc (s : Sys) (t : Nat) (p : Printer) : (s.setPr t p).epc = s.epc := rfl
@[simp] theorem setPr_keys (s : Sys) (t : Nat) (p : Printer) : (s.setPr t p).keys = s.keys := rfl
@[simp] theorem setPr_line (s : Sys) (t : Nat) (p : Printer) : (s.setPr t p).line = s.line := rfl

def holds (p : Printer) : Bool :=
  match p.pc with
  | .locked _ | .sent | .wrote => true
  | _ => false

def sentFlag (s : Sys) : Nat :=
  match s.wlock with
  | some t => if (s.pr t).pc = .sent then 1 else 0
  | none => 0
def gotFlag (s : Sys) : Nat := if s.epc = .gotByte then 1 else 0
def chanFlag (s : Sys) : Nat := if s.chan.isSome then 1 else 0

structure Inv2 (s : Sys) : Prop where
  lock : ∀ t, holds (s.pr t) = true ↔ s.wlock = some t
  count : s.pipe + sentFlag s + gotFlag s = chanFlag s
  woken : s.epc = .woken → 1 ≤ s.pipe

theorem inv2_init : Inv2 init := by
  constructor <;> simp [init, holds, sentFlag, gotFlag, chanFlag]

theorem sentFlag_setPr (s : Sys) (t : Nat) (p : Printer) (h : p.pc = .sent ↔ (s.pr t).pc = .sent) :
    sentFlag (s.setPr t p) = sentFlag s := by
  unfold sentFlag
  simp only [setPr_wlock, setPr_pr]
  split
  · rename_i u _
    by_cases hu : u = t
    · subst hu; simp [h]
    · simp [hu]
  · rfl

@[simp] theorem gotFlag_setPr (s : Sys) (t : Nat) (p : Printer) : gotFlag (s.setPr t p) = gotFlag s := rfl
@[simp] theorem chanFlag_setPr (s : Sys) (t : Nat) (p : Printer) : chanFlag (s.setPr t p) = chanFlag s := rfl

theorem inv2_frame {s s' : Sys} (hi : Inv2 s) (h1 : s'.pr = s.pr) (h2 : s'.wlock = s.wlock)
    (h3 : s'.pipe + gotFlag s' + chanFlag s = s.pipe + gotFlag s + chanFlag s')
    (h4 : s'.epc = .woken → 1 ≤ s'.pipe) : Inv2 s' := by
  obtain ⟨hl, hc, hw⟩ := hi
  have hs : sentFlag s' = sentFlag s := by unfold sentFlag; rw [h1, h2]
  refine ⟨?_, ?_, h4⟩
  · intro t; rw [h1, h2]; exact hl t
  · omega

theorem inv2_step {s s' : Sys} (l : Label) (hi : Inv2 s) (h : step s l = some s') : Inv2 s' := by
  obtain ⟨hl, hc, hw⟩ := hi
  cases l with
  | issue t id =>
    simp only [step] at h; cases h
    refine ⟨?_, ?_, ?_⟩
    · intro t'
      have := hl t'
      by_cases ht : t' = t <;> simp_all [holds]
    · rw [sentFlag_setPr _ _ _ (by simp)]; simpa using hc
    · simpa using hw
  | pLoad t =>
    simp only [step] at h; split at h <;> cases h
    rename_i id q hpc hq
    have hnl := hl t
    refine ⟨?_, ?_, ?_⟩
    · intro t'
      have := hl t'
      by_cases ht : t' = t
      · subst ht; cases hr : s.raw <;> simp_all [holds]
      · simp_all [holds]
    · rw [sentFlag_setPr _ _ _ (by cases hr : s.raw <;> simp [hpc])]; simpa using hc
    · simpa using hw
  | pDirect t =>
    simp only [step] at h; split at h <;> cases h
    rename_i id hpc
    refine ⟨?_, ?_, ?_⟩
    · intro t'
      have := hl t'
      by_cases ht : t' = t <;> simp_all [holds]
    · rw [sentFlag_setPr _ _ _ (by simp [hpc])]; exact hc
    · simpa using hw
  | pLock t =>
    simp only [step] at h; split at h <;> cases h
    rename_i id hpc hlk
    refine ⟨?_, ?_, ?_⟩
    · intro t'
      have := hl t'
      by_cases ht : t' = t
      · subst ht; simp_all [holds]
      · simp_all [holds]; intro hh; exact ht hh.symm
    · simp_all [sentFlag, gotFlag, chanFlag]
      first | done | exact hc | omega
    · simpa using hw
  | pSend t =>
    simp only [step] at h; split at h <;> cases h
    rename_i id hpc hch
    have hlt : s.wlock = some t := (hl t).1 (by simp [holds, hpc])
    refine ⟨?_, ?_, ?_⟩
    · intro t'
      have := hl t'
      by_cases ht : t' = t <;> simp_all [holds]
    · simp_all [sentFlag, gotFlag, chanFlag]
    · simpa using hw
  | pByte t =>
    simp only [step] at h; split at h <;> cases h
    rename_i hpc
    have hlt : s.wlock = some t := (hl t).1 (by simp [holds, hpc])
    refine ⟨?_, ?_, ?_⟩
    · intro t'
      have := hl t'
      by_cases ht : t' = t <;> simp_all [holds]
    · simp_all [sentFlag, gotFlag, chanFlag]
    · intro hh; have := hw (by simpa using hh); simp
  | pUnlock t =>
    simp only [step] at h; split at h <;> cases h
    rename_i hpc
    have hlt : s.wlock = some t := (hl t).1 (by simp [holds, hpc])
    refine ⟨?_, ?_, ?_⟩
    · intro t'
      have := hl t'
      by_cases ht : t' = t
      · subst ht; simp_all [holds]
      · simp_all [holds]; intro hh; exact ht hh.symm
    · simp_all [sentFlag, gotFlag, chanFlag]
      first | done | exact hc | omega
    · simpa using hw
  | eKey =>
    simp only [step] at h; split at h <;> cases h
    · rename_i k ks hpc hk
      cases k <;> exact inv2_frame ⟨hl, hc, hw⟩ rfl rfl (by simp [keyMain, gotFlag, chanFlag, hpc] <;> rfl) (by simp [keyMain, hpc])
    · rename_i k ks hpc hk
      cases k <;> exact inv2_frame ⟨hl, hc, hw⟩ rfl rfl (by simp [keySub, gotFlag, chanFlag, hpc] <;> rfl) (by simp [keySub, hpc])
  | _ =>
    simp only [step] at h
    all_goals (try split at h)
    all_goals (first | (cases h) | skip)
    all_goals (refine ⟨?_, ?_, ?_⟩)
    all_goals (simp_all [holds, sentFlag, gotFlag, chanFlag] <;> omega)

/-! ## where the messages of one thread are -/

def shownOf (t : Nat) (out : List Ev) : List Nat :=
  out.filterMap (fun e => match e with
    | .shown m => if m.tid = t then some m.id else none
    | _ => none)
def directOf (t : Nat) (out : List Ev) : List Nat :=
  out.filterMap (fun e => match e with
    | .direct m => if m.tid = t then some m.id else none
    | _ => none)
def chanOf (t : Nat) (s : Sys) : List Nat :=
  match s.chan with
  | some m => if m.tid = t then [m.id] else []
  | none => []
def edHandOf (t : Nat) (s : Sys) : List Nat :=
  match s.epc with
  | .showing m => if m.tid = t then [m.id] else []
  | _ => []
def rawHandOf (p : Printer) : List Nat :=
  match p.pc with
  | .rawSeen id | .locked id => [id]
  | _ => []
def cookedHandOf (p : Printer) : List Nat :=
  match p.pc with
  | .cooked id => [id]
  | _ => []
/-- thread `t`'s messages on the channel route, in the order they move: shown, in the editor's
    hand, in the channel, in the printer's hand -/
def chanSeq (t : Nat) (s : Sys) : List Nat :=
  shownOf t s.out ++ edHandOf t s ++ chanOf t s ++ rawHandOf (s.pr t)
def directSeq (t : Nat) (s : Sys) : List Nat :=
  directOf t s.out ++ cookedHandOf (s.pr t)

theorem shownOf_append (t : Nat) (a b : List Ev) : shownOf t (a ++ b) = shownOf t a ++ shownOf t b := by
  simp [shownOf, List.filterMap_append]
theorem directOf_append (t : Nat) (a b : List Ev) : directOf t (a ++ b) = directOf t a ++ directOf t b := by
  simp [directOf, List.filterMap_append]

/-- what one step does to the sequences of thread `t`: nothing, or the thread started a new `print`
    (the message enters the end of one of the two routes and of `hist`) -/
inductive Effect (t : Nat) (s s' : Sys) : Prop
  | same : chanSeq t s' = chanSeq t s → directSeq t s' = directSeq t s → (s'.pr t).hist = (s.pr t).hist → Effect t s s'
  | viaChan (id : Nat) : chanSeq t s' = chanSeq t s ++ [id] → directSeq t s' = directSeq t s →
      (s'.pr t).hist = (s.pr t).hist ++ [id] → Effect t s s'
  | viaDirect (id : Nat) : chanSeq t s' = chanSeq t s → directSeq t s' = directSeq t s ++ [id] →
      (s'.pr t).hist = (s.pr t).hist ++ [id] → Effect t s s'

theorem effect_step {s s' : Sys} (l : Label) (h : step s l = some s') (t' : Nat) : Effect t' s s' := by
  cases l with
  | pLoad t =>
    simp only [step] at h; split at h <;> cases h
    rename_i id q hpc hq
    by_cases ht : t' = t
    · subst ht
      cases hr : s.raw
      · exact .viaDirect id (by simp [chanSeq, chanOf, edHandOf, rawHandOf, hpc]) (by simp [directSeq, cookedHandOf, hpc]) (by simp)
      · exact .viaChan id (by simp [chanSeq, chanOf, edHandOf, rawHandOf, hpc]) (by simp [directSeq, cookedHandOf, hpc]) (by simp)
    · exact .same (by simp [chanSeq, chanOf, edHandOf, ht]) (by simp [directSeq, ht]) (by simp [ht])
  | issue t id =>
    simp only [step] at h; cases h
    by_cases ht : t' = t
    · subst ht; exact .same (by simp [chanSeq, chanOf, edHandOf, rawHandOf]) (by simp [directSeq, cookedHandOf]) (by simp)
    · exact .same (by simp [chanSeq, chanOf, edHandOf, ht]) (by simp [directSeq, ht]) (by simp [ht])
  | pDirect t =>
    simp only [step] at h; split at h <;> cases h
    rename_i id hpc
    by_cases ht : t' = t
    · subst ht
      exact .same (by simp [chanSeq, chanOf, edHandOf, rawHandOf, shownOf_append, shownOf, hpc])
        (by simp [directSeq, cookedHandOf, directOf_append, directOf, hpc]) (by simp)
    · have ht2 : ¬ t = t' := fun e => ht e.symm
      exact .same (by simp [chanSeq, chanOf, edHandOf, shownOf_append, shownOf, ht])
        (by simp [directSeq, directOf_append, directOf, ht, ht2]) (by simp [ht])
  | pLock t =>
    simp only [step] at h; split at h <;> cases h
    rename_i id hpc hlk
    by_cases ht : t' = t
    · subst ht; exact .same (by simp [chanSeq, chanOf, edHandOf, rawHandOf, hpc]) (by simp [directSeq, cookedHandOf, hpc]) (by simp)
    · exact .same (by simp [chanSeq, chanOf, edHandOf, ht]) (by simp [directSeq, ht]) (by simp [ht])
  | pSend t =>
    simp only [step] at h; split at h <;> cases h
    rename_i id hpc hch
    by_cases ht : t' = t
    · subst ht; exact .same (by simp [chanSeq, chanOf, edHandOf, rawHandOf, hpc, hch]) (by simp [directSeq, cookedHandOf, hpc]) (by simp)
    · have ht2 : ¬ t = t' := fun e => ht e.symm
      exact .same (by simp [chanSeq, chanOf, edHandOf, ht, ht2, hch]) (by simp [directSeq, ht]) (by simp [ht])
  | pByte t =>
    simp only [step] at h; split at h <;> cases h
    rename_i hpc
    by_cases ht : t' = t
    · subst ht; exact .same (by simp [chanSeq, chanOf, edHandOf, rawHandOf, hpc]) (by simp [directSeq, cookedHandOf, hpc]) (by simp)
    · exact .same (by simp [chanSeq, chanOf, edHandOf, ht]) (by simp [directSeq, ht]) (by simp [ht])
  | pUnlock t =>
    simp only [step] at h; split at h <;> cases h
    rename_i hpc
    by_cases ht : t' = t
    · subst ht; exact .same (by simp [chanSeq, chanOf, edHandOf, rawHandOf, hpc]) (by simp [directSeq, cookedHandOf, hpc]) (by simp)
    · exact .same (by simp [chanSeq, chanOf, edHandOf, ht]) (by simp [directSeq, ht]) (by simp [ht])
  | eKey =>
    simp only [step] at h; split at h <;> cases h
    · rename_i k ks hpc hk
      cases k <;> exact .same (by simp [keyMain, chanSeq, chanOf, edHandOf, hpc]) (by simp [keyMain, directSeq]) (by simp [keyMain])
    · rename_i k ks hpc hk
      cases k <;> exact .same (by simp [keySub, chanSeq, chanOf, edHandOf, hpc]) (by simp [keySub, directSeq]) (by simp [keySub])
  | eRecv =>
    simp only [step] at h; split at h <;> cases h
    · rename_i m hpc hch
      exact .same (by simp [chanSeq, chanOf, edHandOf, hpc, hch]) (by simp [directSeq]) (by simp)
    · rename_i hpc hch
      exact .same (by simp [chanSeq, chanOf, edHandOf, hpc, hch]) (by simp [directSeq]) (by simp)
  | eShow =>
    simp only [step] at h; split at h <;> cases h
    rename_i m hpc
    refine .same ?_ (by simp [directSeq, directOf_append, directOf]) (by simp)
    by_cases hm : m.tid = t' <;> simp [chanSeq, chanOf, edHandOf, shownOf_append, shownOf, hpc, hm]
  | _ =>
    simp only [step] at h
    all_goals (try split at h)
    all_goals (first | (cases h) | skip)
    all_goals (refine .same ?_ ?_ ?_)
    all_goals (simp_all [chanSeq, chanOf, edHandOf, directSeq, shownOf_append, directOf_append, shownOf, directOf])


/-- the sequence invariant: per thread, both routes are sub-sequences of the call history, and
    together they contain every started message exactly as often as it was started -/
structure Inv1 (s : Sys) : Prop where
  chanSub : ∀ t, (chanSeq t s).Sublist (s.pr t).hist
  directSub : ∀ t, (directSeq t s).Sublist (s.pr t).hist
  count : ∀ t a, (chanSeq t s).count a + (directSeq t s).count a = ((s.pr t).hist).count a

theorem inv1_init : Inv1 init := by
  constructor <;> simp [init, chanSeq, directSeq, shownOf, directOf, chanOf, edHandOf, rawHandOf, cookedHandOf]

theorem inv1_step {s s' : Sys} (l : Label) (hi : Inv1 s) (h : step s l = some s') : Inv1 s' := by
  obtain ⟨h1, h2, h3⟩ := hi
  refine ⟨fun t => ?_, fun t => ?_, fun t a => ?_⟩ <;> cases effect_step l h t with
  | same e1 e2 e3 => first | (rw [e1, e3]; exact h1 t) | (rw [e2, e3]; exact h2 t) | (rw [e1, e2, e3]; exact h3 t a)
  | viaChan id e1 e2 e3 =>
    first
    | (rw [e1, e3]; exact List.Sublist.append (h1 t) (List.Sublist.refl _))
    | (rw [e2, e3]; exact (h2 t).trans (List.sublist_append_left _ _))
    | (rw [e1, e2, e3]; have := h3 t a; simp only [List.count_append]; omega)
  | viaDirect id e1 e2 e3 =>
    first
    | (rw [e1, e3]; exact (h1 t).trans (List.sublist_append_left _ _))
    | (rw [e2, e3]; exact List.Sublist.append (h2 t) (List.Sublist.refl _))
    | (rw [e1, e2, e3]; have := h3 t a; simp only [List.count_append]; omega)

theorem reach_inv {s : Sys} (h : Reach s) : Inv1 s ∧ Inv2 s := by
  induction h with
  | init => exact ⟨inv1_init, inv2_init⟩
  | step l _ hs ih => exact ⟨inv1_step l ih.1 hs, inv2_step l ih.2 hs⟩

theorem reach_run_from {s : Sys} (hs : Reach s) : ∀ (ls : List Label) (s' : Sys), run s ls = some s' → Reach s'
  | [], s', h => by simp [run] at h; subst h; exact hs
  | l :: ls, s', h => by
    simp only [run] at h
    cases hl : step s l with
    | none => simp [hl] at h
    | some s1 => rw [hl] at h; exact reach_run_from (Reach.step l hs hl) ls s' h

theorem reach_run (ls : List Label) (s : Sys) (h : run init ls = some s) : Reach s :=
  reach_run_from Reach.init ls s h

end Rl.Printer
