/-
  Frame facts used by the C07 "line being typed is conserved" theorems: a cursor motion run through
  `edit_move` changes nothing but the edit line (the saved line and the history index stay), and the
  two whole-buffer motions never fail, keep the text and leave the cursor inside it.
-/
import Rl.Editor
import Rl.Lemmas.EditorM
import Rl.Lemmas.EditorOps
set_option linter.unusedVariables false
set_option linter.unusedSimpArgs false
namespace Rl
open EM

section
variable (S : Segmenter) (U : UData) (cfg : EdCfg)

/-- `edit_move` with a motion that succeeds: returns, the line is the motion's result, the saved line
    and the history index are untouched -/
theorem editMove_frame {op : LM Bool} {s : Ed} {r : Bool} {l : LB} {ns : List Notif}
    (h : op s.line = .ok (r, l, ns)) :
    ∃ s', editMove S U cfg op s = .ok ((), s') ∧ s'.line = l ∧ s'.saved = s.saved ∧ s'.histIdx = s.histIdx := by
  have hw : wp (editMove S U cfg op)
      (fun _ s' => s'.line = l ∧ s'.saved = s.saved ∧ s'.histIdx = s.histIdx) (fun _ _ => False) s := by
    unfold editMove
    rw [wp_bind]
    refine wp_lbQuiet h ?_
    split
    · refine wp_moveCursor S U cfg fun s' hc => ?_
      obtain ⟨c1, c2, _, _, c5, _, _⟩ := Ed.core_eq hc
      exact ⟨c1, c2, c5⟩
    · exact ⟨rfl, rfl, rfl⟩
  obtain ⟨a, s', h1, h2⟩ := returns_iff_wp.mpr hw
  exact ⟨s', h1, h2⟩

/-- a line-buffer motion: never fails on a line whose cursor is inside the text, keeps text and
    growth mode, leaves the cursor inside the text -/
def MotionOK (op : LM Bool) : Prop :=
  ∀ l : LB, l.pos ≤ blen l.buf →
    ∃ r l' ns, op l = .ok (r, l', ns) ∧ l'.buf = l.buf ∧ l'.canGrow = l.canGrow ∧ l'.pos ≤ blen l'.buf

theorem motionOK_moveBufferStart : MotionOK (LB.moveBufferStart S U) := by
  intro l hl
  by_cases hp : 0 < l.pos
  · refine ⟨true, { l with pos := 0 }, [], ?_, rfl, rfl, Nat.zero_le _⟩
    simp [LB.moveBufferStart, hp, bind, LM.bind', LM.get, LM.setPos, pure, LM.pure']
  · refine ⟨false, l, [], ?_, rfl, rfl, hl⟩
    simp [LB.moveBufferStart, hp, bind, LM.bind', LM.get, LM.setPos, pure, LM.pure']

theorem motionOK_moveBufferEnd : MotionOK (LB.moveBufferEnd S U) := by
  intro l hl
  by_cases hp : l.pos = blen l.buf
  · refine ⟨false, l, [], ?_, rfl, rfl, hl⟩
    simp [LB.moveBufferEnd, hp, bind, LM.bind', LM.get, LM.setPos, pure, LM.pure', LB.len]
  · refine ⟨true, { l with pos := blen l.buf }, [], ?_, rfl, rfl, Nat.le_refl _⟩
    simp [LB.moveBufferEnd, hp, bind, LM.bind', LM.get, LM.setPos, pure, LM.pure', LB.len]

end
end Rl
