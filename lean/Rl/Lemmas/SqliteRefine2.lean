/-
  Refinement lemmas for C20, part 2: `set_max_len`, the ignore-dups toggle and reopening act on
  the content of the table (rows as (session, line) pairs) as `takeLast` / `collapse` of the
  declarative store.
-/
import Rl.Lemmas.SqliteRefine
namespace Rl.Sq
open Rl Rl.Spec.Sq

theorem dedupe_key_aux (rows : List Row) : ∀ (pre : List Row), Sorted (pre ++ rows) →
    (rows.filter (fun r => !(pre ++ rows).any (fun r' => sameKey r' r && decide (r.rowid < r'.rowid)))).map key
      = collapse (rows.map key) := by
  induction rows with
  | nil => intro _ _; rfl
  | cons x xs ih =>
    intro pre hs
    have hs' : Sorted ((pre ++ [x]) ++ xs) := by simpa using hs
    have ih' := ih (pre ++ [x]) hs'
    have e : pre ++ [x] ++ xs = pre ++ x :: xs := by simp
    rw [e] at ih'
    have hp := List.pairwise_append.mp hs
    have hx : (pre ++ x :: xs).any (fun r' => sameKey r' x && decide (x.rowid < r'.rowid))
        = (xs.map key).contains (key x) := by
      rw [Bool.eq_iff_iff]
      simp only [List.any_eq_true, Bool.and_eq_true, decide_eq_true_eq, List.contains_iff_mem,
        List.mem_map, List.mem_append, List.mem_cons]
      constructor
      · rintro ⟨r', hr', hk, hlt⟩
        rcases hr' with h1 | h1 | h1
        · have := hp.2.2 r' h1 x (by simp); omega
        · subst h1; omega
        · refine ⟨r', h1, ?_⟩
          simp only [sameKey, Bool.and_eq_true, beq_iff_eq] at hk
          simp [key, hk.1, hk.2]
      · rintro ⟨r', h1, hk⟩
        refine ⟨r', Or.inr (Or.inr h1), ?_, ?_⟩
        · simp only [key, Prod.mk.injEq] at hk
          simp [sameKey, hk.1, hk.2]
        · exact (List.pairwise_cons.mp hp.2.1).1 r' h1
    simp only [List.filter_cons, hx, List.map_cons, collapse]
    cases hc : (xs.map key).contains (key x)
    · simp only [Bool.not_false, if_true, Bool.false_eq_true, if_false, List.map_cons, ih']
    · simp only [Bool.not_true, Bool.false_eq_true, if_false, if_true, ih']

/-- deleting all but the newest row of every (line, session) group is `collapse` on the content -/
theorem dedupe_key {rows : List Row} (hs : Sorted rows) : (dedupe rows).map key = collapse (rows.map key) := by
  have := dedupe_key_aux rows [] (by simpa using hs)
  simpa [dedupe] using this

theorem dedupe_noDup {rows : List Row} (h : hasDup rows = false) : dedupe rows = rows := by
  unfold dedupe
  rw [List.filter_eq_self]
  intro r hr
  unfold hasDup at h
  rw [List.any_eq_false] at h
  have := h r hr
  simpa using this

theorem collapse_nodup_id : ∀ (l : List (Nat × Text)), l.Nodup → collapse l = l
  | [], _ => rfl
  | x :: xs, h => by
    have h' := List.nodup_cons.mp h
    have : xs.contains x = false := by simpa using h'.1
    simp [collapse, h'.1, collapse_nodup_id xs h'.2]

theorem mem_collapse : ∀ (l : List (Nat × Text)) (y : Nat × Text), y ∈ collapse l → y ∈ l
  | [], _, h => by simp [collapse] at h
  | x :: xs, y, h => by
    unfold collapse at h
    split at h
    · exact List.mem_cons_of_mem _ (mem_collapse xs y h)
    · rcases List.mem_cons.mp h with h1 | h1
      · subst h1; simp
      · exact List.mem_cons_of_mem _ (mem_collapse xs y h1)

theorem collapse_nodup : ∀ (l : List (Nat × Text)), (collapse l).Nodup
  | [] => by simp [collapse]
  | x :: xs => by
    unfold collapse
    split
    · exact collapse_nodup xs
    · rename_i hc
      refine List.nodup_cons.mpr ⟨fun hm => hc ?_, collapse_nodup xs⟩
      simpa using mem_collapse xs x hm

/-- what turning the index on does to the content: `collapse` -/
theorem setIgnoreDupsIndex_on_key {h : Hist} (hs : Sorted h.db.rows) (hoff : h.db.index = false)
    (hon : h.ignoreDups = true) :
    h.setIgnoreDupsIndex.db.rows.map key = collapse (h.db.rows.map key) := by
  unfold Hist.setIgnoreDupsIndex
  simp only [hon, if_true, hoff, Bool.false_eq_true, if_false]
  split
  · exact dedupe_key hs
  · rename_i hd
    have hd' : hasDup h.db.rows = false := by simpa using hd
    simp only
    rw [← dedupe_key hs, dedupe_noDup hd']

theorem setMaxLen_abs (h : Hist) (n : Nat) :
    (h.setMaxLen n).abs = { h.abs with max := n, entries := takeLast n h.abs.entries } := by
  unfold Hist.setMaxLen Hist.abs takeLast
  by_cases hc : h.db.rows.length > n
  · simp [hc, Hist.sidOf, List.map_drop]
  · have : h.db.rows.length - n = 0 := by omega
    simp [hc, Hist.sidOf, this]

theorem setIgnoreDups_abs {h : Hist} (hg : Good h) (b : Bool) :
    (h.setIgnoreDups b).abs =
      { h.abs with entries := (if b && !h.ignoreDups then collapse h.abs.entries else h.abs.entries), ignoreDups := b } := by
  have hs := hg.inv.sorted
  have hidx := hg.idx
  unfold Hist.setIgnoreDups
  by_cases hb : h.ignoreDups = b
  · subst hb
    cases hd : h.ignoreDups <;> simp [Hist.abs, hd]
  · have hne : (h.ignoreDups != b) = true := by simpa using hb
    simp only [hne, if_true]
    cases b
    · have hd : h.ignoreDups = true := by cases hh : h.ignoreDups <;> simp_all
      simp [Hist.abs, Hist.setIgnoreDupsIndex, Hist.sidOf, hd]
    · have hd : h.ignoreDups = false := by cases hh : h.ignoreDups <;> simp_all
      have hk := setIgnoreDupsIndex_on_key (h := { h with ignoreDups := true }) hs (by rw [← hd]; exact hidx) rfl
      obtain ⟨_, _, _, h4⟩ := setIgnoreDupsIndex_rows { h with ignoreDups := true }
      have h5 : ({ h with ignoreDups := true } : Hist).setIgnoreDupsIndex.sessionId = h.sessionId := by
        unfold Hist.setIgnoreDupsIndex; simp only [if_true]; split
        · rfl
        · split <;> rfl
      have h6 : ({ h with ignoreDups := true } : Hist).setIgnoreDupsIndex.maxLen = h.maxLen ∧
          ({ h with ignoreDups := true } : Hist).setIgnoreDupsIndex.ignoreSpace = h.ignoreSpace ∧
          ({ h with ignoreDups := true } : Hist).setIgnoreDupsIndex.ignoreDups = true := by
        unfold Hist.setIgnoreDupsIndex; simp only [if_true]; split
        · exact ⟨rfl, rfl, rfl⟩
        · split <;> exact ⟨rfl, rfl, rfl⟩
      simp only [Hist.abs, Hist.sidOf, hk, h4, h5, h6.1, h6.2.1, h6.2.2, hd]
      simp

/-- what reopening does to the content -/
theorem openDb_abs {h : Hist} (hi : Inv h) (hn : h.db.index = true → (h.db.rows.map key).Nodup) (c : Cfg) :
    (Hist.openDb c h.db).abs =
      { entries := if c.ignoreDups then collapse (h.db.rows.map key) else h.db.rows.map key,
        epoch := h.db.sessions + 1, max := c.maxLen, ignoreSpace := c.ignoreSpace, ignoreDups := c.ignoreDups } := by
  have hs := hi.sorted
  have hinit := hi.init
  generalize h.db = db at hs hinit hn
  obtain ⟨init, sessions, rows, index⟩ := db
  obtain ⟨ml, isp, idp⟩ := c
  simp only at hs hinit hn
  subst hinit
  have hk := dedupe_key hs
  cases idp <;> cases index <;> by_cases hdup : hasDup rows = true <;>
    simp [Hist.openDb, Hist.checkSchema, Hist.setIgnoreDupsIndex, hdup, Hist.updateRowId, Hist.abs, Hist.sidOf, hk]
  · have hd' : hasDup rows = false := by simpa using hdup
    rw [← hk, dedupe_noDup hd']
  · exact (collapse_nodup_id _ (hn rfl)).symm
  · exact (collapse_nodup_id _ (hn rfl)).symm

end Rl.Sq
