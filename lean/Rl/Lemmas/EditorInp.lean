/-
  C17: `execute` and the edit functions never touch the input state (`inp`: vi input mode, pending
  numeric argument, last command, last character search) — only `next_cmd` does.  A frame fact by
  the structural tactic, with one leaf lemma per primitive.
-/
import Rl.Lemmas.EditorM
import Rl.Lemmas.EditorFrame
namespace Rl
open EM

/-- the projection -/
def Ed.inpOf (s : Ed) : InputState := s.inp

section
variable (S : Segmenter) (U : UData) (cfg : EdCfg)

theorem keeps_inp_lb {α : Type} (op : LM α) : Keeps Ed.inpOf (lb S U op) := by
  constructor; intro s; unfold lb
  cases op s.line with
  | error e => rfl
  | ok r => rfl

theorem keeps_inp_lbQuiet {α : Type} (op : LM α) : Keeps Ed.inpOf (lbQuiet op) := by
  constructor; intro s; unfold lbQuiet
  cases op s.line with
  | error e => rfl
  | ok r => rfl

theorem keeps_inp_lbKill {α : Type} (op : LM α) : Keeps Ed.inpOf (lbKill S U op) := by
  constructor; intro s; unfold lbKill
  cases op s.line with
  | error e => rfl
  | ok r =>
    obtain ⟨a, l, ns⟩ := r
    simp only []
    cases lbKill.go ns s.ring with
    | error e => rfl
    | ok k => rfl

theorem keeps_inp_backup : Keeps Ed.inpOf (backup S U) := by
  constructor; intro s; unfold backup
  cases LB.update S U s.line.buf s.line.pos s.saved with
  | error e => rfl
  | ok r => rfl

theorem keeps_inp_ringYank : Keeps Ed.inpOf ringYank := by
  constructor; intro s; unfold ringYank
  cases s.ring.yank with
  | error e => rfl
  | ok r => rfl

theorem keeps_inp_ringYankPop : Keeps Ed.inpOf ringYankPop := by
  constructor; intro s; unfold ringYankPop
  cases s.ring.yankPop with
  | error e => rfl
  | ok r => rfl

theorem keeps_inp_ringKill (t : Text) : Keeps Ed.inpOf (ringKill t) := by
  constructor; intro s; unfold ringKill
  cases s.ring.kill t .append with
  | error e => rfl
  | ok r => rfl

theorem keeps_inp_ringYankCount (n : Nat) : Keeps Ed.inpOf (ringYankCount n) := ⟨fun _ => rfl⟩
theorem keeps_inp_setHistIdx (i : Nat) : Keeps Ed.inpOf (setHistIdx i) := ⟨fun _ => rfl⟩
theorem keeps_inp_truncateChanges (m : Nat) : Keeps Ed.inpOf (truncateChanges m) := ⟨fun _ => rfl⟩
theorem keeps_inp_changesBegin : Keeps Ed.inpOf changesBegin := ⟨fun _ => rfl⟩
theorem keeps_inp_changesEnd : Keeps Ed.inpOf changesEnd := ⟨fun _ => rfl⟩
theorem keeps_inp_getLine : Keeps Ed.inpOf getLine := ⟨fun _ => rfl⟩
theorem keeps_inp_getHistIdx : Keeps Ed.inpOf getHistIdx := ⟨fun _ => rfl⟩
theorem keeps_inp_getPromptCol : Keeps Ed.inpOf getPromptCol := ⟨fun _ => rfl⟩
theorem keeps_inp_lineEmpty : Keeps Ed.inpOf lineEmpty := ⟨fun _ => rfl⟩
theorem keeps_inp_hasHint : Keeps Ed.inpOf hasHint := ⟨fun _ => rfl⟩
theorem keeps_inp_logRender (g : Ed → RenderOp) : Keeps Ed.inpOf (logRender g) := ⟨fun _ => rfl⟩
theorem keeps_inp_setRefreshLayout (p : Text) (d : Bool) : Keeps Ed.inpOf (setRefreshLayout S U cfg p d) :=
  ⟨fun _ => rfl⟩

theorem keeps_inp_rdErr {α : Type} (e : RdErr) : Keeps Ed.inpOf (rdErr e : EM α) := by
  constructor; intro s; cases e <;> rfl

theorem keeps_inp_nextChar : Keeps Ed.inpOf nextChar := by
  constructor; intro s; unfold nextChar
  cases s.input.nextChar with
  | error e => exact (keeps_inp_rdErr e).h s
  | ok r => rfl

theorem keeps_inp_nextKey (sea : Bool) : Keeps Ed.inpOf (nextKey sea) := by
  constructor; intro s; unfold nextKey
  cases s.input.nextKey sea with
  | error e => exact (keeps_inp_rdErr e).h s
  | ok r => rfl

theorem keeps_inp_readPasted : Keeps Ed.inpOf readPasted := by
  constructor; intro s; unfold readPasted
  cases s.input.readPasted (s.input.size + 1) [] with
  | error e => exact (keeps_inp_rdErr e).h s
  | ok r => rfl

theorem keeps_inp_highlightCharStep : Keeps Ed.inpOf (highlightCharStep cfg) := by
  constructor; intro s; unfold highlightCharStep
  by_cases h1 : cfg.hasHelper = true
  · by_cases h2 : cfg.highlightChar s.line.buf s.line.pos = true
    · simp only [h1, h2, if_true]; rfl
    · by_cases h3 : s.highlightChar = true
      · simp only [h1, h2, h3, if_true, if_false, Bool.false_eq_true]; rfl
      · simp only [h1, h2, h3, if_true, if_false, Bool.false_eq_true]
  · simp only [h1, if_false, Bool.false_eq_true]

theorem keeps_inp_updateHint : Keeps Ed.inpOf (updateHint cfg) := by
  constructor; intro s; unfold updateHint
  by_cases h1 : cfg.hasHelper = true
  · by_cases h2 : (cfg.hinterPanicAt == some (cfg.hintCallsBase + (s.hintCalls + 1))) = true
    · simp only [h1, h2, if_true]; rfl
    · simp only [h1, h2, if_true, if_false, Bool.false_eq_true]; rfl
  · simp only [h1, if_false, Bool.false_eq_true]; rfl

theorem keeps_inp_customBinding (keys : List KeyEvent) (n : Nat) (p : Bool) :
    Keeps Ed.inpOf (customBinding cfg keys n p) := by
  constructor; intro s; unfold customBinding
  cases cfg.binds.find? (fun b => b.1 == keys) with
  | none => rfl
  | some b => rfl

end

macro "em_inp_step0" : tactic => `(tactic| first
  | intro _
  | with_reducible (first
    | exact Keeps.pure _
    | apply Keeps.bind
    | apply Keeps.bind'
    | apply Keeps.ite
    | assumption
    | exact Keeps.exit _
    | exact Keeps.liftP _
    | exact Keeps.get
    | exact Keeps.read _
    | exact keeps_inp_lb _ _ _ | exact keeps_inp_lbQuiet _ | exact keeps_inp_lbKill _ _ _
    | exact keeps_inp_backup _ _ | exact keeps_inp_ringYank | exact keeps_inp_ringYankPop
    | exact keeps_inp_ringKill _ | exact keeps_inp_ringYankCount _ | exact keeps_inp_setHistIdx _
    | exact keeps_inp_truncateChanges _ | exact keeps_inp_changesBegin | exact keeps_inp_changesEnd
    | exact keeps_inp_getLine | exact keeps_inp_getHistIdx | exact keeps_inp_getPromptCol
    | exact keeps_inp_lineEmpty | exact keeps_inp_hasHint | exact keeps_inp_logRender _
    | exact keeps_inp_setRefreshLayout _ _ _ _ _ | exact keeps_inp_nextChar | exact keeps_inp_nextKey _
    | exact keeps_inp_highlightCharStep _ | exact keeps_inp_updateHint _)
  | ((with_reducible apply Keeps.modify) <;> (intro _; rfl))
  | split
  | dsimp only)

syntax "em_inp0" : tactic
macro_rules
  | `(tactic| em_inp0) => `(tactic| repeat' em_inp_step0)

section
variable (S : Segmenter) (U : UData) (cfg : EdCfg)

theorem keeps_inp_refreshLine : Keeps Ed.inpOf (refreshLine S U cfg) := by
  unfold refreshLine; em_inp0
theorem keeps_inp_refreshLineWithMsg (m : Option Text) : Keeps Ed.inpOf (refreshLineWithMsg S U cfg m) := by
  unfold refreshLineWithMsg; em_inp0
theorem keeps_inp_refreshPromptAndLine (p : Text) : Keeps Ed.inpOf (refreshPromptAndLine S U cfg p) := by
  unfold refreshPromptAndLine; em_inp0
theorem keeps_inp_moveCursor : Keeps Ed.inpOf (moveCursor S U cfg) := by
  unfold moveCursor; em_inp0

end

macro "em_inp_step" : tactic => `(tactic| first
  | with_reducible (first
    | exact keeps_inp_refreshLine _ _ _ | exact keeps_inp_refreshLineWithMsg _ _ _ _
    | exact keeps_inp_refreshPromptAndLine _ _ _ _ | exact keeps_inp_moveCursor _ _ _)
  | em_inp_step0)

syntax "em_inp" ("[" term,* "]")? : tactic
macro_rules
  | `(tactic| em_inp) => `(tactic| repeat' em_inp_step)
  | `(tactic| em_inp [$ts,*]) =>
    `(tactic| repeat' (first | (with_reducible first $[| apply $ts]*) | em_inp_step))

section
variable (S : Segmenter) (U : UData) (cfg : EdCfg)

theorem keeps_inp_editInsert (c : Char) (n : Nat) : Keeps Ed.inpOf (editInsert S U cfg c n) := by
  unfold editInsert; em_inp

theorem keeps_inp_validate : Keeps Ed.inpOf (validate S U cfg) := by
  unfold validate; em_inp


theorem keeps_inp_restore : Keeps Ed.inpOf (restore S U) := by
  unfold restore; em_inp
theorem keeps_inp_showEntry (b : Text) (p : Nat) : Keeps Ed.inpOf (showEntry S U b p) := by
  unfold showEntry; em_inp
theorem keeps_inp_editMove (op : LM Bool) : Keeps Ed.inpOf (editMove S U cfg op) := by
  unfold editMove; em_inp
theorem keeps_inp_grouped (op : LM Bool) : Keeps Ed.inpOf (grouped S U cfg op) := by
  unfold grouped; em_inp
theorem keeps_inp_editYank (t : Text) (a : Anchor) (n : Nat) : Keeps Ed.inpOf (editYank S U cfg t a n) := by
  unfold editYank; em_inp
theorem keeps_inp_editYankPop (k : Nat) (t : Text) : Keeps Ed.inpOf (editYankPop S U cfg k t) := by
  unfold editYankPop; em_inp
theorem keeps_inp_editKill (m : Movement) : Keeps Ed.inpOf (editKill S U cfg m) := by
  unfold editKill; em_inp
theorem keeps_inp_editInsertText (t : Text) : Keeps Ed.inpOf (editInsertText S U cfg t) := by
  unfold editInsertText; em_inp
theorem keeps_inp_editReplaceChar (c : Char) (n : Nat) : Keeps Ed.inpOf (editReplaceChar S U cfg c n) := by
  unfold editReplaceChar; em_inp
theorem keeps_inp_editOverwriteChar (c : Char) : Keeps Ed.inpOf (editOverwriteChar S U cfg c) := by
  unfold editOverwriteChar; em_inp
theorem keeps_inp_completeHintLine : Keeps Ed.inpOf (completeHintLine S U cfg) := by
  unfold completeHintLine; em_inp
theorem keeps_inp_editHistoryNext (prev : Bool) : Keeps Ed.inpOf (editHistoryNext S U cfg prev) := by
  have h1 := keeps_inp_restore S U
  have h2 := fun b p => keeps_inp_showEntry S U b p
  unfold editHistoryNext; em_inp [h2]
theorem keeps_inp_editHistory (first : Bool) : Keeps Ed.inpOf (editHistory S U cfg first) := by
  have h1 := keeps_inp_restore S U
  have h2 := fun b p => keeps_inp_showEntry S U b p
  unfold editHistory; em_inp [h2]
theorem keeps_inp_editHistorySearch (d : Dir) : Keeps Ed.inpOf (editHistorySearch S U cfg d) := by
  have h2 := fun b p => keeps_inp_showEntry S U b p
  unfold editHistorySearch; em_inp [h2]
theorem keeps_inp_execAccept (aim : Bool) : Keeps Ed.inpOf (execAccept S U cfg aim) := by
  have h1 := keeps_inp_validate S U cfg
  have h2 := fun c n => keeps_inp_editInsert S U cfg c n
  unfold execAccept; em_inp [h2]

/-- **`execute` never touches the input state** (all commands: the `Undo` branch rewrites line
    and undo log only) -/
theorem keeps_inp_execute (cmd : Cmd) : Keeps Ed.inpOf (execute S U cfg cmd) := by
  have a1 := fun c n => keeps_inp_editInsert S U cfg c n
  have a2 := keeps_inp_validate S U cfg
  have a3 := fun t a n => keeps_inp_editYank S U cfg t a n
  have a4 := fun k t => keeps_inp_editYankPop S U cfg k t
  have a5 := fun m => keeps_inp_editKill S U cfg m
  have a6 := fun t => keeps_inp_editInsertText S U cfg t
  have a7 := fun c n => keeps_inp_editReplaceChar S U cfg c n
  have a8 := fun c => keeps_inp_editOverwriteChar S U cfg c
  have a9 := keeps_inp_completeHintLine S U cfg
  have a10 := fun p => keeps_inp_editHistoryNext S U cfg p
  have a11 := fun p => keeps_inp_editHistory S U cfg p
  have a12 := fun d => keeps_inp_editHistorySearch S U cfg d
  have a13 := fun a => keeps_inp_execAccept S U cfg a
  have m1 := fun op => keeps_inp_editMove S U cfg op
  have g1 := fun op => keeps_inp_grouped S U cfg op
  cases cmd <;> unfold execute
  case move m => cases m <;> em_inp [a1, a3, a4, a5, a6, a7, a8, a10, a11, a12, a13, m1, g1]
  case undo n =>
    constructor
    intro s
    simp only [EM.bind_apply, EM.pure_apply, EM.get]
    cases hu : s.changes.undo S U s.line n with
    | error e => rfl
    | ok r =>
      obtain ⟨c, l, undone⟩ := r
      simp only [EM.set]
      have hk : Keeps Ed.inpOf (do
          if undone then refreshLine S U cfg
          pure Status.proceed : EM Status) := by em_inp
      exact hk.h { s with changes := c, line := l }
  all_goals em_inp [a1, a3, a4, a5, a6, a7, a8, a10, a11, a12, a13, m1, g1]

end
end Rl
