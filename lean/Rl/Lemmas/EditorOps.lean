/-
  Specifications (in `wp` form, Rl/Lemmas/EditorM.lean) of the `src/edit.rs` / `src/command.rs`
  operations of the editor model, used by the property files C07, C08, C13, C14, C17.
-/
import Rl.Lemmas.EditorM
import Rl.Lemmas.LineBufferSafe
namespace Rl
open EM

theorem validate_spec (S : Segmenter) (U : UData) (cfg : EdCfg) (s : Ed) :
    wp (validate S U cfg)
      (fun v s' => s'.line = s.line ∧ s'.saved = s.saved ∧ s'.ring = s.ring ∧ s'.histIdx = s.histIdx ∧
        (if cfg.hasHelper = true then v = cfg.validator s.line.buf ∧ s'.validatorCalls = s.line.buf :: s.validatorCalls
         else v = .valid false ∧ s' = s) ∧ v ≠ .error ∧ v ≠ .panic)
      (fun o s' => cfg.hasHelper = true ∧ s'.line = s.line ∧
        ((o = .helperError ∧ cfg.validator s.line.buf = .error) ∨ (o = .panic ∧ cfg.validator s.line.buf = .panic)))
      s := by
  unfold validate
  by_cases hh : cfg.hasHelper = true
  · simp only [hh, if_true, wp_bind, wp_changesBegin, wp_getLine, wp_modify, wp_ite, wp_exit, wp_pure, wp_changesEnd, wp_hasHint]
    generalize cfg.validator s.line.buf = v
    cases v with
    | error => simp
    | panic => simp
    | incomplete => simp [wp_pure]
    | valid m =>
      simp only [beq_iff_eq, reduceCtorEq, if_false]
      split
      · simp only [wp_bind]
        refine wp_refreshLineWithMsg S U cfg fun s' hc => ?_
        obtain ⟨h1, h2, _, h4, h5, h6, _⟩ := Ed.core_eq hc
        simp [wp_pure, h1, h2, h4, h5, h6]
      · simp [wp_pure]
    | invalid m =>
      simp only [beq_iff_eq, reduceCtorEq, if_false]
      split
      · simp only [wp_bind]
        refine wp_refreshLineWithMsg S U cfg fun s' hc => ?_
        obtain ⟨h1, h2, _, h4, h5, h6, _⟩ := Ed.core_eq hc
        simp [wp_pure, h1, h2, h4, h5, h6]
      · simp [wp_pure]
  · simp only [hh, if_false, wp_pure, Bool.false_eq_true]
    simp

/-- `edit_insert`: the line-buffer insertion, then display work only; besides a failing insertion
    its only early exit is the panic of a hinter scripted to panic -/
theorem editInsert_spec (S : Segmenter) (U : UData) (cfg : EdCfg) (ch : Char) (n : Nat) (s : Ed) :
    wp (editInsert S U cfg ch n)
      (fun _ s' => ∃ r l ns, LB.insert S U ch n s.line = .ok (r, l, ns) ∧
        s'.core = ({ s with line := l, changes := s.changes.onNotifs S U.alnum ns } : Ed).core)
      (fun o s' => o = .panic ∧
        ((s' = s ∧ ∃ e, LB.insert S U ch n s.line = .error e) ∨
         (cfg.hasHelper = true ∧ cfg.hinterPanicAt ≠ none))) s := by
  unfold editInsert
  rw [wp_bind]
  cases h : LB.insert S U ch n s.line with
  | error e => rw [wp, lb_error S U h]; exact ⟨rfl, .inl ⟨rfl, e, rfl⟩⟩
  | ok r =>
    obtain ⟨a, l, ns⟩ := r
    refine wp_lb S U h ?_
    cases a with
    | none => exact ⟨_, _, _, rfl, rfl⟩
    | some push =>
      simp only [wp_bind, wp_get]
      refine wp_updateHint' cfg (fun s1 hc1 => ?_) (fun _ _ hh hne => ⟨rfl, .inr ⟨hh, hne⟩⟩)
      cases push with
      | false =>
        simp only [Bool.false_eq_true, if_false, wp_bind]
        refine wp_highlightCharStep cfg fun b s2 hc2 => ?_
        simp only [wp_setRefreshLayout, wp_logRender]
        exact ⟨_, _, _, rfl, hc2.trans hc1⟩
      | true =>
        simp only [if_true, wp_bind, wp_get, wp_ite]
        split
        · refine wp_highlightCharStep cfg fun b s2 hc2 => ?_
          cases b with
          | true =>
            simp only [if_true, wp_bind, wp_setRefreshLayout, wp_logRender]
            exact ⟨_, _, _, rfl, hc2.trans hc1⟩
          | false =>
            simp only [Bool.false_eq_true, if_false, wp_bind, wp_modify, wp_logRender]
            exact ⟨_, _, _, rfl, hc2.trans hc1⟩
        · simp only [wp_bind, wp_setRefreshLayout, wp_logRender]
          exact ⟨_, _, _, rfl, hc1⟩

/-- the same for helpers that do not panic -/
theorem editInsert_spec_np (S : Segmenter) (U : UData) (cfg : EdCfg) (hnp : cfg.hinterPanicAt = none)
    (ch : Char) (n : Nat) (s : Ed) :
    wp (editInsert S U cfg ch n)
      (fun _ s' => ∃ r l ns, LB.insert S U ch n s.line = .ok (r, l, ns) ∧
        s'.core = ({ s with line := l, changes := s.changes.onNotifs S U.alnum ns } : Ed).core)
      (fun o s' => o = .panic ∧ s' = s ∧ ∃ e, LB.insert S U ch n s.line = .error e) s :=
  wp_mono (editInsert_spec S U cfg ch n s) (fun _ _ h => h) fun o s' ⟨ho, hd⟩ => by
    rcases hd with h | hne
    · exact ⟨ho, h⟩
    · exact absurd hnp hne.2

/-- the verdict `validate` works with: the validator's, or Valid when no helper is installed -/
def verdictOf (cfg : EdCfg) (t : Text) : Verdict := if cfg.hasHelper = true then cfg.validator t else .valid false
def Verdict.isValid : Verdict → Bool | .valid _ => true | _ => false
def Verdict.hasMsg : Verdict → Bool | .valid m => m | .invalid m => m | _ => false

/-- the action Enter takes in state `s` -/
def acceptActOf (U : UData) (cfg : EdCfg) (aim : Bool) (s : Ed) : AcceptAct :=
  acceptDecision aim (verdictOf cfg s.line.buf).isValid (verdictOf cfg s.line.buf).hasMsg (LB.isEndOfInput U s.line)

theorem execAccept_spec (S : Segmenter) (U : UData) (cfg : EdCfg) (aim : Bool) (s : Ed) :
    wp (execAccept S U cfg aim)
      (fun st s' =>
        verdictOf cfg s.line.buf ≠ .error ∧ verdictOf cfg s.line.buf ≠ .panic ∧
        s'.saved = s.saved ∧ s'.ring = s.ring ∧ s'.histIdx = s.histIdx ∧
        match acceptActOf U cfg aim s with
        | .submit => st = .submit ∧ s'.line = s.line
        | .insertNewline => st = .proceed ∧ ∃ r ns, LB.insert S U '\n' 1 s.line = .ok (r, s'.line, ns)
        | .stay => st = .proceed ∧ s'.line = s.line)
      (fun o s' => (s'.line = s.line ∧
        ((o = .helperError ∧ cfg.hasHelper = true ∧ cfg.validator s.line.buf = .error) ∨
         (o = .panic ∧ cfg.hasHelper = true ∧ cfg.validator s.line.buf = .panic) ∨
         (o = .panic ∧ verdictOf cfg s.line.buf ≠ .error ∧ acceptActOf U cfg aim s = .insertNewline ∧
           ∃ e, LB.insert S U '\n' 1 s.line = .error e))) ∨
        (o = .panic ∧ cfg.hinterPanicAt ≠ none ∧ verdictOf cfg s.line.buf ≠ .error ∧
          acceptActOf U cfg aim s = .insertNewline))
      s := by
  unfold execAccept
  rw [wp_bind]
  refine wp_mono (validate_spec S U cfg s) ?_ ?_
  · intro v s1 ⟨h1, h2, h3, h4, h5, h6, h7⟩
    have hv : v = verdictOf cfg s.line.buf := by
      unfold verdictOf
      split at h5
      · rename_i hh; rw [if_pos hh]; exact h5.1
      · rename_i hh; rw [if_neg hh]; exact h5.1
    simp only [wp_bind, wp_getLine]
    generalize hA : acceptDecision aim _ _ (LB.isEndOfInput U s1.line) = A
    have hact : A = acceptActOf U cfg aim s := by
      rw [← hA]; unfold acceptActOf; rw [← hv, h1]
      cases v <;> rfl
    rw [hact]
    cases hact2 : acceptActOf U cfg aim s with
    | submit => simp only [wp_pure]; exact ⟨hv ▸ h6, hv ▸ h7, h2, h3, h4, trivial, h1⟩
    | stay => simp only [wp_pure]; exact ⟨hv ▸ h6, hv ▸ h7, h2, h3, h4, trivial, h1⟩
    | insertNewline =>
      simp only [wp_bind]
      refine wp_mono (editInsert_spec S U cfg '\n' 1 s1) ?_ ?_
      · intro _ s2 ⟨r, l, ns, hi, hc⟩
        obtain ⟨c1, c2, _, c4, c5, _, _⟩ := Ed.core_eq hc
        simp only [wp_pure]
        refine ⟨hv ▸ h6, hv ▸ h7, c2.trans h2, c4.trans h3, c5.trans h4, trivial, r, ns, ?_⟩
        rw [← h1, hi]; simp only [] at c1; rw [c1]
      · intro o s2 ⟨ho, hd⟩
        rcases hd with ⟨hs, e, he⟩ | hne
        · subst hs
          exact .inl ⟨h1, .inr (.inr ⟨ho, hv ▸ h6, trivial, e, h1 ▸ he⟩)⟩
        · exact .inr ⟨ho, hne.2, hv ▸ h6, trivial⟩
  · intro o s1 ⟨hh, h1, h2⟩
    refine .inl ⟨h1, ?_⟩
    rcases h2 with ⟨ho, hv⟩ | ⟨ho, hv⟩
    · exact .inl ⟨ho, hh, hv⟩
    · exact .inr (.inl ⟨ho, hh, hv⟩)

/-- what `execute` does before dispatching an accepting command (`EndOfFile`, `AcceptLine`,
    `AcceptOrInsertLine`, `Newline`): the hint / prompt / highlight are cleared from the display -/
def withPreAccept {α : Type} (S : Segmenter) (U : UData) (cfg : EdCfg) (k : EM α) : EM α := do
  let s ← EM.get
  if s.hint.isSome || !s.defaultPrompt || s.highlightChar then do refreshLineWithMsg S U cfg; k
  else k

theorem wp_withPreAccept {α : Type} (S : Segmenter) (U : UData) (cfg : EdCfg) {k : EM α}
    {Q : α → Ed → Prop} {E : Outcome → Ed → Prop} {s : Ed}
    (h : ∀ s1, s1.core = s.core → wp k Q E s1) : wp (withPreAccept S U cfg k) Q E s := by
  unfold withPreAccept
  simp only [wp_bind, wp_get, wp_ite]
  split
  · exact wp_refreshLineWithMsg S U cfg fun s1 hc => h s1 hc
  · exact h s rfl

theorem execute_acceptOrInsertLine (S : Segmenter) (U : UData) (cfg : EdCfg) (aim : Bool) :
    execute S U cfg (.acceptOrInsertLine aim) = withPreAccept S U cfg (execAccept S U cfg aim) := by
  unfold execute withPreAccept
  simp only []

/-! ### `LineBuffer::update` on a growable buffer sets exactly text and cursor -/

theorem LB.update_canGrow (S : Segmenter) (U : UData) (b : Text) (p : Nat) (lb : LB)
    (hc : lb.canGrow = true) (hp : p ≤ blen b) :
    LB.update S U b p lb = .ok ((), { lb with buf := b, pos := p, cap := growCap lb.cap (blen b) },
      [.del 0 lb.buf .forward, .insStr 0 b]) := by
  unfold LB.update
  have ht : ({ lb with buf := [] } : LB).mustTruncate (blen b) = false := by
    simp [LB.mustTruncate, hc]
  simp [LM.bind_apply, LM.get, hp, drain_all, ht, insertStr_empty, LM.setPos]

/-- the line after `update(buf, pos)` -/
def LB.updated (lb : LB) (b : Text) (p : Nat) : LB :=
  { lb with buf := b, pos := p, cap := growCap lb.cap (blen b) }

/-- the undo-log entries `update` produces -/
def updNotifs (old new : Text) : List Notif := [.del 0 old .forward, .insStr 0 new]

theorem wp_lb_update (S : Segmenter) (U : UData) {b : Text} {p : Nat} {s : Ed}
    {Q : Unit → Ed → Prop} {E : Outcome → Ed → Prop}
    (hc : s.line.canGrow = true) (hp : p ≤ blen b)
    (hq : Q () { s with line := s.line.updated b p,
                        changes := s.changes.onNotifs S U.alnum (updNotifs s.line.buf b) }) :
    wp (lb S U (LB.update S U b p)) Q E s :=
  wp_lb S U (LB.update_canGrow S U b p s.line hc hp) hq

theorem wp_backup (S : Segmenter) (U : UData) {s : Ed} {Q : Unit → Ed → Prop} {E : Outcome → Ed → Prop}
    (hc : s.saved.canGrow = true) (hp : s.line.pos ≤ blen s.line.buf)
    (hq : Q () { s with saved := s.saved.updated s.line.buf s.line.pos }) : wp (backup S U) Q E s := by
  unfold wp backup
  rw [LB.update_canGrow S U _ _ s.saved hc hp]
  exact hq

theorem wp_restore (S : Segmenter) (U : UData) {s : Ed} {Q : Unit → Ed → Prop} {E : Outcome → Ed → Prop}
    (hc : s.line.canGrow = true) (hp : s.saved.pos ≤ blen s.saved.buf)
    (hq : Q () { s with line := s.line.updated s.saved.buf s.saved.pos,
                        changes := s.changes.onNotifs S U.alnum (updNotifs s.line.buf s.saved.buf) }) :
    wp (restore S U) Q E s := by
  unfold restore
  rw [wp_bind', wp_read]
  exact wp_lb_update S U hc hp hq

/-- the undo log after showing a history entry: one closed group around the replacement -/
def showEntryChanges (S : Segmenter) (U : UData) (c : Changeset) (old new : Text) : Changeset :=
  ((c.begin.1).onNotifs S U.alnum (updNotifs old new)).end_.1

theorem wp_showEntry (S : Segmenter) (U : UData) {b : Text} {p : Nat} {s : Ed}
    {Q : Unit → Ed → Prop} {E : Outcome → Ed → Prop}
    (hc : s.line.canGrow = true) (hp : p ≤ blen b)
    (hq : Q () { s with line := s.line.updated b p,
                        changes := showEntryChanges S U s.changes s.line.buf b }) :
    wp (showEntry S U b p) Q E s := by
  unfold showEntry
  simp only [wp_bind, wp_changesBegin]
  refine wp_lb_update S U hc hp ?_
  simp only [wp_changesEnd, wp_pure]
  exact hq

section
variable (S : Segmenter) (U : UData) (cfg : EdCfg)

theorem wp_lb_any {α : Type} {op : LM α} {s : Ed} {Q : α → Ed → Prop} {E : Outcome → Ed → Prop}
    (hq : ∀ a l ns, op s.line = .ok (a, l, ns) →
      Q a { s with line := l, changes := s.changes.onNotifs S U.alnum ns })
    (he : E .panic s) : wp (lb S U op) Q E s := by
  unfold wp lb
  cases h : op s.line with
  | error e => exact he
  | ok r => obtain ⟨a, l, ns⟩ := r; exact hq a l ns h

theorem LB.replace_canGrow {a b : Nat} {t : Text} {lb lb' : LB} {r : Unit} {ns : List Notif}
    (h : LB.replace S U a b t lb = .ok (r, lb', ns)) : lb'.canGrow = lb.canGrow := by
  unfold LB.replace at h
  cases hs : split3 lb.buf a b with
  | error e => rw [hs] at h; cases h
  | ok x => obtain ⟨x, y, z⟩ := x; rw [hs] at h; cases h; rfl

theorem LB.update_keeps_canGrow {b : Text} {p : Nat} {lb lb' : LB} {r : Unit} {ns : List Notif}
    (h : LB.update S U b p lb = .ok (r, lb', ns)) (hg : lb.canGrow = true) : lb'.canGrow = true := by
  by_cases hp : p ≤ blen b
  · rw [LB.update_canGrow S U b p lb hg hp] at h
    cases h; exact hg
  · exfalso
    unfold LB.update at h
    simp [hp, LM.bind_apply, LM.panic] at h

end

end Rl
