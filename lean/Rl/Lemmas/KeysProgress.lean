/-
  Progress of the byte decoder, lifted from `readByte` through `nextChar`, `escapeO`, `escapeCsi`,
  `extendedEscape`, `escapeSequence` and `nextKey`.

  `Res lo hi i r` says about a decoder result `r` obtained from the input `i`:
  * on success the decoder consumed between `lo` and `hi` bytes;
  * a failure is `invalidData`, or `io` — and then fewer than `hi` bytes were left in `i`
    (the input ran out inside the sequence: the hang-up).
-/
import Rl.Keys
import Rl.Lemmas.Keys
namespace Rl

def Res {α : Type} (lo hi : Nat) (i : Input) (r : Except RdErr (α × Input)) : Prop :=
  match r with
  | .ok (_, i') => i'.size + lo ≤ i.size ∧ i.size ≤ i'.size + hi
  | .error e => (e = .io ∧ i.size < hi) ∨ e = .invalidData

namespace Res
variable {α β : Type}

theorem pure (h : Nat) (i : Input) (a : α) : Res 0 h i (Pure.pure (a, i) : Except RdErr (α × Input)) := by
  simp [Res, Pure.pure, Except.pure]

theorem throwInvalid (l h : Nat) (i : Input) :
    Res l h i (throw RdErr.invalidData : Except RdErr (α × Input)) := by
  simp [Res, throw, throwThe, MonadExceptOf.throw]

theorem throwBind (l h : Nat) (i : Input) (k : β → Except RdErr (α × Input)) :
    Res l h i ((throw RdErr.invalidData : Except RdErr β) >>= k) := by
  simp [Res, throw, throwThe, MonadExceptOf.throw, bind, Except.bind]

theorem mono {l l' h h' : Nat} {i : Input} {r : Except RdErr (α × Input)}
    (hr : Res l h i r) (hl : l' ≤ l) (hh : h ≤ h') : Res l' h' i r := by
  unfold Res at *
  split at hr
  · exact ⟨by omega, by omega⟩
  · rcases hr with ⟨rfl, hs⟩ | rfl
    · exact .inl ⟨rfl, by omega⟩
    · exact .inr rfl

theorem bind {l1 h1 l2 h2 : Nat} {i : Input} {m : Except RdErr (β × Input)}
    {k : β × Input → Except RdErr (α × Input)}
    (hm : Res l1 h1 i m) (hk : ∀ a i', Res l2 h2 i' (k (a, i'))) :
    Res (l2 + l1) (h2 + h1) i (m >>= k) := by
  cases m with
  | error e =>
    simp only [Res, Bind.bind, Except.bind] at hm ⊢
    rcases hm with ⟨rfl, hs⟩ | rfl
    · exact .inl ⟨rfl, by omega⟩
    · exact .inr rfl
  | ok p =>
    obtain ⟨a, i'⟩ := p
    have h2' := hk a i'
    simp only [Res, Bind.bind, Except.bind] at hm ⊢
    revert h2'
    cases k (a, i') with
    | error e =>
      intro h2'
      simp only [Res] at h2' ⊢
      rcases h2' with ⟨rfl, hs⟩ | rfl
      · exact .inl ⟨rfl, by omega⟩
      · exact .inr rfl
    | ok q =>
      intro h2'
      simp only [Res] at h2' ⊢
      exact ⟨by omega, by omega⟩

theorem ofPollWait {l h : Nat} {i : Input} {r : Except RdErr (α × Input)}
    (hr : Res l h i.pollWait r) : Res l h i r := by
  unfold Res at *
  rw [Input.pollWait_size] at hr
  exact hr

end Res

/-- a failed byte read means nothing is left -/
theorem Input.readByte_error_size {i : Input} {e : RdErr} (h : i.readByte = .error e) : i.size = 0 := by
  unfold Input.readByte at h
  split at h
  · simp at h
  · rename_i hb
    split at h
    · simp at h
    · rename_i ha
      have : ∀ fut : List (List UInt8), Input.readByte.next fut = .error e → (fut.map List.length).sum = 0 := by
        intro fut
        induction fut with
        | nil => simp
        | cons c rest ih =>
          cases c with
          | nil => intro h; simp [Input.readByte.next] at h; simpa using ih h
          | cons x xs => intro h; simp [Input.readByte.next] at h
      simp [Input.size, hb, ha, this _ h]

theorem Input.readByte_res (i : Input) : Res 1 1 i i.readByte := by
  cases h : i.readByte with
  | error e =>
    have := Input.readByte_error h
    have hs := Input.readByte_error_size h
    subst this
    exact .inl ⟨rfl, by omega⟩
  | ok p =>
    obtain ⟨b, i'⟩ := p
    have := Input.readByte_size h
    exact ⟨by omega, by omega⟩

theorem Res.bindByte {α : Type} {l h : Nat} {i : Input} {k : UInt8 × Input → Except RdErr (α × Input)}
    (hk : ∀ b i', Res l h i' (k (b, i'))) : Res (l + 1) (h + 1) i (i.readByte >>= k) :=
  Res.bind (Input.readByte_res i) hk

/-- one decoding step of the `res` tactic -/
syntax "res_step" : tactic
macro_rules
  | `(tactic| res_step) => `(tactic| first
      | exact Res.pure _ _ _
      | exact Res.throwInvalid _ _ _
      | exact Res.throwBind _ _ _ _
      | (refine Res.mono (Res.bindByte (l := 0) ?_) (Nat.zero_le _) (Nat.le_refl _); intro _ _; dsimp only)
      | split)

theorem Input.nextChar_res (i : Input) : Res 1 4 i i.nextChar := by
  unfold Input.nextChar
  refine Res.bindByte (l := 0) (h := 3) ?_
  intro b0 i1
  dsimp only
  repeat' res_step

theorem Res.bindChar {α : Type} {h : Nat} {i : Input} {k : Char × Input → Except RdErr (α × Input)}
    (hk : ∀ c i', Res 0 h i' (k (c, i'))) : Res 1 (h + 4) i (i.nextChar >>= k) :=
  Res.bind (Input.nextChar_res i) hk

theorem Res.ite {α : Type} {l h : Nat} {i : Input} {c : Prop} [Decidable c] {a b : Except RdErr (α × Input)}
    (ha : c → Res l h i a) (hb : ¬c → Res l h i b) : Res l h i (if c then a else b) := by
  by_cases hc : c
  · simp only [hc, if_true]; exact ha hc
  · simp only [hc, if_false]; exact hb hc

/-- like `res_step`, for the functions built on `nextChar` -/
syntax "key_step" : tactic
macro_rules
  | `(tactic| key_step) => `(tactic| first
      | exact Res.pure _ _ _
      | exact Res.throwInvalid _ _ _
      | exact Res.throwBind _ _ _ _
      | (refine Res.mono (Res.bindChar ?_) (Nat.zero_le _) (Nat.le_refl _); intro _ _; dsimp only)
      | (refine Res.ite ?_ ?_ <;> intro _))

theorem Input.escapeO_res (i : Input) : Res 1 4 i i.escapeO := by
  unfold Input.escapeO
  refine Res.bindChar (h := 0) ?_
  intro c i1
  dsimp only
  repeat' key_step

theorem Input.extendedEscape_res (i : Input) (seq2 : Char) : Res 1 20 i (i.extendedEscape seq2) := by
  unfold Input.extendedEscape
  refine Res.bindChar (h := 16) ?_
  intro c i1
  dsimp only
  repeat' key_step

theorem Input.escapeCsi_res (i : Input) : Res 1 24 i i.escapeCsi := by
  unfold Input.escapeCsi
  refine Res.bindChar (h := 20) ?_
  intro c i1
  dsimp only
  refine Res.ite ?_ ?_ <;> intro _
  · refine Res.ite ?_ ?_ <;> intro _
    · exact Res.pure _ _ _
    · exact Res.mono (Input.extendedEscape_res i1 c) (Nat.zero_le _) (Nat.le_refl _)
  · repeat' key_step

/-- steps for `escapeSequence` / `nextKey`: tail calls and binds of the sequence decoders -/
syntax "seq_step" : tactic
macro_rules
  | `(tactic| seq_step) => `(tactic| first
      | exact Res.pure _ _ _
      | exact Res.mono (Input.escapeCsi_res _) (Nat.zero_le _) (by omega)
      | exact Res.mono (Input.escapeO_res _) (Nat.zero_le _) (by omega)
      | exact Res.mono (Res.bind (Input.escapeCsi_res _) (fun _ _ => Res.pure 0 _ _)) (Nat.zero_le _) (by omega)
      | exact Res.mono (Res.bind (Input.escapeO_res _) (fun _ _ => Res.pure 0 _ _)) (Nat.zero_le _) (by omega)
      | exact Res.mono (Res.bind (Res.pure 0 _ _) (fun _ _ => Res.pure 0 _ _)) (Nat.zero_le _) (by omega)
      | (refine Res.mono (Res.bindChar ?_) (Nat.zero_le _) (Nat.le_refl _); intro _ _; dsimp only)
      | (refine Res.ofPollWait ?_; refine Res.mono (Res.bindChar ?_) (Nat.zero_le _) (Nat.le_refl _); intro _ _; dsimp only)
      | (refine Res.ite ?_ ?_ <;> intro _))

theorem Input.escapeSequence_res (i : Input) (allowRecurse : Bool) :
    Res 1 32 i (i.escapeSequence allowRecurse) := by
  unfold Input.escapeSequence
  refine Res.bindChar (h := 28) ?_
  intro c i1
  dsimp only
  repeat' seq_step

theorem Input.nextKey_res (i : Input) (singleEscAbort : Bool) : Res 1 36 i (i.nextKey singleEscAbort) := by
  unfold Input.nextKey
  refine Res.bindChar (h := 32) ?_
  intro c i1
  dsimp only
  refine Res.ite ?_ ?_ <;> intro _
  · refine Res.ite ?_ ?_ <;> intro _
    · refine Res.ite ?_ ?_ <;> intro _
      · exact Res.mono (Input.escapeSequence_res _ _) (Nat.zero_le _) (Nat.le_refl _)
      · exact Res.pure _ _ _
    · exact Res.ofPollWait (Res.mono (Input.escapeSequence_res _ _) (Nat.zero_le _) (Nat.le_refl _))
  · exact Res.pure _ _ _

end Rl
