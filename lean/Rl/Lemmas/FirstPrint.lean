/-
  C04, vi `^` (after the repair of D46): the model's `first_print` is the declarative `firstPrintTarget` of
  `Rl/Spec/Motion.lean`; the motion lands on it, `d^` / `y^` cover exactly the span between it and the cursor.
-/
import Rl.Lemmas.Vertical
import Rl.Lemmas.KillSpan
set_option linter.unusedVariables false
namespace Rl
open Rl.Spec

/-- the first element of the cluster list that fails `P` is cluster number `|takeWhile P|` -/
theorem fp_gidxGo_find (P : Text → Bool) (o : Nat) (gs : List Text) :
    ((gidxGo o gs).find? (fun x => !P x.2)).map (·.1) =
      if (gs.takeWhile P).length < gs.length then some (o + offOf gs (gs.takeWhile P).length) else none := by
  induction gs generalizing o with
  | nil => simp [gidxGo]
  | cons g gs ih =>
    simp only [gidxGo, List.find?_cons, List.takeWhile_cons]
    cases hP : P g with
    | false => simp [offOf]
    | true =>
      simp only [Bool.not_true, Bool.false_eq_true, if_false, if_true, List.length_cons, ih (o + blen g),
        Nat.add_lt_add_iff_right, offOf_cons_succ]
      split
      · simp; omega
      · rfl

theorem fp_takeWhile_line (v m R : Text) (hv : '\n' ∉ v) (hm : '\n' ∉ m) (hR : vm_Suf R) :
    (v ++ m ++ R).takeWhile (· != '\n') = v ++ m := by
  have hvm : ∀ c ∈ v ++ m, (c != '\n') = true := by
    intro c hc
    have : c ≠ '\n' := by
      intro e; subst e
      rcases List.mem_append.mp hc with h | h
      · exact hv h
      · exact hm h
    simpa using this
  rw [List.takeWhile_append_of_pos hvm]
  rcases hR with rfl | ⟨q, rfl⟩ <;> simp

/-- **the model's `first_print` is the declarative target** -/
theorem firstPrint_eq_target (S : Segmenter) (U : UData) (lb : LB) (h : WF lb) :
    ∃ fp, firstPrintTarget S U lb.buf lb.pos = some fp ∧ LB.firstPrint S U lb = .ok fp := by
  obtain ⟨x, s, hb, hp⟩ := h.split
  obtain ⟨X, v, m, R, hx, hs, hX, hR, hv, hm, hL, h1, h2⟩ := vm_line_at hb
  rw [← hp] at h1 h2
  have hsl := startOfLine_eq lb h
  have hel := endOfLine_eq lb h
  have hline : slice lb.buf (blen X) (lineEndOf lb.buf lb.pos) = .ok (v ++ m) := by
    rw [h2, hp]; exact hL.slice
  have hbuf : lb.buf = X ++ (v ++ m ++ R) := by rw [hb, hx, hs]; simp
  have hsp : splitAtByte lb.buf (blen X) = some (X, v ++ m ++ R) := by
    conv => lhs; rw [hbuf]
    exact splitAtByte_append _ _
  have hfind := fp_gidxGo_find (fun g => g.any U.ws) 0 (S.seg (v ++ m))
  unfold firstPrintTarget LB.firstPrint
  simp only [h1, splitAt?, hsp, fp_takeWhile_line v m R hv hm hR, hsl, hel, hline, bind, Except.bind, gidx]
  refine ⟨_, rfl, ?_⟩
  have hle : lineEndOf lb.buf lb.pos = blen X + blen (v ++ m) := by rw [h2, hp, hx]; simp; omega
  cases hf : (gidxGo 0 (S.seg (v ++ m))).find? (fun x => !x.2.any U.ws) with
  | some ig =>
    obtain ⟨i, g⟩ := ig
    rw [hf] at hfind
    simp only [Option.map_some] at hfind
    split at hfind
    · cases hfind
      simp [hf, pure, Except.pure]
    · cases hfind
  | none =>
    rw [hf] at hfind
    simp only [Option.map_none] at hfind
    split at hfind
    · cases hfind
    · rename_i hlt
      have hk : ((S.seg (v ++ m)).takeWhile (fun g => g.any U.ws)).length = (S.seg (v ++ m)).length := by
        have := List.IsPrefix.length_le (List.takeWhile_prefix (fun g => g.any U.ws) (l := S.seg (v ++ m)))
        omega
      simp only [hf, pure, Except.pure, hk, vm_offOf_length, hle]

/-- `move_to_first_print` lands on the declarative target; it answers whether the cursor moved -/
theorem moveToFirstPrint_target (S : Segmenter) (U : UData) (lb lb' : LB) (r : Bool) (ns : List Notif)
    (h : WF lb) (hrun : LB.moveToFirstPrint S U lb = .ok (r, lb', ns)) :
    firstPrintTarget S U lb.buf lb.pos = some lb'.pos ∧ lb'.buf = lb.buf ∧ (r = false ↔ lb'.pos = lb.pos) := by
  obtain ⟨fp, ht, hf⟩ := firstPrint_eq_target S U lb h
  simp [LB.moveToFirstPrint, LM.bind_apply, LM.ro, hf, LM.get, LM.setPos] at hrun
  obtain ⟨rfl, rfl, _⟩ := hrun
  exact ⟨ht, rfl, by simp⟩

theorem kill_viFirstPrint_is_span (S : Segmenter) (U : UData) (lb lb' : LB) (r : Bool) (ns : List Notif)
    (h : WF lb) (hrun : LB.kill S U .viFirstPrint lb = .ok (r, lb', ns)) :
    checkKill S U lb .viFirstPrint lb'.buf lb'.pos ns = none := by
  obtain ⟨fp, ht, hf⟩ := firstPrint_eq_target S U lb h
  obtain ⟨p', hp', hpb⟩ := firstPrint_ok S U lb h
  rw [hf] at hp'; cases hp'
  by_cases hemp : lb.buf.isEmpty = true
  · -- the empty buffer: the target is the cursor
    have hb : lb.buf = [] := by simpa using hemp
    have hp0 : lb.pos = 0 := by have := h.le_len; simp [hb] at this; exact this
    have hfp0 : fp = 0 := by have := hpb.le_len; simp [hb] at this; exact this
    subst hfp0
    simp [LB.kill, LM.bind_apply, LM.notify, LM.ro, hf, LM.get, hp0] at hrun
    obtain ⟨_, rfl, _⟩ := hrun
    exact checkKill_nothing (by simp [spanOf, hemp]) rfl
  have hemp' : lb.buf.isEmpty = false := by simpa using hemp
  by_cases h1 : fp < lb.pos
  · obtain ⟨x, y, z, hd, hbuf, hx, hy⟩ := drain_ok .backward hpb h (by omega)
    have hne : (fp != lb.pos) = true := by simp; omega
    simp [LB.kill, LM.bind_apply, LM.notify, LM.ro, hf, LM.get, h1, hd, LM.setPos, hne] at hrun
    obtain ⟨_, rfl, rfl⟩ := hrun
    exact checkKill_span (a := fp) (b := lb.pos) (x := x) (y := y) (z := z)
      (by simp [spanOf, hemp', ht, h1]) hbuf hx hy rfl (by simp [killedText]) rfl
  · by_cases h2 : lb.pos < fp
    · obtain ⟨x, y, z, hd, hbuf, hx, hy⟩ := drain_ok .forward h hpb (by omega)
      have hne : (fp != lb.pos) = true := by simp; omega
      simp [LB.kill, LM.bind_apply, LM.notify, LM.ro, hf, LM.get, h1, h2, hd, hne] at hrun
      obtain ⟨_, rfl, rfl⟩ := hrun
      exact checkKill_span (a := lb.pos) (b := fp) (x := x) (y := y) (z := z)
        (by simp [spanOf, hemp', ht, h1, h2]) hbuf hx hy rfl (by simp [killedText]) rfl
    · have hne : (fp != lb.pos) = false := by simp; omega
      simp [LB.kill, LM.bind_apply, LM.notify, LM.ro, hf, LM.get, h1, h2, hne] at hrun
      obtain ⟨_, rfl, _⟩ := hrun
      exact checkKill_nothing (by simp [spanOf, hemp', ht, h1, h2]) rfl

theorem copy_viFirstPrint_is_span (S : Segmenter) (U : UData) (lb : LB) (r : Option Text)
    (h : WF lb) (hrun : LB.copy S U lb .viFirstPrint = .ok r) :
    checkCopy S U lb .viFirstPrint (.optText r) = none := by
  by_cases hemp : lb.buf.isEmpty = true
  · simp [LB.copy, hemp, pure, Except.pure] at hrun
    subst hrun
    exact checkCopy_nothing (by simp [spanOf, hemp])
  have hemp' : lb.buf.isEmpty = false := by simpa using hemp
  obtain ⟨fp, ht, hf⟩ := firstPrint_eq_target S U lb h
  obtain ⟨p', hp', hpb⟩ := firstPrint_ok S U lb h
  rw [hf] at hp'; cases hp'
  by_cases h1 : fp < lb.pos
  · obtain ⟨x, y, z, hs3, hbuf, hx, hy⟩ := split3_of_boundaries hpb h (by omega)
    simp [LB.copy, hemp', hf, h1, slice, hs3, bind, Except.bind, pure, Except.pure] at hrun
    subst hrun
    exact checkCopy_span (a := fp) (b := lb.pos) (by simp [spanOf, hemp', ht, h1]) hbuf hx hy
  · by_cases h2 : lb.pos < fp
    · obtain ⟨x, y, z, hs3, hbuf, hx, hy⟩ := split3_of_boundaries h hpb (by omega)
      simp [LB.copy, hemp', hf, h1, h2, slice, hs3, bind, Except.bind, pure, Except.pure] at hrun
      subst hrun
      exact checkCopy_span (a := lb.pos) (b := fp) (by simp [spanOf, hemp', ht, h1, h2]) hbuf hx hy
    · simp [LB.copy, hemp', hf, h1, h2, bind, Except.bind, pure, Except.pure] at hrun
      subst hrun
      exact checkCopy_nothing (by simp [spanOf, hemp', ht, h1, h2])

end Rl
